#!/bin/sh
# Builds /verif/.venv offline: python 3.12 (the repo's interpreter) + z3-solver, cvc5, jsonschema
# from the wheelhouse, plus a .pth that makes /venv's site-packages (sqlalchemy, pytest, sly deps)
# importable.  Idempotent.
set -e
cd "$(dirname "$0")"
V=.venv
if [ ! -x "$V/bin/python" ] || ! "$V/bin/python" -c 'import z3, jsonschema, sqlalchemy' 2>/dev/null; then
  rm -rf "$V"
  /venv/bin/python -m venv "$V"
  PIP_NO_INDEX=1 "$V/bin/python" -m pip install -q --no-index --find-links /opt/veriftools/wheels \
      z3-solver cvc5 jsonschema >/dev/null
  SP=$("$V/bin/python" -c 'import sysconfig; print(sysconfig.get_paths()["purelib"])')
  echo "import site; site.addsitedir('/venv/lib/python3.12/site-packages')" > "$SP/zz_repo_venv.pth"
fi
"$V/bin/python" -c 'import z3, jsonschema, sqlalchemy, sly, mindsdb_sql; print("verif venv ok", z3.get_version_string())'
