#!/usr/bin/env python3
"""Maintainer tool: run the behaviour-preserving probes (seeded/harmless/*) against scratch worktrees of /repo HEAD, several at a time,
without touching /repo itself.   tools_harmless_par.py <worker-id> <n-workers>
Each probe: `git apply` (falling back to `patch --fuzz=3` when later /repo commits moved the context), all twenty quick checks with
REPO_ROOT=<worktree>, revert. Results go to the probe's meta.json (`alarms`, `applies`). Not registered in MANIFEST.json."""
import json, os, subprocess, sys, glob, tempfile, shutil

wid, nw = int(sys.argv[1]), int(sys.argv[2])
VERIF = os.path.dirname(os.path.abspath(__file__))
wt = f'/tmp/harmwt_{wid}'
subprocess.run(['git', '-C', '/repo', 'worktree', 'remove', '--force', wt], capture_output=True)
subprocess.run(['git', '-C', '/repo', 'worktree', 'add', '--detach', wt, 'HEAD'], capture_output=True, check=True)
probes = sorted(d for d in glob.glob(VERIF + '/seeded/harmless/C*') if os.path.isdir(d))
only = [a for a in sys.argv[3:] if not a.startswith('--')]
ALL = [f'C{i:02d}' for i in range(1, 21)]
ROT = next((int(a.split('=')[1]) for a in sys.argv if a.startswith('--rot=')), 0)   # cross pass: K checks of OTHER properties per probe, rotating (results under `alarms_rot`)
OWN = '--own' in sys.argv          # quick pass: only the check of the property the probe was written for (its results are kept under `alarms_own`)
try:
    for i, d in enumerate(probes):
        if i % nw != wid:
            continue
        sid = os.path.basename(d)
        if only and sid not in only:
            continue
        m = json.load(open(d + '/meta.json'))
        subprocess.run(['git', '-C', wt, 'checkout', '--', '.'], capture_output=True)
        m.pop('applied_with_fuzz', None)
        r = subprocess.run(['git', '-C', wt, 'apply', d + '/patch.diff'], capture_output=True, text=True)
        if r.returncode != 0:
            r = subprocess.run(['patch', '-p1', '--fuzz=3', '-s', '-d', wt, '-i', d + '/patch.diff'], capture_output=True, text=True)
            subprocess.run(f'find {wt} -name "*.orig" -o -name "*.rej" | xargs rm -f', shell=True)
            if r.returncode != 0:
                subprocess.run(['git', '-C', wt, 'checkout', '--', '.'], capture_output=True)
                m['applies'] = False
                m['alarms'] = {}
                json.dump(m, open(d + '/meta.json', 'w'), indent=1, ensure_ascii=False)
                print(sid, 'DOES NOT APPLY on current HEAD', flush=True)
                continue
            m['applied_with_fuzz'] = True
        out = tempfile.mkdtemp(prefix='harmout_', dir='/tmp')
        procs = {}
        own_ = m.get('property') or sid.split('-')[0]
        rot_ = [c for c in (ALL[(i * 3 + j * 7) % 20] for j in range(1, ROT + 3)) if c != own_][:ROT]
        for p in ([own_] if OWN else (rot_ if ROT else ALL)):
            e = dict(os.environ, REPO_ROOT=wt, VERIF_OUT=os.path.join(out, p))
            procs[p] = subprocess.Popen([VERIF + '/bin/vcheck', p, '--tier', 'quick'], env=e, stdout=subprocess.PIPE, stderr=subprocess.STDOUT, text=True)
        res = {}
        for p, pr in procs.items():
            o = pr.communicate()[0]
            if pr.returncode != 0:
                lines = [l for l in o.splitlines() if l.startswith(('VIOLATION', 'UNDECIDED', 'CHECKER-ERROR', '  obligation'))][:6]
                res[p] = {'rc': pr.returncode, 'lines': lines or o.splitlines()[-4:]}
        shutil.rmtree(out, ignore_errors=True)
        m['applies'] = True
        m['alarms_own' if OWN else ('alarms_rot' if ROT else 'alarms')] = res
        json.dump(m, open(d + '/meta.json', 'w'), indent=1, ensure_ascii=False)
        print(sid, 'ALARMS' if res else 'quiet', {k: v['rc'] for k, v in res.items()}, flush=True)
        for k, v in res.items():
            for l in v['lines'][:3]:
                print('    ', k, l[:200], flush=True)
finally:
    subprocess.run(['git', '-C', '/repo', 'worktree', 'remove', '--force', wt], capture_output=True)
print('WORKER-DONE', wid, flush=True)
