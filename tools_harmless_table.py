#!/usr/bin/env python3
"""Maintainer tool: regenerates seeded/harmless/README.md (header from HEADER below, table from the meta.json files)."""
import json, glob, os
HERE = os.path.dirname(os.path.abspath(__file__))
rows, quiet, na, alarms = [], 0, 0, 0
for d in sorted(glob.glob(HERE + '/seeded/harmless/C*')):
    m = json.load(open(d + '/meta.json'))
    if m.get('applies') is False:
        res = 'no longer applies (region rewritten by a later /repo fix)'
        na += 1
    elif 'alarms_own' in m or 'alarms_rot' in m:
        # latest passes (own property + rotating foreign checks on the current /repo HEAD); the all-twenty matrix of an earlier HEAD is kept in `alarms`
        bad = dict(m.get('alarms_own') or {}, **(m.get('alarms_rot') or {}))
        if bad:
            res = 'ALARM: ' + ', '.join(f"{k} rc={v['rc']}" for k, v in bad.items())
            alarms += 1
        else:
            res = 'quiet (own property' + (' + rotating checks of other properties' if 'alarms_rot' in m else '') + ')' + (' [applied with fuzz]' if m.get('applied_with_fuzz') else '')
            quiet += 1
    elif m.get('alarms'):
        res = 'ALARM: ' + ', '.join(f"{k} rc={v['rc']}" for k, v in m['alarms'].items())
        alarms += 1
    elif 'alarms' in m:
        res = 'quiet (20 x exit 0)' + (' [applied with fuzz]' if m.get('applied_with_fuzz') else '')
        quiet += 1
    else:
        res = 'not run'
    rows.append(f"| {m['seed']} | {' '.join(str(m.get('edit_kind') or '').split())[:60]} | {' '.join(str(m.get('what') or '').split())[:260].replace('|', '/')} | {res} |")
head = open(HERE + '/seeded/harmless/HEADER.md').read().rstrip('\n')
open(HERE + '/seeded/harmless/README.md', 'w').write(head + f"\n\nCurrent state (generated from the `meta.json` files): {len(rows)} probes, {quiet} quiet, {na} no longer apply, {alarms} alarms.\n\n| probe | kind | what | all checks |\n|---|---|---|---|\n" + '\n'.join(rows) + '\n')
print(len(rows), 'probes:', quiet, 'quiet,', na, 'n.a.,', alarms, 'alarms')
