#!/usr/bin/env python3
"""Maintainer tool for the seeded property-breaking changes kept under /verif/seeded/<seed-id>/.

  tools_seed_eval.py import  <Cnn> <worktree> <seed-id>   take `git diff` + seed_demo.py + seed_meta.json of a sub-agent's scratch worktree
  tools_seed_eval.py confirm <seed-id>                    in a fresh scratch worktree of /repo HEAD: demo passes without the change, fails with it, suite passes
  tools_seed_eval.py run     <seed-id> [--tier T] [Cnn…]  apply the change to /repo, run the property's check (or the listed ones), revert; records what fired
  tools_seed_eval.py table                                 print the README table from the meta.json files

Nothing here is registered in MANIFEST.json; the checks never read seeded/."""
import json
import os
import shutil
import subprocess
import sys
import tempfile

HERE = os.path.dirname(os.path.abspath(__file__))
SEEDED = os.path.join(HERE, 'seeded')
REPO = '/repo'
PY = '/venv/bin/python'


def sh(cmd, cwd=None, env=None, timeout=3600):
    e = dict(os.environ)
    e.update(env or {})
    p = subprocess.run(cmd, cwd=cwd, env=e, shell=isinstance(cmd, str), capture_output=True, text=True, timeout=timeout)
    return p.returncode, p.stdout + p.stderr


def load_meta(sid):
    return json.load(open(os.path.join(SEEDED, sid, 'meta.json')))


def save_meta(sid, m):
    json.dump(m, open(os.path.join(SEEDED, sid, 'meta.json'), 'w'), indent=1, ensure_ascii=False)


def cmd_import(prop, wt, sid):
    d = os.path.join(SEEDED, sid)
    os.makedirs(d, exist_ok=True)
    rc, diff = sh(['git', '-C', wt, 'diff'])
    assert rc == 0 and diff.strip(), 'no diff'
    open(os.path.join(d, 'patch.diff'), 'w').write(diff)
    shutil.copy(os.path.join(wt, 'seed_demo.py'), os.path.join(d, 'demo.py'))
    am = {}
    try:
        am = json.load(open(os.path.join(wt, 'seed_meta.json')))
    except Exception:
        pass
    m = {'seed': sid, 'property': prop, 'origin': 'fresh sub-agent given only the property text and a scratch worktree',
         'what': am.get('what'), 'needs': am.get('needs'), 'files': am.get('files'), 'agent_reported': {k: am.get(k) for k in ('tests_passed', 'demo_fails_with_change', 'demo_passes_without_change')}}
    save_meta(sid, m)
    print('imported', sid)


def cmd_confirm(sid):
    d = os.path.join(SEEDED, sid)
    m = load_meta(sid)
    wt = tempfile.mkdtemp(prefix='seedchk_', dir='/tmp')
    os.rmdir(wt)
    rc, out = sh(['git', '-C', REPO, 'worktree', 'add', '--detach', wt, 'HEAD'])
    assert rc == 0, out
    try:
        env = {'PYTHONPATH': wt, 'PYTHONDONTWRITEBYTECODE': '1'}
        shutil.copy(os.path.join(d, 'demo.py'), os.path.join(wt, 'seed_demo.py'))
        rc0, out0 = sh([PY, 'seed_demo.py'], cwd=wt, env=env)
        rc, out = sh(['git', '-C', wt, 'apply', os.path.join(d, 'patch.diff')])
        assert rc == 0, out
        rc1, out1 = sh([PY, 'seed_demo.py'], cwd=wt, env=env)
        rct, outt = sh([PY, '-m', 'pytest', '-q', '-p', 'no:cacheprovider', '-x'], cwd=wt, env=env)
        summary = [l for l in outt.splitlines() if 'passed' in l or 'failed' in l or 'error' in l.lower()][-1:]
        m['confirmed'] = {'repo_head': sh(['git', '-C', REPO, 'rev-parse', '--short', 'HEAD'])[1].strip(),
                          'demo_rc_without_change': rc0, 'demo_rc_with_change': rc1, 'demo_tail_with_change': out1.strip().splitlines()[-3:],
                          'suite_rc_with_change': rct, 'suite_summary': summary,
                          'ran': ['git worktree add --detach <scratch> HEAD', 'python seed_demo.py (unchanged)', 'git apply patch.diff', 'python seed_demo.py (changed)', 'python -m pytest -q -p no:cacheprovider']}
        m['kept'] = bool(rc0 == 0 and rc1 != 0 and rct == 0)
        save_meta(sid, m)
        print(sid, 'demo without:', rc0, 'with:', rc1, 'suite:', rct, summary, 'KEPT' if m['kept'] else 'NOT KEPT')
        if rc0 != 0:
            print(out0[-1500:])
    finally:
        sh(['git', '-C', REPO, 'worktree', 'remove', '--force', wt])
        shutil.rmtree(wt, ignore_errors=True)


def cmd_run(sid, props, tier):
    d = os.path.join(SEEDED, sid)
    m = load_meta(sid)
    props = props or [m['property']]
    rc, out = sh(['git', '-C', REPO, 'status', '--porcelain', '--untracked-files=no'])
    assert not out.strip(), '/repo has uncommitted changes:\n' + out
    rc, out = sh(['git', '-C', REPO, 'apply', os.path.join(d, 'patch.diff')])
    assert rc == 0, out
    res = {}
    try:
        outdir = tempfile.mkdtemp(prefix='seedrun_', dir='/tmp')
        procs = {}
        for p in props:
            e = dict(os.environ)
            e['VERIF_OUT'] = os.path.join(outdir, p)
            procs[p] = subprocess.Popen([os.path.join(HERE, 'bin', 'vcheck'), p, '--tier', tier], env=e, stdout=subprocess.PIPE, stderr=subprocess.STDOUT, text=True)
        for p, pr in procs.items():
            o = pr.communicate()[0]
            viol = [l for l in o.splitlines() if l.startswith('VIOLATION')]
            und = [l for l in o.splitlines() if l.startswith('UNDECIDED')]
            res[p] = {'rc': pr.returncode, 'violations': [v.split('replay=')[-1].split('/')[-1] for v in viol][:12], 'n_violations': len(viol), 'undecided': len(und)}
            print(p, 'rc=', pr.returncode, 'violations=', len(viol), 'undecided=', len(und))
            for v in viol[:8]:
                print('   ', v)
            if pr.returncode not in (0, 1):
                print(o[-1500:])
        shutil.rmtree(outdir, ignore_errors=True)
    finally:
        rc, out = sh(['git', '-C', REPO, 'checkout', '--', '.'])
        assert rc == 0, out
    m.setdefault('checks', {})[tier] = res
    own = res.get(m['property'])
    if own is not None:
        m.setdefault('caught', {})[tier] = own['rc'] == 1
    save_meta(sid, m)


ALL_PROPS = [f'C{i:02d}' for i in range(1, 21)]


def cmd_harmless(prop, wt, tag='h'):
    """imports harmless_N.diff of a sub-agent worktree as seeded/harmless/<prop>-hN/, applies each to /repo, runs ALL checks (quick) and expects exit 0 everywhere"""
    metas = []
    try:
        metas = json.load(open(os.path.join(wt, 'harmless_meta.json')))
    except Exception:
        pass
    for i in range(1, 9):
        src = os.path.join(wt, f'harmless_{i}.diff')
        if not os.path.exists(src):
            continue
        sid = f'{prop}-{tag}{i}'
        d = os.path.join(SEEDED, 'harmless', sid)
        os.makedirs(d, exist_ok=True)
        shutil.copy(src, os.path.join(d, 'patch.diff'))
        am = next((m for m in metas if isinstance(m, dict) and str(m.get('patch', '')).endswith(f'harmless_{i}.diff')), {})
        m = {'seed': sid, 'property': prop, 'kind': 'behaviour-preserving edit (false-alarm probe)', 'origin': 'fresh sub-agent given only the property text and a scratch worktree',
             'edit_kind': am.get('kind'), 'what': am.get('what'), 'why_preserving': am.get('why_preserving'), 'agent_reported_tests': am.get('tests_passed')}
        json.dump(m, open(os.path.join(d, 'meta.json'), 'w'), indent=1, ensure_ascii=False)
        cmd_harmless_run(sid)


def cmd_harmless_run(sid, props=None):
    d = os.path.join(SEEDED, 'harmless', sid)
    m = json.load(open(os.path.join(d, 'meta.json')))
    rc, out = sh(['git', '-C', REPO, 'status', '--porcelain', '--untracked-files=no'])
    assert not out.strip(), '/repo has uncommitted changes'
    rc, out = sh(['git', '-C', REPO, 'apply', os.path.join(d, 'patch.diff')])
    if rc != 0:
        m['applies'] = False
        json.dump(m, open(os.path.join(d, 'meta.json'), 'w'), indent=1, ensure_ascii=False)
        print(sid, 'DOES NOT APPLY', out[-200:])
        return
    res = {}
    try:
        if os.environ.get('HARMLESS_RUN_SUITE'):
            rct, outt = sh([PY, '-m', 'pytest', '-q', '-p', 'no:cacheprovider', '-x'], cwd=REPO, env={'PYTHONDONTWRITEBYTECODE': '1'})
            m['suite_rc'] = rct
        outdir = tempfile.mkdtemp(prefix='harmrun_', dir='/tmp')
        procs = {}
        for p in (props or ALL_PROPS):
            e = dict(os.environ)
            e['VERIF_OUT'] = os.path.join(outdir, p)
            procs[p] = subprocess.Popen([os.path.join(HERE, 'bin', 'vcheck'), p, '--tier', 'quick'], env=e, stdout=subprocess.PIPE, stderr=subprocess.STDOUT, text=True)
        for p, pr in procs.items():
            o = pr.communicate()[0]
            if pr.returncode != 0:
                lines = [l for l in o.splitlines() if l.startswith(('VIOLATION', 'UNDECIDED', 'CHECKER-ERROR', '  obligation'))][:6]
                res[p] = {'rc': pr.returncode, 'lines': lines or o.splitlines()[-4:]}
        shutil.rmtree(outdir, ignore_errors=True)
    finally:
        rc, out = sh(['git', '-C', REPO, 'checkout', '--', '.'])
        assert rc == 0, out
    m['applies'] = True
    m['alarms'] = res
    json.dump(m, open(os.path.join(d, 'meta.json'), 'w'), indent=1, ensure_ascii=False)
    print(sid, 'suite rc', m.get('suite_rc'), 'ALARMS' if res else 'quiet', {k: v['rc'] for k, v in res.items()})
    for k, v in res.items():
        for l in v['lines'][:4]:
            print('    ', k, l[:220])


def cmd_table():
    rows = []
    for sid in sorted(os.listdir(SEEDED)):
        p = os.path.join(SEEDED, sid, 'meta.json')
        if not os.path.exists(p):
            continue
        m = json.load(open(p))
        c = m.get('checks', {})
        def cell(t):
            r = c.get(t, {}).get(m['property'])
            if not r:
                return '-'
            return ('caught: ' + ', '.join(r['violations'][:3])) if r['rc'] == 1 else f"missed (rc={r['rc']})"
        rows.append(f"| {sid} | {m['property']} | {(m.get('needs') or '')[:160]} | {cell('quick')} | {cell('thorough')} |")
    print('| seed | property | needs to manifest | quick | thorough |\n|---|---|---|---|---|')
    print('\n'.join(rows))


if __name__ == '__main__':
    a = sys.argv[1:]
    if a[0] == 'import':
        cmd_import(a[1], a[2], a[3])
    elif a[0] == 'confirm':
        cmd_confirm(a[1])
    elif a[0] == 'run':
        tier = 'quick'
        rest = a[2:]
        if '--tier' in rest:
            i = rest.index('--tier')
            tier = rest[i + 1]
            del rest[i:i + 2]
        cmd_run(a[1], rest, tier)
    elif a[0] == 'table':
        cmd_table()
    elif a[0] == 'harmless':
        cmd_harmless(a[1], a[2], a[3] if len(a) > 3 else 'h')
    elif a[0] == 'harmless-run':
        cmd_harmless_run(a[1], a[2:] or None)
