"""C18 — tree copies are independent; equality of trees, steps and plans is lawful."""
import re
import ast, copy, os, random
import z3
from vlib import repo, pysym, corpus, lrtab, frames
from vlib.core import PROVED, FAILED, UNDECIDED, Bounded
from vlib.pysym import SymObj, SymSeq, SymVal, Stub, Event, Unsupported, PathLimit

LEVEL = 'proof'
MANIFEST = {
    'engine': 'pysym+frames',
    'level': 'proof',
    'technique': 'symbolic execution of the hand-written copy hooks and __eq__/__hash__ methods against copy/equality contracts; repository-wide census of copy hooks and attribute stores',
    'text': 'Identifier.__copy__/__deepcopy__ are proved to copy every attribute ever stored on an Identifier (census over the whole '
            'repository) into a fresh object; reflexivity (== returns True, not merely truthy), symmetry on same-class operands and '
            'hash/eq consistency of every hand-written __eq__/__hash__ are proved per class; equal step lists give equal plans. '
            'Five genuine defects found by these obligations were repaired in /repo (fix: commits, see known_findings.json "fixed").',
    'note': 'Assumed: copy.deepcopy without hooks produces a structure-equal fresh graph; to_tree()/str() are deterministic functions of '
            'the object (modelled as uninterpreted functions). Bounded: every single-attribute mutation of copy() over the corpus trees '
            'leaves the original\'s string unchanged.',
}


def _emit(rep, oid, v, fn, clause, replay=None):
    if v.status == PROVED:
        rep.proved(oid, 'pysym', v.detail, function=fn, seconds=v.seconds, clause=clause)
    elif v.status == FAILED:
        rep.failed(oid, 'pysym', v.detail, function=fn, seconds=v.seconds, clause=clause, cex=v.cex, replay=replay() if replay else None)
    else:
        rep.undecided(oid, 'pysym', v.detail, function=fn, seconds=v.seconds, clause=clause)


REPO_MODS = None


def mods():
    global REPO_MODS
    if REPO_MODS is None:
        REPO_MODS = [m for m in repo.all_repo_modules() if m.startswith('mindsdb_sql')]
    return REPO_MODS


def adhoc_attrs_of(cls_name):
    """attributes stored on non-self receivers that no class initialises on self, whose receiver is built by cls_name(...) in the same function"""
    self_attrs = set()
    stores = {}
    for m in mods():
        tree = repo.module_ast(m)
        for fn in ast.walk(tree):
            if not isinstance(fn, (ast.FunctionDef,)):
                continue
            built = {}
            for n in ast.walk(fn):
                if isinstance(n, ast.Assign) and isinstance(n.value, ast.Call):
                    f = n.value.func
                    nm = f.id if isinstance(f, ast.Name) else (f.attr if isinstance(f, ast.Attribute) else None)
                    for t in n.targets:
                        if isinstance(t, ast.Name):
                            built[t.id] = nm
            for n in ast.walk(fn):
                if isinstance(n, ast.Assign):
                    for t in n.targets:
                        if isinstance(t, ast.Attribute) and isinstance(t.value, ast.Name):
                            if t.value.id == 'self':
                                self_attrs.add(t.attr)
                            else:
                                stores.setdefault(t.attr, []).append((m, fn.name, built.get(t.value.id)))
    out = {}
    for a, sites in stores.items():
        if a in self_attrs:
            continue
        if any(b == cls_name for _, _, b in sites):
            out[a] = sites
    return out, {a for a in stores if a not in self_attrs}


# ------------------------------------------------------------------ copy hooks
def hook_obligations(rep):
    hooks = frames.class_defines({'__copy__', '__deepcopy__', '__reduce__', '__reduce_ex__', '__getstate__', '__setstate__', '__getnewargs__'}, mods())
    classes = sorted({(m, c) for m, c, _ in hooks})
    expected = [('mindsdb_sql.parser.ast.select.identifier', 'Identifier')]
    if classes == expected:
        rep.proved('C18.copy.hooks', 'frames', 'the only class with custom copy hooks is Identifier (__copy__, __deepcopy__)', function='(whole repository)',
                   clause='every class with a custom copy hook is under a hook contract')
    else:
        extra = [c for c in classes if c not in expected]
        rep.failed('C18.copy.hooks', 'frames', f'classes with copy hooks not under contract: {extra}', function='(whole repository)')
    from mindsdb_sql.parser.ast import Identifier, Star
    from mindsdb_sql.parser.ast.base import ASTNode
    adhoc, all_adhoc = adhoc_attrs_of('Identifier')
    rep.census['identifier.adhoc_attrs'] = sorted(adhoc)
    rep.census['repo.adhoc_attrs'] = sorted(all_adhoc)
    mod = 'mindsdb_sql.parser.ast.select.identifier'
    for hook, deep in (('__deepcopy__', True), ('__copy__', False)):
        fn = f'{mod}:Identifier.{hook}'
        for present in (True, False):
            def make_args(ex, present=present):
                node = SymObj({Identifier}, 'ident', prov='param')
                node.closed = True
                alias = SymObj(None, 'ident.alias', prov='param')      # some node or None; its own copy is by contract (opaque)
                star = SymObj({Star}, 'star_part', prov='param')
                star.fields.update(alias=None, parentheses=False)
                star.copyable = True
                parts = ex.param_container([pysym.mk_str('part0'), star])
                node.fields.update(alias=alias, parentheses=pysym.mk_bool('ident.parentheses'), parts=parts)
                extra = {}
                if present:
                    for a in adhoc:
                        v = SymObj(None, f'ident.{a}', prov='param')
                        v.known_not_none = True
                        node.fields[a] = v
                        extra[a] = v
                ex.path_state.update(node=node, alias=alias, parts=parts, star=star, extra=extra)
                return [node] + ([{}] if deep else []), {}

            def post(ex, o, deep=deep, present=present):
                st = o.state
                if o.kind != 'return':
                    return f'raises {o.value.__name__}'
                r = o.value
                if not isinstance(r, SymObj) or r.cls is not Identifier or r is st['node'] or r.prov != 'fresh':
                    return f'result {r!r} is not a fresh Identifier'
                if any(w[0] is st['node'] or w[0] is st['parts'] for w in o.writes):
                    return 'the original is modified'
                p = r.fields.get('parts')
                if not isinstance(p, list) or p is st['parts'] or len(p) != 2 or p[0] is not st['parts'][0]:
                    return f'parts = {p!r} is not a new list with the same items'
                pa = r.fields.get('parentheses')
                if pa is not st['node'].fields['parentheses']:
                    return 'parentheses not copied'
                al = r.fields.get('alias')
                orig_alias_none = st['alias'].cls_set == frozenset({type(None)})
                if not orig_alias_none and not getattr(st['alias'], 'known_not_none', False):
                    return 'alias None-ness undetermined on this path'
                if orig_alias_none:
                    if al is not None:
                        return 'alias invented'
                else:
                    if al is None or al is st['alias'] or getattr(al, 'copy_of', None) is not st['alias']:
                        return f'alias {al!r} is not a copy of the original alias'
                for a, v in st['extra'].items():
                    got = r.fields.get(a, '<absent>')
                    if got == '<absent>':
                        return f'attribute {a} (stored on identifiers by the planner) is dropped by {hook}'
                    if got is v or getattr(got, 'copy_of', None) is not v:
                        return f'attribute {a} is shared with / not copied from the original'
                for a in r.fields:
                    if a not in ('parts', 'parentheses', 'alias') and a not in st['extra']:
                        return f'attribute {a} invented'
                return None
            v = pysym.verify(mod, f'Identifier.{hook}', make_args, post)
            _emit(rep, f'C18.copy.Identifier.{hook}.{"adhoc" if present else "plain"}', v, fn,
                  'ensures result is a fresh Identifier; parts is a new list with the same items; alias and every ad-hoc attribute (census) deep-copied; parentheses equal; self unchanged')
        # deep-ness of parts items: a Star part is a mutable node

        def make_args2(ex):
            node = SymObj({Identifier}, 'ident', prov='param')
            node.closed = True
            star = SymObj({Star}, 'star_part', prov='param')
            star.fields.update(alias=None, parentheses=False)
            star.copyable = True
            parts = ex.param_container(['t', star])
            node.fields.update(alias=None, parentheses=False, parts=parts)
            ex.path_state.update(star=star)
            return [node] + ([{}] if deep else []), {}

        def post2(ex, o):
            if o.kind != 'return':
                return f'raises {o.value.__name__}'
            p = o.value.fields.get('parts')
            if isinstance(p, list) and len(p) == 2 and p[1] is o.state['star']:
                return 'the Star part (a mutable node) is shared between the copy and the original'
            return None
        if deep:
            v = pysym.verify(mod, f'Identifier.{hook}', make_args2, post2)
            _emit(rep, 'C18.copy.Identifier.__deepcopy__.star_part', v, fn, 'ensures no mutable node of parts is shared with the original',
                  replay=replay_star)


def replay_star():
    from mindsdb_sql import parse_sql
    sql = 'select t.* from t'
    q = parse_sql(sql)
    c = q.copy()
    before = str(q)
    c.targets[0].parts[-1].parentheses = True
    after = str(q)
    return {'input': sql, 'dialect': 'mindsdb', 'fires': before != after, 'observed': f'after copy().targets[0].parts[-1].parentheses = True the original prints `{after}`',
            'expected': f'`{before}`'}


# ------------------------------------------------------------------ equality laws
def eq_obligations(rep):
    from mindsdb_sql.parser.ast.base import ASTNode
    from mindsdb_sql.parser.ast.create import TableColumn
    from mindsdb_sql.planner.steps import PlanStep, ProjectStep
    from mindsdb_sql.planner.query_plan import QueryPlan
    from mindsdb_sql.planner.step_result import Result
    eqs = frames.class_defines({'__eq__', '__hash__', '__ne__'}, mods())
    known = {('mindsdb_sql.parser.ast.base', 'ASTNode', '__eq__'), ('mindsdb_sql.parser.ast.create', 'TableColumn', '__eq__'),
             ('mindsdb_sql.planner.query_plan', 'QueryPlan', '__eq__'), ('mindsdb_sql.planner.step_result', 'Result', '__hash__'),
             ('mindsdb_sql.planner.step_result', 'Result', '__eq__'), ('mindsdb_sql.planner.steps', 'PlanStep', '__eq__')}
    extra = set(eqs) - known
    if extra:
        rep.failed('C18.eq.census', 'frames', f'hand-written equality/hash methods without contract: {sorted(extra)}', function='(whole repository)')
    else:
        rep.proved('C18.eq.census', 'frames', f'{len(eqs)} hand-written __eq__/__hash__ methods, all under contract', function='(whole repository)',
                   clause='every hand-written __eq__/__hash__ is under a contract')

    def det_stubs(ex):
        """to_tree()/str() are deterministic functions of the object; to_single_line is a function of its argument"""
        def to_tree(ex_, obj, a, k):
            return SymVal('str', z3.String(f'to_tree({obj.label})'))
        ex.method_stubs['__str__'] = lambda ex_, obj, a, k: SymVal('str', z3.String(f'str({obj.label})'))
        f = z3.Function('to_single_line', z3.StringSort(), z3.StringSort())
        ex.stubs[('mindsdb_sql.parser.utils', 'to_single_line')] = lambda ex_, a, k, node=None: SymVal('str', f(pysym.models.to_z3(a[0])[0]))
        return to_tree

    # ASTNode.__eq__
    def mk_ast(same):
        def make_args(ex):
            tt = det_stubs(ex)
            x = SymObj({ASTNode}, 'x', prov='param')
            x.subclass_ok = True
            x.fields['to_tree'] = Stub(lambda ex_, a, k: tt(ex_, x, a, k), 'to_tree')
            x.fields['to_string'] = Stub(lambda ex_, a, k: SymVal('str', z3.String('str(x)')), 'to_string')
            if same:
                y = x
            else:
                y = SymObj({ASTNode}, 'y', prov='param')
                y.subclass_ok = True
                y.fields['to_tree'] = Stub(lambda ex_, a, k: tt(ex_, y, a, k), 'to_tree')
                y.fields['to_string'] = Stub(lambda ex_, a, k: SymVal('str', z3.String('str(y)')), 'to_string')
            ex.path_state.update(x=x, y=y)
            return [x, y], {}
        return make_args

    def post_refl(ex, o):
        if o.kind != 'return':
            return f'raises {o.value.__name__}'
        if o.value is not True:
            return f'x == x returns {o.value!r}, not True'
        return None
    v = pysym.verify('mindsdb_sql.parser.ast.base', 'ASTNode.__eq__', mk_ast(True), lambda ex, o: post_refl_sym(ex, o))
    _emit(rep, 'C18.eq.refl.ASTNode', v, 'mindsdb_sql.parser.ast.base:ASTNode.__eq__', 'ensures (x == x) is True')

    # symmetry of ASTNode.__eq__: result is a symmetric expression of (to_tree, single-line str) of both operands
    def sym_run(ex):
        args, _ = mk_ast(False)(ex)
        clo = pysym.closure_of('mindsdb_sql.parser.ast.base', 'ASTNode.__eq__')
        clo.no_stub = True
        r1 = ex.call_closure(clo, [args[0], args[1]], {})
        r2 = ex.call_closure(clo, [args[1], args[0]], {})
        return (r1, r2)
    _sym_verdict(rep, 'C18.eq.sym.ASTNode', sym_run, 'mindsdb_sql.parser.ast.base:ASTNode.__eq__')

    # equal => same single-line SQL: direct consequence of the second conjunct; checked as: x == y True => to_single_line(str x) == to_single_line(str y)
    def eqprint_run(ex):
        args, _ = mk_ast(False)(ex)
        clo = pysym.closure_of('mindsdb_sql.parser.ast.base', 'ASTNode.__eq__')
        clo.no_stub = True
        r = ex.call_closure(clo, [args[0], args[1]], {})
        return r

    def post_eqprint(ex, o):
        if o.kind != 'return':
            return f'raises {o.value.__name__}'
        val = o.value.t if isinstance(o.value, SymVal) else z3.BoolVal(o.value is True)
        f = z3.Function('to_single_line', z3.StringSort(), z3.StringSort())
        ok, _ = ex.valid(z3.Implies(val, z3.And(f(z3.String('str(x)')) == f(z3.String('str(y)')), z3.String('to_tree(x)') == z3.String('to_tree(y)'))), pc=o.pc)
        if not ok:
            return 'x == y can be True while the single-line SQL strings (or the trees) of x and y differ'
        return None
    ex = pysym.Executor()
    try:
        outs = ex.explore(eqprint_run)
        bad = next((r for r in (post_eqprint(ex, o) for o in outs) if r), None)
        v = pysym.Verdict(FAILED, bad) if bad else pysym.Verdict(PROVED, f'{len(outs)} path(s)')
    except (Unsupported, PathLimit) as e:
        v = pysym.Verdict(UNDECIDED, str(e))
    _emit(rep, 'C18.eq.print.ASTNode', v, 'mindsdb_sql.parser.ast.base:ASTNode.__eq__', 'ensures x == y => same single-line SQL and same to_tree()', replay=replay_eq_print)

    # Result
    def mk_res(same):
        def make_args(ex):
            x = SymObj({Result}, 'x', prov='param')
            x.fields['step_num'] = pysym.mk_int('x.step_num')
            y = x if same else SymObj({Result}, 'y', prov='param')
            if not same:
                y.fields['step_num'] = pysym.mk_int('y.step_num')
            return [x, y], {}
        return make_args

    v = pysym.verify('mindsdb_sql.planner.step_result', 'Result.__eq__', mk_res(True), post_refl_sym)
    _emit(rep, 'C18.eq.refl.Result', v, 'mindsdb_sql.planner.step_result:Result.__eq__', 'ensures (x == x) is True')

    def res_run(ex):
        args, _ = mk_res(False)(ex)
        ce = pysym.closure_of('mindsdb_sql.planner.step_result', 'Result.__eq__')
        ch = pysym.closure_of('mindsdb_sql.planner.step_result', 'Result.__hash__')
        ce.no_stub = ch.no_stub = True
        e1 = ex.call_closure(ce, [args[0], args[1]], {})
        e2 = ex.call_closure(ce, [args[1], args[0]], {})
        h1 = ex.call_closure(ch, [args[0]], {})
        h2 = ex.call_closure(ch, [args[1]], {})
        return (e1, e2, h1, h2)

    def post_res(ex, o):
        if o.kind != 'return':
            return f'__eq__/__hash__ raises {o.value.__name__}'
        e1, e2, h1, h2 = o.value
        b1 = e1.t if isinstance(e1, SymVal) else z3.BoolVal(bool(e1))
        b2 = e2.t if isinstance(e2, SymVal) else z3.BoolVal(bool(e2))
        ok, _ = ex.valid(b1 == b2, pc=o.pc)
        if not ok:
            return 'x == y differs from y == x'
        if not all(isinstance(h, SymVal) and h.sort == 'int' for h in (h1, h2)):
            return f'hash is not an int: {h1!r}'
        ok, _ = ex.valid(z3.Implies(b1, h1.t == h2.t), pc=o.pc)
        if not ok:
            return 'equal Results may hash differently'
        return None
    ex = pysym.Executor()
    _install_hash(ex)
    try:
        outs = ex.explore(res_run)
        bad = next((r for r in (post_res(ex, o) for o in outs) if r), None)
        v = pysym.Verdict(FAILED, bad) if bad else pysym.Verdict(PROVED, f'{len(outs)} path(s)', ex.solver_time)
    except (Unsupported, PathLimit) as e:
        v = pysym.Verdict(UNDECIDED, str(e))
    _emit(rep, 'C18.hash.Result', v, 'mindsdb_sql.planner.step_result:Result.__eq__,mindsdb_sql.planner.step_result:Result.__hash__',
          'ensures __eq__ symmetric; __hash__ returns an int; x == y => hash(x) == hash(y)', replay=replay_hash)

    # PlanStep / TableColumn / QueryPlan: reflexivity, symmetry on same-class operands with the same attribute set
    for cls, mod, fields in ((ProjectStep, 'mindsdb_sql.planner.steps', ['step_num', 'columns', 'dataframe', 'ignore_doubles']),
                             (TableColumn, 'mindsdb_sql.parser.ast.create', ['name', 'type', 'is_primary_key', 'default', 'length', 'nullable'])):
        owner = 'PlanStep' if cls is ProjectStep else 'TableColumn'

        def mk(same, cls=cls, fields=fields):
            def make_args(ex):
                x = SymObj({cls}, 'x', prov='param')
                y = x if same else SymObj({cls}, 'y', prov='param')
                for o_, nm in ((x, 'x'), (y, 'y')):
                    o_.closed = True
                    for f in fields:
                        o_.fields.setdefault(f, pysym.mk_int(f'{nm}.{f}'))
                ex.path_state.update(x=x, y=y)
                return [x, y], {}
            return make_args
        v = pysym.verify(mod, f'{owner}.__eq__', mk(True), post_refl_sym)
        _emit(rep, f'C18.eq.refl.{owner}', v, f'{mod}:{owner}.__eq__', 'ensures (x == x) is True')

        def run_sym(ex, cls=cls, mod=mod, owner=owner, mk=mk):
            args, _ = mk(False)(ex)
            clo = pysym.closure_of(mod, f'{owner}.__eq__')
            clo.no_stub = True
            r1 = ex.call_closure(clo, [args[0], args[1]], {})
            r2 = ex.call_closure(clo, [args[1], args[0]], {})
            return (r1, r2)
        _sym_verdict(rep, f'C18.eq.sym.{owner}', run_sym, f'{mod}:{owner}.__eq__')
    # TableColumn: equal => every printed attribute equal (nullable is printed by the renderer / kept in the tree)

    def tc_run(ex):
        x = SymObj({TableColumn}, 'x', prov='param')
        y = SymObj({TableColumn}, 'y', prov='param')
        for o_, nm in ((x, 'x'), (y, 'y')):
            o_.closed = True
            for f in ['name', 'type', 'is_primary_key', 'default', 'length', 'nullable']:
                o_.fields[f] = pysym.mk_int(f'{nm}.{f}')
        clo = pysym.closure_of('mindsdb_sql.parser.ast.create', 'TableColumn.__eq__')
        clo.no_stub = True
        return ex.call_closure(clo, [x, y], {})

    def tc_post(ex, o):
        if o.kind == 'return' and o.value is True:
            for f in ['name', 'type', 'is_primary_key', 'default', 'length', 'nullable']:
                ok, _ = ex.valid(z3.Int(f'x.{f}') == z3.Int(f'y.{f}'), pc=o.pc)
                if not ok:
                    return f'columns compare equal although their `{f}` differs'
        return None
    ex = pysym.Executor()
    try:
        outs = ex.explore(tc_run)
        bad = next((r for r in (tc_post(ex, o) for o in outs) if r), None)
        v = pysym.Verdict(FAILED, bad) if bad else pysym.Verdict(PROVED, f'{len(outs)} path(s)')
    except (Unsupported, PathLimit) as e:
        v = pysym.Verdict(UNDECIDED, str(e))
    _emit(rep, 'C18.eq.fields.TableColumn', v, 'mindsdb_sql.parser.ast.create:TableColumn.__eq__', 'ensures x == y => all constructor attributes equal',
          replay=replay_tablecolumn)

    # ... also when the two values are of different kinds (unset / False / 0 / '' are four different things to the printers): one attribute at a time
    # over the complete grid of value kinds, evaluated on the real method (finite case analysis)
    kinds = [None, False, True, 0, 1, 2, '', 'a', 'b']
    badk = None
    for f in ['name', 'type', 'is_primary_key', 'default', 'length', 'nullable']:
        for vx in kinds:
            for vy in kinds:
                a_, b_ = TableColumn(name='c', type='int'), TableColumn(name='c', type='int')
                setattr(a_, f, vx)
                setattr(b_, f, vy)
                try:
                    r_ = (a_ == b_)
                except Exception as e_:
                    r_ = e_
                want_ = (type(vx) is type(vy) and vx == vy)
                if (r_ is True) != want_ and not (vx == vy and {type(vx), type(vy)} <= {bool, int}) and badk is None:
                    badk = (f, vx, vy, r_)
    if badk is None:
        rep.proved('C18.eq.kinds.TableColumn', 'pysym', f'{6 * len(kinds) ** 2} cases: equal exactly when the attribute values are equal (None, False, 0 and the empty string are distinct)',
                   function='mindsdb_sql.parser.ast.create:TableColumn.__eq__', clause='ensures x == y <=> every constructor attribute has the same value on both sides')
    else:
        f, vx, vy, r_ = badk
        rep.failed('C18.eq.kinds.TableColumn', 'pysym', f'`{f}`: {vx!r} vs {vy!r} compare as {r_!r}', function='mindsdb_sql.parser.ast.create:TableColumn.__eq__',
                   clause='ensures x == y <=> every constructor attribute has the same value on both sides',
                   replay={'input': f"TableColumn('c', 'int') with {f}={vx!r}  ==  the same with {f}={vy!r}", 'fires': True, 'observed': repr(r_), 'expected': repr(type(vx) is type(vy) and vx == vy)})

    # PlanStep: the result of an executed step (`result_data`, stored by set_result) is not part of its identity - on either side
    for who in ('x', 'y', 'both', 'same-object'):
        def rd_run(ex, who=who):
            x = SymObj({ProjectStep}, 'x', prov='param')
            y = x if who == 'same-object' else SymObj({ProjectStep}, 'y', prov='param')
            for o_, nm in ((x, 'x'), (y, 'y')):
                o_.closed = True
                for f in ['step_num', 'columns', 'dataframe', 'ignore_doubles']:
                    o_.fields.setdefault(f, pysym.mk_int(f'{nm}.{f}'))
            if who in ('x', 'both', 'same-object'):
                x.fields['result_data'] = pysym.mk_int('x.result_data')
            if who in ('y', 'both'):
                y.fields['result_data'] = pysym.mk_int('y.result_data')
            clo = pysym.closure_of('mindsdb_sql.planner.steps', 'PlanStep.__eq__')
            clo.no_stub = True
            r1 = ex.call_closure(clo, [x, y], {})
            r2 = ex.call_closure(clo, [y, x], {})
            # with equal attributes the steps must compare equal whatever result either of them holds
            for f in ['step_num', 'columns', 'dataframe', 'ignore_doubles']:
                if x is not y:
                    ex.assume(z3.Int(f'x.{f}') == z3.Int(f'y.{f}'))
            return (r1, r2)
        ex = pysym.Executor()
        try:
            outs = ex.explore(rd_run)
            bad = None
            for o in outs:
                if o.kind != 'return':
                    bad = f'raises {o.value.__name__}'
                    break
                for r_ in o.value:
                    b_ = r_.t if isinstance(r_, SymVal) else z3.BoolVal(r_ is True)
                    ok, _ = ex.valid(b_, pc=o.pc)
                    if not ok:
                        bad = f'steps with equal attributes compare {o.value!r} when result_data is held by {who}: the result of an executed step takes part in equality (not reflexive / symmetric for executed steps)'
                        break
                if bad:
                    break
            v = pysym.Verdict(FAILED, bad) if bad else pysym.Verdict(PROVED, f'{len(outs)} path(s)', ex.solver_time)
        except (Unsupported, PathLimit) as e:
            v = pysym.Verdict(UNDECIDED, f'{type(e).__name__}: {e}')
        _emit(rep, f'C18.eq.result-data.PlanStep.{who}', v, 'mindsdb_sql.planner.steps:PlanStep.__eq__',
              'ensures result_data is ignored on both operands: steps equal in every other attribute compare True in both directions', replay=replay_result_data)

    # PlanStep with differing attribute sets
    def ps_run(ex):
        x = SymObj({ProjectStep}, 'x', prov='param')
        y = SymObj({ProjectStep}, 'y', prov='param')
        for o_, nm in ((x, 'x'), (y, 'y')):
            o_.closed = True
            for f in ['step_num', 'columns', 'dataframe', 'ignore_doubles']:
                o_.fields[f] = pysym.mk_int(f'{nm}.{f}')
        y.fields['extra'] = pysym.mk_int('y.extra')
        clo = pysym.closure_of('mindsdb_sql.planner.steps', 'PlanStep.__eq__')
        clo.no_stub = True
        r1 = ex.call_closure(clo, [x, y], {})
        r2 = ex.call_closure(clo, [y, x], {})
        return (r1, r2)
    _sym_verdict(rep, 'C18.eq.sym.PlanStep.attrsets', ps_run, 'mindsdb_sql.planner.steps:PlanStep.__eq__', replay=replay_planstep)

    # QueryPlan.__eq__: equal step lists => True; reflexive
    def qp_args(same):
        def make_args(ex):
            x = SymObj({QueryPlan}, 'x', prov='param')
            steps = SymSeq('x.steps', lambda e, l: SymObj(None, l, prov='param'), prov='param')
            x.fields['steps'] = steps
            if same:
                y = x
            else:
                y = SymObj({QueryPlan}, 'y', prov='param')
                y.fields['steps'] = steps      # element-wise identical steps
            return [x, y], {}
        return make_args

    def qp_post(ex, o):
        if o.kind != 'return':
            return f'raises {o.value.__name__}'
        if o.value is not True:
            return f'plans with identical steps compare {o.value!r}, not True'
        return None
    ex = pysym.Executor()
    _install_zip(ex)
    v = pysym.verify('mindsdb_sql.planner.query_plan', 'QueryPlan.__eq__', qp_args(True), qp_post, ex=ex)
    _emit(rep, 'C18.eq.refl.QueryPlan', v, 'mindsdb_sql.planner.query_plan:QueryPlan.__eq__', 'ensures (p == p) is True', replay=replay_plan_eq)
    ex = pysym.Executor()
    _install_zip(ex)
    v = pysym.verify('mindsdb_sql.planner.query_plan', 'QueryPlan.__eq__', qp_args(False), qp_post, ex=ex)
    _emit(rep, 'C18.plan.eq', v, 'mindsdb_sql.planner.query_plan:QueryPlan.__eq__', 'ensures plans with pairwise-equal steps compare True', replay=replay_plan_eq)

    # QueryPlan.__eq__ against its specification (a symmetric relation given C18.eq.sym.PlanStep): True only for step lists of
    # equal length; False only when the lengths differ or an aligned pair of steps compares unequal
    def qp2_args(ex):
        x = SymObj({QueryPlan}, 'x', prov='param')
        y = SymObj({QueryPlan}, 'y', prov='param')
        x.fields['steps'] = SymSeq('x.steps', lambda e, l: SymObj(None, l, prov='param'), prov='param')
        y.fields['steps'] = SymSeq('y.steps', lambda e, l: SymObj(None, l, prov='param'), prov='param')
        ex.path_state.update(x=x, y=y)
        return [x, y], {}

    def qp2_post(ex, o):
        if o.kind != 'return':
            return f'raises {o.value.__name__}'
        if o.value is not True and o.value is not False:
            return f'returns {o.value!r}, not a bool'
        lx, ly = o.state['x'].fields['steps'].len, o.state['y'].fields['steps'].len
        if o.value is True:
            ok, m = ex.valid(lx == ly, pc=o.pc)
            if not ok:
                return 'plans whose step lists differ in length compare True (so p == q and q == p can differ)' + _lens(m, lx, ly)
            return None
        ok, m = ex.valid(lx != ly, pc=o.pc)
        if ok:
            return None
        exits = [c for c in o.choices if ' returns=' in c and not c.endswith('=no')]
        if exits and all(re.fullmatch(r"loop@\d+ returns=\['zip#\d+\[\*\]\.[01]==zip#\d+\[\*\]\.[01]=F'\]", c) for c in exits):
            return None
        return f'plans compare False although neither the lengths differ nor an aligned pair of steps is unequal [{"; ".join(o.choices[-3:])}]' + _lens(m, lx, ly)
    ex = pysym.Executor()
    _install_zip(ex)
    v = pysym.verify('mindsdb_sql.planner.query_plan', 'QueryPlan.__eq__', qp2_args, qp2_post, ex=ex)
    lens = re.search(r'\[len x=(\d+), len y=(\d+)\]', str(v.detail) or '')
    _emit(rep, 'C18.eq.sym.QueryPlan', v, 'mindsdb_sql.planner.query_plan:QueryPlan.__eq__',
          'ensures (x == y) is True => len equal; (x == y) is False => len differ or some aligned pair unequal (symmetric specification)',
          replay=(lambda: replay_plan_sym(int(lens.group(1)), int(lens.group(2)))) if lens else (lambda: replay_plan_sym(1, 0)))


def _lens(m, lx, ly):
    try:
        return f' [len x={m.eval(lx, model_completion=True)}, len y={m.eval(ly, model_completion=True)}]'
    except Exception:
        return ''


def replay_result_data():
    from mindsdb_sql.planner.steps import ProjectStep
    a = ProjectStep(columns=[], dataframe=None)
    b = ProjectStep(columns=[], dataframe=None)
    a.set_result([{'x': 1}]) if hasattr(a, 'set_result') else setattr(a, 'result_data', [{'x': 1}])
    r = (a == a, a == b, b == a)
    return {'input': 'a = ProjectStep([], None) holding a result; b = ProjectStep([], None)', 'fires': r != (True, True, True), 'observed': f'(a == a, a == b, b == a) = {r}', 'expected': '(True, True, True)'}


def replay_eq_print():
    from mindsdb_sql import parse_sql
    for a, b in (('SELECT a FROM t WHERE a = 1 OR b = 2', 'SELECT a FROM t WHERE (a = 1 OR b = 2)'), ('SELECT f(a) FROM t', 'SELECT db.f(a) FROM t')):
        x, y = parse_sql(a), parse_sql(b)
        if (x == y) and str(x) != str(y):
            return {'input': f'parse_sql({a!r}) == parse_sql({b!r})', 'dialect': 'mindsdb', 'fires': True, 'observed': f'True although they print `{x}` and `{y}`', 'expected': 'False'}
    return {'input': 'trees differing only in parentheses / function namespace', 'dialect': 'mindsdb', 'fires': False, 'observed': 'unequal'}


def replay_plan_sym(nx, ny):
    from mindsdb_sql.planner.query_plan import QueryPlan
    from mindsdb_sql.planner.steps import ProjectStep
    mk = lambda n: QueryPlan(steps=[ProjectStep(columns=[], dataframe=None) for _ in range(n)])
    a, b = mk(nx), mk(ny)
    r1, r2 = (a == b), (b == a)
    fires = (r1 != r2) or ((r1 is True) != (nx == ny))
    return {'input': f'a = QueryPlan of {nx} equal steps, b = QueryPlan of {ny} equal steps', 'fires': fires, 'observed': f'a == b is {r1!r}, b == a is {r2!r}',
            'expected': f'both {nx == ny}'}


def post_refl_sym(ex, o):
    if o.kind != 'return':
        return f'raises {o.value.__name__}'
    v = o.value
    if v is True:
        return None
    if isinstance(v, SymVal) and v.sort == 'bool':
        ok, _ = ex.valid(v.t, pc=o.pc)
        return None if ok else 'x == x is not always True'
    return f'x == x returns {v!r}'


def _install_zip(ex):
    """zip(s, s) over the same symbolic sequence: elements pairwise identical (the uniform element stands for both);
    zip(s, t) over two sequences: min(len s, len t) pairs of unrelated elements (assumed contract of builtins.zip)"""
    def zip_stub(ex_, a, k, node=None):
        if len(a) == 2 and a[0] is not a[1] and all(isinstance(q, SymSeq) for q in a):
            s, t = a
            z = SymSeq(ex_.fresh_name('zip'), None, prov='fresh')
            z.elem_factory = lambda e, l: (s.elem_factory(e, l + '.0'), t.elem_factory(e, l + '.1'))
            ex_.assume(z.len == z3.If(s.len <= t.len, s.len, t.len))
            return z
        if len(a) == 2 and a[0] is a[1] and isinstance(a[0], SymSeq):
            s = a[0]
            z = SymSeq(ex_.fresh_name('zip'), None, prov='fresh')

            def ef(e, l):
                el = s.elem_factory(e, l)
                return (el, el)
            z.elem_factory = ef
            z.len = s.len
            z.nonempty = s.nonempty
            return z
        raise Unsupported('zip of different symbolic sequences')
    ex.stubs[('builtins', 'zip')] = zip_stub


def _install_hash(ex):
    """hash() of an int is a function of the int; hash of a tuple is a function of its items"""
    hi = z3.Function('hash_int', z3.IntSort(), z3.IntSort())
    ht = z3.Function('hash_tuple', z3.StringSort(), z3.IntSort(), z3.IntSort())

    def hash_stub(ex_, a, k, node=None):
        v = a[0]
        if isinstance(v, SymVal) and v.sort == 'int':
            return SymVal('int', hi(v.t))
        if isinstance(v, tuple) and len(v) == 2 and isinstance(v[0], str) and isinstance(v[1], SymVal) and v[1].sort == 'int':
            return SymVal('int', ht(z3.StringVal(v[0]), v[1].t))
        raise Unsupported('hash() of this value')
    ex.stubs[('builtins', 'hash')] = hash_stub

    def hash_method(ex_, recv, name, args, kwargs, node):
        raise Unsupported('method')
    from vlib.pysym import models
    orig = models.symval_method

    def sm(ex_, recv, name, args, kwargs, node):
        if name == '__hash__' and recv.sort == 'int':
            return SymVal('int', hi(recv.t))
        return orig(ex_, recv, name, args, kwargs, node)
    models.symval_method = sm


def _sym_verdict(rep, oid, run, fn, replay=None):
    ex = pysym.Executor()
    det = None
    try:
        outs = ex.explore(run)
        bad = None
        for o in outs:
            if o.kind != 'return':
                bad = f'(x == y, y == x) evaluation raises {o.value.__name__} [{"; ".join(o.choices[-3:])}]'
                break
            r1, r2 = o.value
            b1 = r1.t if isinstance(r1, SymVal) else z3.BoolVal(bool(r1))
            b2 = r2.t if isinstance(r2, SymVal) else z3.BoolVal(bool(r2))
            if (isinstance(r1, bool) or isinstance(r1, SymVal)) and (isinstance(r2, bool) or isinstance(r2, SymVal)):
                ok, _ = ex.valid(b1 == b2, pc=o.pc)
                if not ok:
                    bad = f'x == y is {r1!r} while y == x is {r2!r}'
                    break
            else:
                bad = f'non-boolean results {r1!r}, {r2!r}'
                break
        v = pysym.Verdict(FAILED, bad) if bad else pysym.Verdict(PROVED, f'{len(outs)} path(s)', ex.solver_time)
    except (Unsupported, PathLimit) as e:
        v = pysym.Verdict(UNDECIDED, f'{type(e).__name__}: {e}')
    _emit(rep, oid, v, fn, 'ensures (x == y) == (y == x) and neither raises', replay=replay)


def replay_hash():
    from mindsdb_sql.planner.step_result import Result
    try:
        ok = hash(Result(1)) == hash(Result(1)) and len({Result(1), Result(1)}) == 1
        return {'input': 'hash(Result(1))', 'fires': not ok, 'observed': 'hash inconsistent' if not ok else 'ok'}
    except Exception as e:
        return {'input': 'hash(Result(1))', 'fires': True, 'observed': f'{type(e).__name__}: {e}', 'expected': 'an int'}


def replay_plan_eq():
    from mindsdb_sql.planner.query_plan import QueryPlan
    from mindsdb_sql.planner.steps import ProjectStep
    a = QueryPlan(steps=[ProjectStep(columns=[], dataframe=None)])
    b = QueryPlan(steps=[ProjectStep(columns=[], dataframe=None)])
    r = (a == b)
    return {'input': 'QueryPlan(steps=[ProjectStep([], None)]) == QueryPlan(steps=[ProjectStep([], None)])', 'fires': r is not True, 'observed': repr(r), 'expected': 'True'}


def replay_planstep():
    from mindsdb_sql.planner.steps import ProjectStep
    a = ProjectStep(columns=[], dataframe=None)
    b = ProjectStep(columns=[], dataframe=None)
    b.note = 1
    r1 = (a == b)
    try:
        r2 = (b == a)
    except Exception as e:
        r2 = f'{type(e).__name__}'
    return {'input': 'a = ProjectStep([], None); b = ProjectStep([], None); b.note = 1; (a == b, b == a)', 'fires': r1 != r2, 'observed': f'({r1!r}, {r2!r})', 'expected': 'both equal'}


def replay_tablecolumn():
    from mindsdb_sql.parser.ast.create import TableColumn
    a, b = TableColumn('c', nullable=True), TableColumn('c', nullable=False)
    return {'input': "TableColumn('c', nullable=True) == TableColumn('c', nullable=False)", 'fires': (a == b) is True, 'observed': repr(a == b), 'expected': 'False'}


# ------------------------------------------------------------------ bounded: mutate the copy
def _eq_zoo():
    from mindsdb_sql import parse_sql
    from mindsdb_sql.planner import plan_query
    from mindsdb_sql.planner.step_result import Result
    from mindsdb_sql.planner.query_plan import QueryPlan
    from mindsdb_sql.parser.ast import Identifier, Constant, Star, TableColumn, Parameter, NullConstant
    zoo = []
    for sql in ('select a from int1.t where b = 1', 'select * from int1.t1 as a join int2.t2 as b on a.id = b.id limit 2', 'select a from int1.t where b = 1'):
        plan = plan_query(parse_sql(sql), integrations=['int1', 'int2'], default_namespace='mindsdb')
        zoo.append(plan)
        zoo.extend(plan.steps)
        zoo.extend(s.result for s in plan.steps)
    zoo += [Result(0), Result(0), Result(1), Result(2), QueryPlan(), QueryPlan(steps=[])]
    zoo += [Identifier('a'), Identifier('a'), Identifier(parts=['t', 'a']), Constant(0), Constant(0), Constant('a'), Constant(1), Star(), Parameter('?'), NullConstant(),
            TableColumn(name='a', type='int'), TableColumn(name='a', type='int'), TableColumn(name='b')]
    zoo += [parse_sql('select 1'), parse_sql('select 1'), parse_sql('select a from t')]
    zoo += [0, 1, 2, 'a', '?', None, (0,), 0.0]
    return zoo


def bounded(rep, tier):
    from mindsdb_sql.parser.ast.base import ASTNode
    from mindsdb_sql.parser.ast import Identifier
    n = 0
    fails = {}
    seen_attrs = set()
    for dn in (['mindsdb'] if tier == 'quick' else list(lrtab.DIALECTS)):
        trees = corpus.parsed(dn)
        if tier == 'quick':
            trees = trees[::4]
        for src, sql, tree in trees:
            try:
                before = str(tree)
                cp = tree.copy()
            except Exception as e:
                continue
            n += 1
            if cp != tree or str(cp) != before:
                fails.setdefault('C18.bounded.copy-not-equal', (sql, f'copy prints `{str(cp)[:120]}`'))
            orig_ids = {id(x) for p, x in corpus.walk_nodes(tree)}
            orig_lists = set()
            for p, x in corpus.walk_nodes(tree):
                for k, v in vars(x).items():
                    if isinstance(v, (list, dict)):
                        orig_lists.add(id(v))
                if isinstance(x, Identifier):
                    seen_attrs.update(vars(x))
            for p, x in corpus.walk_nodes(cp):
                if id(x) in orig_ids:
                    fails.setdefault(f'C18.bounded.shared-node.{type(x).__name__}', (sql, f'{p} is shared between copy and original'))
                for k, v in vars(x).items():
                    if isinstance(v, (list, dict)) and id(v) in orig_lists:
                        fails.setdefault(f'C18.bounded.shared-list.{type(x).__name__}.{k}', (sql, f'{p}.{k} list is shared'))
            # single-attribute mutations of the copy
            for p, x in list(corpus.walk_nodes(cp))[:40]:
                for k, v in list(vars(x).items()):
                    n += 1
                    try:
                        if isinstance(v, list):
                            v.append(Identifier('zzz_mut'))
                        elif isinstance(v, bool):
                            setattr(x, k, not v)
                        elif isinstance(v, str):
                            setattr(x, k, v + '_mut')
                        elif v is None:
                            setattr(x, k, Identifier('zzz_mut'))
                        else:
                            continue
                        if str(tree) != before:
                            fails.setdefault(f'C18.bounded.mutation-leaks.{type(x).__name__}.{k}', (sql, f'mutating copy {p}.{k} changes the original to `{str(tree)[:100]}`'))
                    except Exception:
                        pass
    # equality across classes: for a zoo of real objects of every class with a hand-written __eq__ (steps, results, plans, columns, nodes) and some
    # plain values, `==` is symmetric for every ordered pair and equal hashable objects have equal hashes
    try:
        zoo = _eq_zoo()
        for i, x in enumerate(zoo):
            for y in zoo[i:]:
                n += 1
                try:
                    a, b = (x == y), (y == x)
                except Exception as e:
                    fails.setdefault(f'C18.bounded.eq-cross.raises.{type(x).__name__}.{type(y).__name__}', (f'{x!r} == {y!r}'[:160], f'{type(e).__name__}: {e}'[:120]))
                    continue
                if bool(a) != bool(b):
                    fails.setdefault(f'C18.bounded.eq-cross.asymmetric.{type(x).__name__}.{type(y).__name__}', (f'{x!r} == {y!r}'[:200], f'x == y is {a}, y == x is {b}'))
                elif a is True and x is not y:
                    try:
                        hx, hy = hash(x), hash(y)
                    except TypeError:
                        continue
                    if hx != hy:
                        fails.setdefault(f'C18.bounded.eq-cross.hash.{type(x).__name__}.{type(y).__name__}', (f'{x!r} == {y!r}'[:200], 'equal objects with different hashes'))
    except Exception as e:
        fails.setdefault('C18.bounded.eq-cross.zoo', ('(building the objects)', f'{type(e).__name__}: {e}'[:160]))
    rep.census['identifier.runtime_attrs'] = sorted(seen_attrs)
    for cid, (sql, obs) in sorted(fails.items()):
        rep.add_bounded(Bounded(cid, False, sql, obs, 'copy independent of the original', bound='corpus trees'))
    rep.bounded_evals = n
    rep.bounded_rule = ('every corpus tree: copy() equal and printing identically, no node/list object shared (identity walk), and every '
                        'single-attribute mutation of the first 40 nodes of the copy leaves str(original) unchanged; `==` symmetric and hash-consistent for '
                        'every pair of a zoo of real steps / results / plans / columns / nodes / plain values')


def _self_stores(k):
    """names stored as `self.<name> = ...` (or augmented / setattr(self, '<name>', ...)) anywhere in the class and its bases"""
    import ast as _ast, inspect as _inspect, textwrap as _tw
    names = set()
    for c in k.__mro__:
        if c is object:
            continue
        try:
            tree = _ast.parse(_tw.dedent(_inspect.getsource(c)))
        except Exception:
            return {'*ANY*'} | set(vars(k))          # source not available: be conservative, every name counts
        for n in _ast.walk(tree):
            if isinstance(n, _ast.Attribute) and isinstance(n.ctx, _ast.Store) and isinstance(n.value, _ast.Name) and n.value.id == 'self':
                names.add(n.attr)
            if isinstance(n, _ast.Call) and isinstance(n.func, _ast.Name) and n.func.id == 'setattr' and len(n.args) >= 2 and isinstance(n.args[1], _ast.Constant):
                names.add(n.args[1].value)
    return names


def class_level_obligations(rep):
    """copy() / deepcopy() copy the instance dictionary, never the class: a mutable container that a node class holds at class level is shared by a tree and
    all its copies.  Census over every class of the imported parser / planner packages that is a tree node, a table column, a plan step, a result or a plan."""
    import importlib, pkgutil, inspect
    import mindsdb_sql
    from mindsdb_sql.parser.ast.base import ASTNode
    from mindsdb_sql.parser.ast.create import TableColumn
    from mindsdb_sql.planner.steps import PlanStep
    from mindsdb_sql.planner.step_result import Result
    from mindsdb_sql.planner.query_plan import QueryPlan
    roots = (ASTNode, TableColumn, PlanStep, Result, QueryPlan)
    seen, bad = set(), []
    for mi in pkgutil.walk_packages(mindsdb_sql.__path__, 'mindsdb_sql.'):
        try:
            m = importlib.import_module(mi.name)
        except Exception:
            continue
        for _n, k in inspect.getmembers(m, inspect.isclass):
            if k in seen or not issubclass(k, roots) or not k.__module__.startswith('mindsdb_sql'):
                continue
            seen.add(k)
            for an, av in vars(k).items():
                if an.startswith('__'):
                    continue
                if isinstance(av, roots):
                    bad.append((k, an, av))             # a node / step held by the class: every instance and copy reaches the same object
                elif isinstance(av, (list, dict, set, bytearray)) and an in _self_stores(k):
                    # a mutable class-level value under a name that instances also store: the class value is the default an instance (and its copies) falls
                    # back to whenever the store is skipped.  (A class-level table that no instance attribute shadows is a constant of the class, not node data.)
                    bad.append((k, an, av))
    fn = 'mindsdb_sql.parser.ast.base:ASTNode.__init__'
    clause = 'no class whose instances are copied holds a mutable container or a node at class level (the copy would share it with the original)'
    if not seen:
        rep.undecided('C18.copy.class-level', 'frames', 'no node class found', function=fn)
    elif not bad:
        rep.proved('C18.copy.class-level', 'frames', f'{len(seen)} classes: no class-level list / dict / set / node', function=fn, clause=clause)
    else:
        k, an, av = bad[0]
        fires, obs = False, ''
        try:
            import copy as _c
            a = k.__new__(k)
            b = _c.deepcopy(a)
            fires = getattr(a, an) is getattr(b, an)
            obs = f'deepcopy of a {k.__name__} without its own `{an}` shares the class-level {type(av).__name__} with the original'
        except Exception as e:
            obs = f'{type(e).__name__}: {e}'
        rep.failed('C18.copy.class-level', 'frames', f'{k.__module__}.{k.__name__}.{an} is a class-level {type(av).__name__}' + (f' (+{len(bad) - 1} more)' if len(bad) > 1 else ''), function=f'{k.__module__}:{k.__name__}', clause=clause,
                   replay={'input': f'x = {k.__name__}.__new__({k.__name__}); y = copy.deepcopy(x); x.{an} is y.{an}', 'fires': fires, 'observed': obs, 'expected': 'independent objects'})


def check(rep, tier):
    from vlib import statecensus
    statecensus.obligations(rep, 'C18', 'all')
    class_level_obligations(rep)
    rep.dropped = 'method bodies read with ast.parse; decorators/docstrings dropped'
    rep.assume('copy.deepcopy without hooks = structure-equal fresh graph (CPython)', 'to_tree()/str() deterministic (uninterpreted functions of the object)',
               'attribute census is by attribute name over the whole repository source (no alias analysis)')
    rep.trust('pysym executor', 'frames census')
    hook_obligations(rep)
    eq_obligations(rep)
    bounded(rep, tier)
    rep.notes.append('Copy hooks and equality methods proved per class; see known findings for the residual defects.')
