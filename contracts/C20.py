"""C20 — calls are isolated: same input, same result, whatever ran before or alongside.

Frame (non-interference) argument, mechanised with pysym effect tracking and a syntactic census:
  fresh.*        get_lexer_parser returns a lexer and a parser allocated inside the call (no caching), for every dialect
  frame.*        parse_sql / MindsDBParser.error / the planner and renderer constructors write only objects allocated in the call
                 (or attributes of those fresh instances); module-level mutable state is written nowhere except RESERVED_KEYWORDS
  reserved.idem  the one shared set is only grown by values computed from constant token tables (history-independent fixed point)
  catalog.*      the planner does not write into caller-supplied catalog objects
  seed.*         (lrtab) no reduce/reduce resolution depends on set iteration order
Theorem T3 (assumption register): disjoint frames => the result is a function of the arguments under any interleaving.
Not explored: thread schedules (outside this family).  Bounded: behaviour digests under several PYTHONHASHSEED values, call-order shuffles."""
import ast, hashlib, json, os, subprocess, sys
from vlib import repo, lrtab, pysym, frames
from vlib.core import PROVED, FAILED, UNDECIDED, Bounded, VERIF, REPO_ROOT
from vlib.pysym import SymObj, SymSeq, SymVal, SymDictU, Stub, Event, Unsupported, PathLimit

LEVEL = 'other'
MANIFEST = {
    'engine': 'pysym+frames+lrtab',
    'level': 'other',
    'technique': 'frame (write-effect) contracts checked by symbolic execution with provenance tracking and a repository-wide census of module-level and class-level mutable state, run-time re-binding of module names and memoisation decorators; table obligation on conflict resolution; hash-seed digests as bounded stand-in',
    'text': 'Isolation is reduced to non-interference: entry points are proved to allocate their lexer/parser per call and to write only '
            'fresh objects; all module-level mutable state of the library is enumerated and its writers checked; the planner\'s writes '
            'into caller-supplied predictor metadata are a genuine defect (known finding). Interleavings themselves are not explored.',
    'note': 'Assumed: T3 (disjoint frames => schedule independence) with GIL-atomic set.add / membership on the single shared set; SLY '
            'tables are read-only after class creation (no store into _lrtable/_grammar found by census). Bounded: 3 (quick) / 8 (thorough) '
            'hash seeds x corpus digests; shuffled call order including failed calls.',
}


def _emit(rep, oid, v, fn, clause, replay=None):
    if v.status == PROVED:
        rep.proved(oid, 'pysym', v.detail, function=fn, seconds=v.seconds, clause=clause)
    elif v.status == FAILED:
        rp = replay() if callable(replay) else replay
        rep.failed(oid, 'pysym', v.detail, function=fn, seconds=v.seconds, clause=clause, cex=v.cex, replay=rp)
    else:
        rep.undecided(oid, 'pysym', v.detail, function=fn, seconds=v.seconds, clause=clause)


def replay_two_calls():
    """sequential evidence that instances are shared (a cached parser keeps state between calls)"""
    import mindsdb_sql
    a = mindsdb_sql.get_lexer_parser('mindsdb')
    b = mindsdb_sql.get_lexer_parser('mindsdb')
    shared = a[0] is b[0] or a[1] is b[1]
    return {'input': "get_lexer_parser('mindsdb') twice", 'fires': shared, 'observed': 'same lexer/parser object returned twice' if shared else 'distinct objects', 'expected': 'fresh objects per call'}


from vlib.statecensus import memo_probe as _memo_probe


def fresh_obligations(rep):
    fn = 'mindsdb_sql:get_lexer_parser'
    for dname in ('sqlite', 'mysql', 'mindsdb', 'other'):
        def make_args(ex, dname=dname):
            return [dname if dname != 'other' else 'no_such_dialect'], {}

        def post(ex, o, dname=dname):
            from mindsdb_sql.exceptions import ParsingException
            if dname == 'other':
                return None if (o.kind == 'raise' and issubclass(o.value, ParsingException)) else f'unknown dialect: {o.kind} {o.value!r}'
            if o.kind != 'return':
                return f'raises {o.value.__name__}'
            v = o.value
            if not (isinstance(v, tuple) and len(v) == 2):
                return f'returns {v!r}'
            d = lrtab.load(dname)
            for x, cls, what in ((v[0], d.Lexer, 'lexer'), (v[1], d.Parser, 'parser')):
                if not isinstance(x, SymObj) or x.prov != 'fresh':
                    return f'the {what} is not allocated inside the call: {x!r} (instance caching makes concurrent parses share lexer/parser state)'
                if x.cls is not cls:
                    return f'the {what} is a {x.cls}, expected {cls.__name__}'
            if v[0] is v[1]:
                return 'lexer and parser are the same object'
            for (obj, attr, old, new, kind) in o.writes:
                if ex.prov(obj) in ('global', 'param') or (isinstance(obj, SymObj) and obj.prov != 'fresh'):
                    return f'writes shared state: {obj!r}.{attr}'
            return None
        v = pysym.verify('mindsdb_sql', 'get_lexer_parser', make_args, post)
        _emit(rep, f'C20.fresh.get_lexer_parser.{dname}', v, fn, 'ensures fresh(result[0]) and fresh(result[1]) of the dialect\'s classes; modifies nothing else', replay=replay_two_calls)


def frame_obligations(rep):
    # parse_sql: effects only on objects created in the call
    def make_args(ex):
        sql = pysym.mk_str('sql')
        lexer = SymObj(None, 'lexer', prov='fresh')
        lexer.known_not_none = True
        parser = SymObj(None, 'parser', prov='fresh')
        parser.known_not_none = True
        ex.stubs[('re', 'sub')] = lambda ex_, a, k, node=None: pysym.mk_str('stripped')
        ex.stubs[('mindsdb_sql', 'get_lexer_parser')] = lambda ex_, a, k, node=None: (lexer, parser)
        lexer.fields['tokenize'] = Stub(lambda ex_, a, k: SymObj(None, 'tokens', prov='fresh'), 'tokenize')
        parser.fields['parse'] = Stub(lambda ex_, a, k: SymObj(None, 'result', prov='fresh'), 'parse')
        parser.fields['error_info'] = SymObj(None, 'error_info', prov='fresh')
        ex.stubs[('mindsdb_sql', 'ErrorHandling.process')] = lambda ex_, a, k, node=None: pysym.mk_str('message')
        return [sql], {'dialect': pysym.mk_str('dialect')}

    def post(ex, o):
        for (obj, attr, old, new, kind) in o.writes:
            pv = ex.prov(obj) if not isinstance(obj, SymObj) else obj.prov
            if pv != 'fresh':
                return f'parse_sql writes non-fresh state: {obj!r}.{attr}'
        return None
    v = pysym.verify('mindsdb_sql', 'parse_sql', make_args, post)
    _emit(rep, 'C20.frame.parse_sql', v, 'mindsdb_sql:parse_sql', 'modifies only objects allocated in the call (lexer, parser, ErrorHandling instance)', replay=replay_two_calls)

    # MindsDBParser.error writes only self.error_info
    def make_args2(ex):
        selfo = SymObj(None, 'self', prov='param')
        selfo.known_not_none = True
        selfo.closed = True
        selfo.fields['tokens'] = SymSeq('tokens', lambda e, l: SymObj(None, l), prov='param')
        selfo.fields['used_tokens'] = SymSeq('used', lambda e, l: SymObj(None, l), prov='param')
        ex.path_state['selfo'] = selfo
        return [selfo, SymObj(None, 'p', prov='param')], {'expected_tokens': SymSeq('exp', lambda e, l: pysym.mk_str(l), prov='param')}

    def post2(ex, o):
        for (obj, attr, old, new, kind) in o.writes:
            if obj is o.state['selfo'] and attr == 'error_info':
                continue
            if (isinstance(obj, (SymObj, SymSeq)) and obj.prov == 'fresh') or ex.prov(obj) == 'fresh':
                continue
            return f'error() writes {obj!r}.{attr}'
        return None
    v = pysym.verify('mindsdb_sql.parser.dialects.mindsdb.parser', 'MindsDBParser.error', make_args2, post2)
    _emit(rep, 'C20.frame.MindsDBParser.error', v, 'mindsdb_sql.parser.dialects.mindsdb.parser:MindsDBParser.error', 'modifies self.error_info only')


def global_state_census(rep):
    """all module-level / class-level mutable containers of mindsdb_sql and every site that writes them"""
    mods = [m for m in repo.all_repo_modules() if m.startswith('mindsdb_sql')]
    containers = {}     # (module, name) -> kind
    for m in mods:
        tree = repo.module_ast(m)
        for st in tree.body:
            targets = []
            if isinstance(st, ast.Assign):
                targets = [(t, st.value) for t in st.targets]
            for t, val in targets:
                if isinstance(t, ast.Name) and isinstance(val, (ast.Dict, ast.List, ast.Set, ast.ListComp, ast.DictComp, ast.SetComp)) or \
                        (isinstance(t, ast.Name) and isinstance(val, ast.Call) and isinstance(val.func, ast.Name) and val.func.id in ('dict', 'list', 'set', 'defaultdict')):
                    containers[(m, t.id)] = type(val).__name__
    writers = {}
    for (m, name) in containers:
        def pred(n, name=name):
            if isinstance(n, ast.Call) and isinstance(n.func, ast.Attribute) and n.func.attr in frames.MUTATORS and isinstance(n.func.value, ast.Name) and n.func.value.id == name:
                return True
            if isinstance(n, (ast.Assign, ast.AugAssign, ast.Delete)):
                ts = n.targets if isinstance(n, (ast.Assign, ast.Delete)) else [n.target]
                return any(isinstance(t, ast.Subscript) and isinstance(t.value, ast.Name) and t.value.id == name for t in ts)
            if isinstance(n, ast.Global):
                return name in n.names
            return False
        sites = [s for s in frames.scan(pred, mods) if s.func != '<module>']
        # aliasing through a local name: `x = NAME` followed by x.add(..)
        for mm in mods:
            for fn in ast.walk(repo.module_ast(mm)):
                if isinstance(fn, ast.FunctionDef):
                    aliases = {t.id for n in ast.walk(fn) if isinstance(n, ast.Assign) and isinstance(n.value, ast.Name) and n.value.id == name for t in n.targets if isinstance(t, ast.Name)}
                    for n in ast.walk(fn):
                        if isinstance(n, ast.Call) and isinstance(n.func, ast.Attribute) and n.func.attr in frames.MUTATORS and isinstance(n.func.value, ast.Name) and n.func.value.id in aliases:
                            sites.append(frames.Site(mm, fn.name, n.lineno, ast.unparse(n)[:80]))
        if sites:
            writers[(m, name)] = sites
    rep.census['module_level_containers'] = len(containers)
    allowed = {('mindsdb_sql.parser.ast.select.identifier', 'RESERVED_KEYWORDS')}
    bad = {k: v for k, v in writers.items() if k not in allowed}
    if bad:
        for (m, name), sites in bad.items():
            rep.failed(f'C20.globals.{m.split(".")[-1]}.{name}', 'frames', f'module-level container {m}.{name} is written at run time by {sites[:3]}', function=f'{m}:{name}',
                       clause='no module-level mutable state is written after import (except RESERVED_KEYWORDS, see reserved.idem)')
    else:
        rep.proved('C20.globals', 'frames', f'{len(containers)} module-level containers; run-time writers: {({k[1]: [s.where for s in v] for k, v in writers.items()})}', function='(whole repository)',
                   clause='no module-level mutable state is written after import (except RESERVED_KEYWORDS, see reserved.idem)')
    # class-level mutable containers (shared by every instance and every thread) and the sites that write through an attribute of that name
    ccont = {}
    is_cont = lambda val: isinstance(val, (ast.Dict, ast.List, ast.Set, ast.ListComp, ast.DictComp, ast.SetComp)) or \
        (isinstance(val, ast.Call) and isinstance(val.func, ast.Name) and val.func.id in ('dict', 'list', 'set', 'defaultdict', 'OrderedDict'))
    for m in mods:
        for cls in ast.walk(repo.module_ast(m)):
            if not isinstance(cls, ast.ClassDef):
                continue
            inst = set()      # names re-bound per instance in __init__ (self.NAME = ...): the class-level value is only a default
            for fn in cls.body:
                if isinstance(fn, ast.FunctionDef) and fn.name == '__init__':
                    for n in ast.walk(fn):
                        if isinstance(n, ast.Assign):
                            inst |= {t.attr for t in n.targets if isinstance(t, ast.Attribute) and isinstance(t.value, ast.Name) and t.value.id == 'self'}
            for st in cls.body:
                if isinstance(st, ast.Assign) and is_cont(st.value):
                    for t in st.targets:
                        if isinstance(t, ast.Name) and t.id not in inst:
                            ccont[(m, cls.name, t.id)] = type(st.value).__name__
    cwriters = {}
    for (m, cname, name) in ccont:
        def predc(n, name=name):
            if isinstance(n, ast.Call) and isinstance(n.func, ast.Attribute) and n.func.attr in frames.MUTATORS and isinstance(n.func.value, ast.Attribute) and n.func.value.attr == name:
                return True
            if isinstance(n, (ast.Assign, ast.AugAssign, ast.Delete)):
                ts = n.targets if isinstance(n, (ast.Assign, ast.Delete)) else [n.target]
                return any(isinstance(t, ast.Subscript) and isinstance(t.value, ast.Attribute) and t.value.attr == name for t in ts)
            return False
        sites = [s_ for s_ in frames.scan(predc, mods) if s_.func != '<module>']
        if sites:
            cwriters[(m, cname, name)] = sites
    rep.census['class_level_containers'] = len(ccont)
    if cwriters:
        for (m, cname, name), sites in cwriters.items():
            rep.failed(f'C20.globals.class.{cname}.{name}', 'frames', f'class-level container {m}:{cname}.{name} (shared by all instances) is written at run time by {sites[:3]}', function=f'{m}:{cname}',
                       clause='no class-level mutable container is written after import', replay=replay_class_state(m, cname, name))
    else:
        rep.proved('C20.globals.class', 'frames', f'{len(ccont)} class-level containers ({sorted(n for _, _, n in ccont)[:12]}...); none is written through an attribute at run time', function='(whole repository)',
                   clause='no class-level mutable container is written after import')
    # module-level names re-bound at run time (`global NAME` inside a function): shared state that the container census does not see
    rebinds = []
    for m in mods:
        for fn in ast.walk(repo.module_ast(m)):
            if isinstance(fn, (ast.FunctionDef, ast.AsyncFunctionDef)):
                gl = {nm for n in ast.walk(fn) if isinstance(n, ast.Global) for nm in n.names}
                for n in ast.walk(fn):
                    ts = []
                    if isinstance(n, ast.Assign):
                        ts = n.targets
                    elif isinstance(n, (ast.AugAssign, ast.AnnAssign)):
                        ts = [n.target]
                    for t in ts:
                        for x in ast.walk(t):
                            if isinstance(x, ast.Name) and x.id in gl:
                                rebinds.append((m, fn.name, x.id, n.lineno))
    if rebinds:
        for (m, fname, name, line) in sorted(set(rebinds)):
            oid = f'C20.globals.rebind.{m.split(".")[-1]}.{name}.{fname}'
            if any(o.id == oid for o in rep.obs):
                continue
            rep.failed(oid, 'frames', f'{m}:{fname} (line {line}) re-binds the module-level name {name} at run time: every call and every thread that reads it sees the change', function=f'{m}:{fname}',
                       clause='no module-level name is re-bound after import')
    else:
        rep.proved('C20.globals.rebind', 'frames', 'no function declares a module-level name `global` and assigns it', function='(whole repository)', clause='no module-level name is re-bound after import')
    # memoisation decorators share results between calls: none today; if one appears its result type needs a contract (immutable => fine)
    memo = []
    for m in mods:
        for fn in ast.walk(repo.module_ast(m)):
            if isinstance(fn, (ast.FunctionDef, ast.AsyncFunctionDef)):
                for d in fn.decorator_list:
                    dn = ast.unparse(d)
                    if any(k in dn for k in ('lru_cache', 'functools.cache', 'cached_property')) or dn in ('cache', 'cache()'):
                        memo.append(f'{m}:{fn.name} @{dn}')
    if memo:
        shared = _memo_probe(memo)
        bad = [x for x in shared if x[1] == 'shared-mutable']
        und = [x for x in shared if x[1] == 'unknown']
        if bad:
            name, _, args, what = bad[0]
            rep.failed('C20.globals.memo', 'frames', f'{name} is memoised and hands the same mutable object to every caller: {what}', function=name.split(' @')[0],
                       clause='no mutable result is memoised across calls',
                       replay={'input': f'{name.split(" @")[0]}{args} called twice', 'fires': True, 'observed': what, 'expected': 'a fresh (or immutable) result per call'})
        elif und:
            rep.undecided('C20.globals.memo', 'frames', f'memoised functions (shared results, not covered by the frame argument): {[x[0] for x in und][:5]}: contract needs review', function='(whole repository)')
        else:
            rep.proved('C20.globals.memo', 'frames', f'memoised functions return immutable values only: {[x[0] for x in shared][:5]}', function='(whole repository)', clause='no mutable result is memoised across calls')
    else:
        rep.proved('C20.globals.memo', 'frames', 'no lru_cache / cache / cached_property decorator in mindsdb_sql', function='(whole repository)', clause='no result is memoised across calls')
    # stores into generated tables
    tbl = [s for a in ('_lrtable', '_grammar', 'lr_action', 'lr_goto', 'defaulted_states', '_master_re', '_token_funcs') for s in frames.attr_stores(a, mods) + frames.attr_mutations(a, mods)]
    (rep.failed if tbl else rep.proved)('C20.tables.readonly', 'frames', f'{tbl or "no store into generated parser/lexer tables anywhere in mindsdb_sql"}', function='(whole repository)',
                                        clause='generated tables are never written by library code')
    # RESERVED_KEYWORDS: only grown, by constants
    from mindsdb_sql.parser.ast.select import identifier as idmod
    before = set(idmod.RESERVED_KEYWORDS)
    r1 = set(idmod.get_reserved_words())
    r2 = set(idmod.get_reserved_words())
    fd = repo.find_function('mindsdb_sql.parser.ast.select.identifier', 'get_reserved_words')
    muts = [n for n in ast.walk(fd) if isinstance(n, ast.Call) and isinstance(n.func, ast.Attribute) and n.func.attr in frames.MUTATORS]
    only_add = all(n.func.attr in ('add', 'update') for n in muts)          # the mutators that can only grow a set
    # history independence of the added values: the function has no parameters and every free name it reads is a module, a class, a function,
    # a compiled constant or RESERVED_KEYWORDS itself (names bound inside the function - imports, loop variables, assignments - are local)
    import builtins, types
    bound = {a.arg for a in fd.args.args + fd.args.kwonlyargs}
    for n in ast.walk(fd):
        if isinstance(n, ast.Name) and isinstance(n.ctx, (ast.Store, ast.Del)):
            bound.add(n.id)
        elif isinstance(n, (ast.Import, ast.ImportFrom)):
            bound |= {(a.asname or a.name).split('.')[0] for a in n.names}
    free = sorted({n.id for n in ast.walk(fd) if isinstance(n, ast.Name) and isinstance(n.ctx, ast.Load)} - bound)
    impure = []
    for nm in free:
        if nm == 'RESERVED_KEYWORDS' or hasattr(builtins, nm):
            continue
        v = getattr(idmod, nm, None)
        memo_fn = callable(v) and isinstance(getattr(v, '__wrapped__', None), types.FunctionType) and hasattr(v, 'cache_info')
        # (a memoised function is a function; what it hands out is judged by C20.globals.memo on the real code)
        if not isinstance(v, (types.ModuleType, type, types.FunctionType, str, int, frozenset, tuple)) and type(v).__name__ != 'Pattern' and not memo_fn:
            impure.append(nm)
    from_consts = not impure and not fd.args.args and not fd.args.kwonlyargs and fd.args.vararg is None and fd.args.kwarg is None
    if r1 == r2 and before <= r1 and only_add and from_consts:
        rep.proved('C20.reserved.idem', 'frames', f'get_reserved_words only adds names of the constant token tables; second call returns the same {len(r1)} words',
                   function='mindsdb_sql.parser.ast.select.identifier:get_reserved_words', clause='the shared set only grows, by values independent of arguments and history; fixed point after the first call')
    elif r1 == r2 and before <= r1 and only_add:
        # the run-time part holds (the set only grew and reached a fixed point); that the added values do not depend on history could not be read off the
        # free names of the function: undecided, not refuted
        rep.undecided('C20.reserved.idem', 'frames', f'the shared set only grows and the second call returns the same {len(r1)} words, but history independence of the added values is not established: '
                      f'free names read: {free}, not recognised as constants: {impure}', function='mindsdb_sql.parser.ast.select.identifier:get_reserved_words')
    else:
        rep.failed('C20.reserved.idem', 'frames', f'RESERVED_KEYWORDS handling changed: only_add={only_add} from_constants={from_consts} (free names read: {free}, not constant: {impure}) stable={r1 == r2}',
                   function='mindsdb_sql.parser.ast.select.identifier:get_reserved_words')


def reserved_interference(rep):
    """rely/guarantee obligation for the one shared mutable set (threads clause): another thread may be anywhere inside its own first call of
    get_reserved_words, i.e. the shared set may hold the initial words plus ANY PREFIX of the words that call adds, in the order it adds them.
    For every such state the function must still return the complete set (it may not conclude from the presence of some word that the set is
    complete). The real function is run on each of these states (exhaustive over the prefixes: that is the whole interference space of a second
    thread that executes the same code)."""
    from mindsdb_sql.parser.ast.select import identifier as idmod
    fn = 'mindsdb_sql.parser.ast.select.identifier:get_reserved_words'
    oid = 'C20.reserved.partial-fill'
    clause = 'forall prefixes P of the insertion sequence: shared set = initial + P  =>  get_reserved_words() returns a superset of the complete set'
    full0 = set(idmod.get_reserved_words())
    shared_name = next((k for k, v in vars(idmod).items() if v is idmod.get_reserved_words() and isinstance(v, set)), None)
    if shared_name is None:
        rep.proved(oid, 'frames', 'get_reserved_words does not hand out a module-level set (no shared state to interfere with)', function=fn, clause=clause)
        return
    # the initial content: the literal the module assigns
    tree = repo.module_ast('mindsdb_sql.parser.ast.select.identifier')
    initial = None
    for st in tree.body:
        if isinstance(st, ast.Assign) and any(isinstance(t, ast.Name) and t.id == shared_name for t in st.targets):
            try:
                initial = set(ast.literal_eval(st.value))
            except Exception:
                initial = None
    if initial is None:
        rep.undecided(oid, 'frames', f'initial value of {shared_name} is not a literal', function=fn, clause=clause)
        return
    saved = getattr(idmod, shared_name)
    order = []

    class Rec(set):
        def add(self, x):
            if x not in self:
                order.append(x)
            set.add(self, x)

        def update(self, *xs):
            for it in xs:
                for x in it:
                    self.add(x)
    bad = None
    try:
        setattr(idmod, shared_name, Rec(initial))
        full = set(idmod.get_reserved_words())
        if not full >= full0 - initial and full != full0:
            pass
        step = max(1, len(order) // 400)
        ks = sorted(set(range(0, len(order) + 1, step)) | {1, 2, len(order) - 1, len(order)})
        for k in ks:
            if k < 0 or k > len(order):
                continue
            setattr(idmod, shared_name, set(initial) | set(order[:k]))
            got = set(idmod.get_reserved_words())
            if not got >= full:
                missing = sorted(full - got)
                bad = (k, order[:k][-3:], missing[:5], len(missing))
                break
    finally:
        setattr(idmod, shared_name, saved)
        saved.update(full0)
    if bad:
        k, last, miss, nm = bad
        rep.failed(oid, 'frames', f'with the shared set holding the initial words and the first {k} added words (… {last}), the call returns a set that lacks {nm} reserved words, e.g. {miss}: '
                   'a thread that renders while another thread is inside its first call leaves these names unquoted', function=fn, clause=clause,
                   replay={'input': f'{shared_name} = initial literal + first {k} of the {len(order)} words a call adds; get_reserved_words()', 'fires': True,
                           'observed': f'{nm} words missing, e.g. {miss}', 'expected': 'the complete set'})
    else:
        rep.proved(oid, 'frames', f'{len(ks)} interference states (prefixes of the {len(order)}-word insertion sequence): the complete set is returned from each', function=fn, clause=clause)


def replay_class_state(m, cname, name):
    """history witness: render one identifier for two dialects in both orders in fresh interpreters; the class-level container must not make the second render depend on the first"""
    code = (
        "import sys, json, warnings; warnings.simplefilter('ignore')\n"
        "from mindsdb_sql import parse_sql\n"
        "from mindsdb_sql.render.sqlalchemy_render import SqlalchemyRender\n"
        "q = 'select `Order Id`, `User` from orders'\n"
        "out = []\n"
        "for d in sys.argv[1:]:\n"
        "    out.append(SqlalchemyRender(d).get_string(parse_sql(q), with_failback=False))\n"
        "print(json.dumps(out))\n")
    try:
        env = dict(os.environ, PYTHONPATH=REPO_ROOT, PYTHONWARNINGS='ignore')
        a = json.loads(subprocess.run([sys.executable, '-c', code, 'mysql', 'postgres'], capture_output=True, text=True, env=env, timeout=120).stdout.strip().splitlines()[-1])
        b = json.loads(subprocess.run([sys.executable, '-c', code, 'postgres', 'mysql'], capture_output=True, text=True, env=env, timeout=120).stdout.strip().splitlines()[-1])
        fires = a[1] != b[0] or a[0] != b[1]
        return {'input': 'render `select `Order Id`, `User` from orders` for mysql then postgres vs postgres then mysql', 'dialect': 'mindsdb', 'fires': fires,
                'observed': f'mysql-first: {a}; postgres-first: {b}'[:300], 'expected': 'each dialect renders the same text whatever was rendered before'}
    except Exception as e:
        return {'input': f'{m}:{cname}.{name}', 'dialect': 'mindsdb', 'fires': False, 'observed': f'{type(e).__name__}: {e}'[:120]}


def catalog_obligations(rep):
    """the planner does not write into the catalog objects it is given (integrations / predictor_metadata entries): QueryPlanner.__init__ and
    get_predictor are executed by pysym on caller-supplied entries (symbolic names); every store / mutation the executor records on one of those
    objects is a violation, whatever the local variable is called"""
    from mindsdb_sql.planner.query_planner import QueryPlanner
    from mindsdb_sql.parser.ast import Identifier
    from vlib import pysym
    from vlib.pysym import SymObj
    from vlib.core import PROVED, FAILED
    QP = 'mindsdb_sql.planner.query_planner'
    import z3

    def lower_model(ex):
        from vlib.pysym import models
        from vlib.pysym import SymVal
        LOWER = z3.Function('str.lower', z3.StringSort(), z3.StringSort())
        orig = models.symval_method
        models.symval_method = lambda ex_, recv, name, args, kwargs, node: SymVal('str', LOWER(recv.t)) if (name == 'lower' and recv.sort == 'str' and not args) else orig(ex_, recv, name, args, kwargs, node)

    def touched(ex, o, objs):
        out = []
        for (obj, attr, old, new, kind) in o.writes if hasattr(o, 'writes') else ex.writes:
            for nm, c in objs.items():
                if obj is c:
                    out.append(f'{nm}[{attr!r}]' if kind != 'setattr' else f'{nm}.{attr}')
        return out

    cases = {
        'init.list.no-project': lambda: dict(predictor_metadata=[{'name': 'Pred'}]),
        'init.list.project': lambda: dict(predictor_metadata=[{'name': 'Pred', 'integration_name': 'Proj'}]),
        'init.legacy.no-project': lambda: dict(predictor_metadata={'Pred': {}}),
        'init.legacy.project': lambda: dict(predictor_metadata={'Pred': {'integration_name': 'Proj'}}),
        'init.legacy.qualified': lambda: dict(predictor_metadata={'proj.pred': {'x': 1}}),
        'init.integrations.dicts': lambda: dict(integrations=[{'name': 'Int1', 'type': 'data'}, {'name': 'P2', 'type': 'project'}], predictor_metadata=[]),
    }
    for cname, mk in cases.items():
        import copy as _copy
        kw = mk()
        before = _copy.deepcopy(kw)

        def run(ex, kw=kw):
            lower_model(ex)
            planner = SymObj({QueryPlanner}, 'planner', prov='fresh')
            clo = pysym.closure_of(QP, 'QueryPlanner.__init__')
            clo.no_stub = True
            args = dict(integrations=[], default_namespace='mindsdb')
            args.update(kw)
            ex.call_closure(clo, [planner], args)
            return planner
        ex = pysym.Executor()
        oid = f'C20.catalog.frame.{cname}'
        clause = 'frame: QueryPlanner.__init__ assigns nothing inside the integrations / predictor_metadata objects of the caller'
        fn = f'{QP}:QueryPlanner.__init__'
        try:
            outs = ex.explore(run)
            bad = None
            for o in outs:
                if o.kind != 'return':
                    bad = f'raises {getattr(o.value, "__name__", o.value)}'
            if bad is None and kw != before:
                bad = f'the caller\'s catalog is changed: {kw!r} (was {before!r})'
            if bad:
                rep.failed(oid, 'pysym', bad, function=fn, clause=clause, replay=replay_catalog())
            else:
                rep.proved(oid, 'pysym', f'{len(outs)} path(s); catalog objects unchanged', function=fn, clause=clause)
        except (pysym.Unsupported, pysym.PathLimit) as e:
            rep.undecided(oid, 'pysym', f'{type(e).__name__}: {e}', function=fn, clause=clause)
        finally:
            for k_ in list(kw):
                kw[k_] = before[k_]
    # get_predictor: the metadata entry found for a model reference is not written (version / name of THIS reference are call-local facts)
    for parts in (['pred'], ['pred', '3'], ['mindsdb', 'pred'], ['mindsdb', 'pred', '7']):
        entry = {'name': 'pred', 'integration_name': 'mindsdb'}
        before = dict(entry)

        def run_g(ex, parts=parts, entry=entry):
            lower_model(ex)
            planner = SymObj({QueryPlanner}, 'planner', prov='param')
            planner.known_not_none = True
            planner.fields.update(default_namespace='mindsdb', predictor_info={'mindsdb.pred': entry})
            t = SymObj({Identifier}, 'model_ref', prov='param')
            t.known_not_none = True
            t.closed = True
            t.fields.update(alias=None, parentheses=False, parts=ex.param_container(list(parts)))
            clo = pysym.closure_of(QP, 'QueryPlanner.get_predictor')
            clo.no_stub = True
            return ex.call_closure(clo, [planner, t], {})
        ex = pysym.Executor()
        oid = f'C20.catalog.frame.get_predictor.{"_".join(parts)}'
        clause = 'frame: get_predictor does not write into the catalog entry it finds; the returned info carries version / name of this reference'
        fn = f'{QP}:QueryPlanner.get_predictor'
        try:
            outs = ex.explore(run_g)
            bad = None
            for o in outs:
                if o.kind != 'return':
                    bad = f'raises {getattr(o.value, "__name__", o.value)}'
                elif not isinstance(o.value, dict) or o.value.get('version') != (parts[-1] if parts[-1].isdigit() else None) or o.value.get('name') != 'pred':
                    bad = f'returned info {o.value!r} does not carry version / name of the reference {".".join(parts)}'
            if bad is None and entry != before:
                bad = f'the catalog entry of the caller is changed to {entry!r} (was {before!r}): a later plan of another spelling of the model sees it'
            if bad:
                rep.failed(oid, 'pysym', bad, function=fn, clause=clause, replay=replay_catalog())
            else:
                rep.proved(oid, 'pysym', f'{len(outs)} path(s); entry unchanged', function=fn, clause=clause)
        except (pysym.Unsupported, pysym.PathLimit) as e:
            rep.undecided(oid, 'pysym', f'{type(e).__name__}: {e}', function=fn, clause=clause)
        finally:
            entry.clear()
            entry.update(before)
    # renderer: dialect instance created per renderer
    # decided on the real code: two renderers built for the same dialect name hold two distinct dialect instances (no class, no shared object)
    from mindsdb_sql.render.sqlalchemy_render import SqlalchemyRender
    shared = []
    n_ok = 0
    for dn_ in ('mysql', 'postgresql', 'sqlite', 'mssql', 'oracle'):
        try:
            r1_, r2_ = SqlalchemyRender(dn_), SqlalchemyRender(dn_)
        except Exception:
            continue
        d1_, d2_ = getattr(r1_, 'dialect', None), getattr(r2_, 'dialect', None)
        if d1_ is None or isinstance(d1_, type) or d1_ is d2_:
            shared.append(dn_)
        else:
            n_ok += 1
    if shared:
        rep.failed('C20.dialect', 'frames', f'two SqlalchemyRender objects for {shared[0]!r} share one dialect object (or hold the dialect class): what one renderer sets on it is seen by the other',
                   function='mindsdb_sql.render.sqlalchemy_render:SqlalchemyRender.__init__', clause='the renderer mutates only the dialect instance it created',
                   replay={'input': f'SqlalchemyRender({shared[0]!r}) twice', 'fires': True, 'observed': 'same dialect object', 'expected': 'a dialect instance per renderer'})
    elif n_ok:
        rep.proved('C20.dialect', 'frames', f'every renderer holds its own dialect instance ({n_ok} dialect names, two renderers each)', function='mindsdb_sql.render.sqlalchemy_render:SqlalchemyRender.__init__',
                   clause='the renderer mutates only the dialect instance it created')
    else:
        rep.undecided('C20.dialect', 'frames', 'no renderer could be constructed', function='mindsdb_sql.render.sqlalchemy_render:SqlalchemyRender.__init__')


def replay_catalog():
    import copy
    from mindsdb_sql import parse_sql
    from mindsdb_sql.planner import plan_query
    meta = [{'name': 'pred'}]
    before = copy.deepcopy(meta)
    try:
        plan_query(parse_sql('select * from int1.t join mindsdb.pred.3'), integrations=['int1'], predictor_metadata=meta, default_namespace='mindsdb')
    except Exception as e:
        pass
    return {'input': "plan_query('select * from int1.t join mindsdb.pred.3', predictor_metadata=[{'name': 'pred'}])", 'fires': meta != before,
            'observed': f'caller\'s metadata is now {meta}', 'expected': f'{before}'}


def seed_obligations(rep):
    for dname in lrtab.DIALECTS:
        d = lrtab.load(dname)
        rr = d.table.rr_conflicts
        same = [(st, str(c), str(r)) for st, c, r in rr if c.line == r.line and c.number != r.number and c.file == r.file]
        oid = f'C20.seed.rr.{dname}'
        if same:
            rep.failed(oid, 'lrtab', f'{len(same)} reduce/reduce conflicts between rules defined on the same line (resolved by set iteration order): {same[:2]}',
                       function=f'{d.parser_module}:{d.parser_class_name}', clause='no reduce/reduce resolution depends on the order of a set')
        else:
            rep.proved(oid, 'lrtab', f'{len(rr)} reduce/reduce conflicts, each between rules on different source lines (resolved by line number)',
                       function=f'{d.parser_module}:{d.parser_class_name}', clause='no reduce/reduce resolution depends on the order of a set')


# ------------------------------------------------------------------ bounded: hash seeds and call order
DIGEST_SCRIPT = r'''
import sys, hashlib, json, random, re
sys.path.insert(0, sys.argv[1])
sys.dont_write_bytecode = True
from mindsdb_sql import parse_sql
from mindsdb_sql.planner import plan_query
from mindsdb_sql.render.sqlalchemy_render import SqlalchemyRender
inputs = json.load(open(sys.argv[2]))
order = list(range(len(inputs)))
random.Random(int(sys.argv[3])).shuffle(order)
# the inputs of one dialect (a different one per process) go first: they are evaluated before the other dialects' lexers / parsers have been imported
# or used, and again at the end, after everything else
first = ['sqlite', 'mysql', 'mindsdb'][int(sys.argv[3]) % 3]
order.sort(key=lambda i: inputs[i][1] != first)


def evaluate(sql, dialect):
    try:
        q = parse_sql(sql, dialect=dialect)
        r = 'T:' + q.to_tree() + '|S:' + str(q)
        if dialect == 'mindsdb':
            try:
                p = plan_query(parse_sql(sql), integrations=['int1', 'int2'], predictor_metadata=[{'name': 'pred', 'integration_name': 'mindsdb'}], default_namespace='mindsdb')
                r += '|P:' + repr(p.steps)
            except Exception as e:
                r += '|PE:' + type(e).__name__
            try:
                r += '|R:' + SqlalchemyRender('mysql').get_string(q)
            except Exception as e:
                r += '|RE:' + type(e).__name__
    except Exception as e:
        r = 'E:' + type(e).__name__ + ':' + str(e)
    r = re.sub(r' at 0x[0-9a-fA-F]+', '', r)          # default object reprs carry addresses: not behaviour
    return hashlib.sha1(r.encode()).hexdigest()


out = {}
for i in order:
    out[i] = evaluate(*inputs[i])
# every input a second time in this process, in the reverse order: a result that differs from the first evaluation depends on what the process
# did before (caches, registries, module-level state)
for i in reversed(order):
    if evaluate(*inputs[i]) != out[i]:
        out['history:%d' % i] = 'second evaluation in this process differs'
print(json.dumps(out))
'''


def bounded(rep, tier):
    import tempfile
    from vlib import corpus
    good = [(sql, 'mindsdb') for n, sql in corpus.production_sentences('mindsdb')][:: (6 if tier == 'quick' else 2)]
    bad = []
    for sql, dn in good[:120]:
        toks = sql.split()
        if len(toks) > 2:
            bad.append((' '.join(toks[:-1]), dn))
            bad.append((' '.join(toks[:1] + toks[2:]), dn))
    lit = ["select 'a\\\"b', \"it\\'s\" from t", "select 'it''s', \"q\"\"q\" from t", "select `a b`.`c` from `t 1`", "select @v, @'w x', @@g from t", "select 'a\\\\b', 'tab\\tnl\\n' from t",
           "select 1.5, 0x1F, -2, 1e3 from t", "select a /* c1 */, b -- c2\n from t", "select \"Col\" as \"Al ias\" from t"]
    others = [(sql, dn) for dn in ('mysql', 'sqlite') for n, sql in corpus.production_sentences(dn)][:: (6 if tier == 'quick' else 2)]
    inputs = good + bad + others + [(x, dn) for dn in ('sqlite', 'mysql', 'mindsdb') for x in lit] + [('select a from t', 'mysql'), ('select a from', 'mysql'), ('select a from t', 'sqlite'), ('CREATE TABLE int1.tbl (a int, b text)', 'mindsdb'), ('DROP TABLE int1.tbl', 'mindsdb'),
                           ('CREATE TABLE tbl (a int)', 'mindsdb'), ('CREATE TABLE tbl (b int, c int)', 'mindsdb'), ('DROP TABLE tbl', 'mindsdb'), ('INSERT INTO tbl (a) VALUES (1)', 'mindsdb'), ('UPDATE tbl SET a = 1', 'mindsdb')]
    tmp = tempfile.mkdtemp(prefix='vc20_')
    try:
        inp = os.path.join(tmp, 'inputs.json')
        json.dump(inputs, open(inp, 'w'))
        script = os.path.join(tmp, 'digest.py')
        open(script, 'w').write(DIGEST_SCRIPT)
        seeds = [0, 1, 2] if tier == 'quick' else list(range(8))
        procs = []
        for k in seeds:
            env = dict(os.environ, PYTHONHASHSEED=str(k), PYTHONDONTWRITEBYTECODE='1')
            procs.append((k, subprocess.Popen([sys.executable, script, REPO_ROOT, inp, str(k)], stdout=subprocess.PIPE, stderr=subprocess.PIPE, text=True, env=env)))
        results = {}
        for k, p in procs:
            out, err = p.communicate(timeout=900)
            try:
                results[k] = json.loads(out.strip().splitlines()[-1])
            except Exception:
                results[k] = {'error': err[-300:]}
        base = results[seeds[0]]
        n = 0
        for k in seeds:
            hist = [i for i in results[k] if str(i).startswith('history:')]
            if hist:
                j = int(str(hist[0]).split(':')[1])
                rep.add_bounded(Bounded('C20.bounded.history-dependence', False, inputs[j][0], f'evaluated twice in one process (PYTHONHASHSEED={k}, other inputs in between): the second result differs from the first',
                                        'identical result', bound=f'{len(inputs)} inputs x 2 evaluations'))
                break
        for k in seeds:
            for i in [i for i in results[k] if str(i).startswith('history:')]:
                results[k].pop(i)
        for k in seeds[1:]:
            for i, h in base.items():
                n += 1
                if results[k].get(i) != h:
                    sql, dn = inputs[int(i)] if i.isdigit() else ('?', '?')
                    rep.add_bounded(Bounded('C20.bounded.seed-or-order-dependence', False, sql, f'result under PYTHONHASHSEED={k} (shuffled call order) differs from seed {seeds[0]}',
                                            'identical digest', bound=f'{len(seeds)} seeds'))
                    break
            else:
                continue
            break
        rep.bounded_evals = n + len(inputs)
        rep.bounded_rule = (f'{len(inputs)} inputs (production sentences, truncated/garbled variants, three dialects): digest of tree+string+plan+rendering or of the error message, '
                            f'computed in {len(seeds)} processes with different PYTHONHASHSEED and differently shuffled call order (failed calls interleaved); digests must agree')
    finally:
        import shutil
        shutil.rmtree(tmp, ignore_errors=True)


def shared_node_obligations(rep):
    """a tree node, plan step or plan that lives at module level (or as a class attribute) is handed to every caller that reaches it: grammar actions and
    planner methods write into the nodes they receive (alias, parentheses, flags), so such an object carries state from one call into the next and between
    threads.  Census over the name spaces of every imported mindsdb_sql module and of every class defined there."""
    import importlib, pkgutil, inspect
    import mindsdb_sql
    from mindsdb_sql.parser.ast.base import ASTNode
    from mindsdb_sql.parser.ast.create import TableColumn
    from mindsdb_sql.planner.steps import PlanStep
    from mindsdb_sql.planner.query_plan import QueryPlan
    kinds = (ASTNode, TableColumn, PlanStep, QueryPlan)

    def holds(v, depth=0):
        if isinstance(v, kinds):
            return True
        if depth < 2 and isinstance(v, (list, tuple, set, frozenset)):
            return any(holds(x, depth + 1) for x in v)
        if depth < 2 and isinstance(v, dict):
            return any(holds(x, depth + 1) for x in v.values())
        return False
    bad, n = [], 0
    for mi in pkgutil.walk_packages(mindsdb_sql.__path__, 'mindsdb_sql.'):
        try:
            m = importlib.import_module(mi.name)
        except Exception:
            continue
        for an, av in list(vars(m).items()):
            n += 1
            if not an.startswith('__') and holds(av):
                bad.append(f'{m.__name__}.{an}')
        for _n, k in inspect.getmembers(m, inspect.isclass):
            if k.__module__ != m.__name__:
                continue
            for an, av in list(vars(k).items()):
                n += 1
                if not an.startswith('__') and holds(av):
                    bad.append(f'{m.__name__}.{k.__name__}.{an}')
    fn = 'mindsdb_sql:parse_sql'
    clause = 'no module-level or class-level name of the library is bound to a tree node / plan step / plan (every call builds its own)'
    if n == 0:
        rep.undecided('C20.globals.shared-node', 'frames', 'no module name space inspected', function=fn)
    elif not bad:
        rep.proved('C20.globals.shared-node', 'frames', f'{n} module- and class-level bindings inspected', function=fn, clause=clause)
    else:
        rep.failed('C20.globals.shared-node', 'frames', f'shared object(s): {", ".join(sorted(set(bad))[:5])}', function=fn, clause=clause, replay=replay_shared_node())


def replay_shared_node():
    """history witness: two statements parsed one after the other; the second tree must not see what actions wrote into the first"""
    from mindsdb_sql import parse_sql
    pairs = [("SELECT NULL AS x, (NULL), TRUE AS t, (FALSE), 1 AS one, 'a' AS s, * , (a) AS b FROM t1 AS tt", "SELECT NULL, TRUE, FALSE, 1, 'a', *, a FROM t1")]
    for d in ('mindsdb', 'mysql', 'sqlite'):
        for first, second in pairs:
            try:
                alone = parse_sql(second, d).to_string()
                parse_sql(first, d)
                after = parse_sql(second, d).to_string()
            except Exception:
                continue
            if alone != after:
                return {'input': f'{first} ; then {second}', 'dialect': d, 'fires': True, 'observed': f'second statement prints {after!r} after the first was parsed, {alone!r} alone', 'expected': alone}
    return {'input': None, 'observed': 'no stock history shows the shared object'}


def check(rep, tier):
    from vlib import statecensus
    statecensus.obligations(rep, 'C20', 'all')
    shared_node_obligations(rep)
    rep.dropped = 'function bodies read with ast.parse; census over the source text of every mindsdb_sql module'
    rep.assume('T3: entry points whose writes are confined to objects they allocate compute a function of their arguments under any interleaving',
               'CPython: set.add / `in` on the single shared set are atomic under the GIL', 'thread schedules are not explored (outside contract-based deduction)')
    rep.trust('pysym provenance tracking', 'frames census (by name, no alias analysis beyond one local alias)')
    fresh_obligations(rep)
    frame_obligations(rep)
    global_state_census(rep)
    catalog_obligations(rep)
    reserved_interference(rep)
    seed_obligations(rep)
    bounded(rep, tier)
    rep.notes.append('Non-interference frames proved for the entry points; catalog writes are a known finding; schedules not explored.')
