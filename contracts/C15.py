"""C15 — a time-series model receives exactly its context window plus the selected rows.

Helpers (pysym, structural induction: the recursive calls are replaced by the contract on the sub-trees):
  find / replace / remove / validate on AND-trees of comparisons.
Main function (fallback route of DESIGN §4 C15, labelled bounded-in-shape): for every case of the finite grid
  {>, >=, =, <, <=, BETWEEN, > LATEST, = LATEST, none} x partition filters {0, 1, 2} x group-by columns {0, 1, 2} x model side
the REAL planner is run and every emitted fetch is handed to a z3 row evaluator: its WHERE tree is turned into a predicate over a
SYMBOLIC row (t: Int or NULL, group columns, symbolic bounds) and proved equivalent to the specification predicate; ORDER BY /
LIMIT / output filter / LimitOffsetStep / rejections are compared structurally.  All rows, bounds and window sizes are covered;
the shapes of the WHERE tree are those of the grid."""
import itertools, copy
import z3
from vlib import repo, pysym, plans
from vlib.core import PROVED, FAILED, UNDECIDED, Bounded
from vlib.pysym import SymObj, SymSeq, SymVal, Stub, Event, Unsupported, PathLimit

LEVEL = 'other'
MANIFEST = {
    'engine': 'pysym+smt',
    'level': 'other',
    'technique': 'tree helpers by structural induction (symbolic execution with the recursive call under contract); emitted fetch predicates proved equivalent to the specification over a symbolic row with z3, per case of a finite shape grid',
    'text': 'The helper functions are proved for all AND-trees. For the main planner function each emitted fetch of every grid case is proved '
            '(z3, all rows / bounds / window sizes) to select exactly the specified rows, with ORDER BY t DESC LIMIT window on the context '
            'fetch; rejections raise PlanningException. The query shapes are a finite grid, hence level other (bounded in shape).',
    'note': 'Assumed: SQL three-valued logic of comparisons with NULL as encoded by the evaluator; MapReduceStep substitutes $var[col] per '
            'partition value (step docstring). plan_timeseries_predictor itself is executed concretely on the grid (not symbolically).',
}

TS = 'mindsdb_sql.planner.ts_utils'


def _emit(rep, oid, v, fn, clause, replay=None):
    if v.status == PROVED:
        rep.proved(oid, 'pysym', v.detail, function=fn, seconds=v.seconds, clause=clause)
    elif v.status == FAILED:
        rep.failed(oid, 'pysym', v.detail, function=fn, seconds=v.seconds, clause=clause, cex=v.cex, replay=replay() if callable(replay) else replay)
    else:
        rep.undecided(oid, 'pysym', v.detail, function=fn, seconds=v.seconds, clause=clause)


# ------------------------------------------------------------------ helpers by structural induction
def helper_obligations(rep):
    from mindsdb_sql.parser.ast import BinaryOperation, BetweenOperation, Identifier, Constant
    from mindsdb_sql.exceptions import PlanningException

    def leaf(ex, label, matches):
        """comparison leaf `col <op> const`; matches: whether its identifier names the time column"""
        n = SymObj({BinaryOperation}, label, prov='param')
        col = SymObj({Identifier}, label + '.col', prov='param')
        last = 'T' if matches else 'other'
        col.fields.update(parts=ex.param_container(['tbl', last]), alias=None, parentheses=False)
        const = SymObj({Constant}, label + '.const', prov='param')
        const.fields.update(value=1, alias=None, parentheses=False)
        n.fields.update(op='>', args=ex.param_container([col, const]), alias=None, parentheses=False)
        return n

    # find_time_filter on an and-node: IH gives the results for both children
    for lres, rres in itertools.product(('none', 'leaf'), repeat=2):
        def make_args(ex, lres=lres, rres=rres):
            l, r = SymObj(None, 'left', prov='param'), SymObj(None, 'right', prov='param')
            for x in (l, r):
                x.known_not_none = True
                x.truth_known = True
            node = SymObj({BinaryOperation}, 'node', prov='param')
            node.fields.update(op='and', args=ex.param_container([l, r]), alias=None, parentheses=False)
            found_l, found_r = leaf(ex, 'found_left', True), leaf(ex, 'found_right', True)

            def rec(ex_, a, k, node_=None):
                ex_.log.append(Event('rec', arg=a[0], name=a[1] if len(a) > 1 else k.get('time_column_name')))
                if a[0] is l:
                    return found_l if lres == 'leaf' else None
                if a[0] is r:
                    return found_r if rres == 'leaf' else None
                raise Unsupported('recursive call on something that is not a child')
            ex.stubs[(TS, 'find_time_filter')] = rec
            ex.path_state.update(found_l=found_l, found_r=found_r, l=l, r=r)
            return [node, 't'], {}

        def post(ex, o, lres=lres, rres=rres):
            recs = [e for e in o.log if e.kind == 'rec']
            if [e.arg for e in recs] != [o.state['l'], o.state['r']] or any(e.name != 't' for e in recs):
                return 'children are not searched exactly once each with the same column name'
            if lres == 'leaf' and rres == 'leaf':
                return None if (o.kind == 'raise' and issubclass(o.value, PlanningException)) else 'two time filters do not raise PlanningException'
            if o.kind != 'return':
                return f'raises {o.value.__name__}'
            want = o.state['found_l'] if lres == 'leaf' else (o.state['found_r'] if rres == 'leaf' else None)
            return None if o.value is want else f'returns {o.value!r}, expected {want!r}'
        v = pysym.verify(TS, 'find_time_filter', make_args, post)
        _emit(rep, f'C15.find.and.{lres}-{rres}', v, f'{TS}:find_time_filter', 'and-node: result = the unique time filter of the children; two => PlanningException')
    for matches, pos in itertools.product((True, False), (0, 1)):
        def make_args(ex, matches=matches, pos=pos):
            n = leaf(ex, 'leaf', matches)
            if pos == 1:
                n.fields['args'].reverse()
            ex.path_state['n'] = n
            return [n, 'T' if True else 't'], {}

        def post(ex, o, matches=matches):
            if o.kind != 'return':
                return f'raises {o.value.__name__}'
            want = o.state['n'] if matches else None
            return None if o.value is want else f'leaf: returns {o.value!r}'
        ex = pysym.Executor()
        v = pysym.verify(TS, 'find_time_filter', make_args, post, ex=ex)
        _emit(rep, f'C15.find.leaf.{"match" if matches else "nomatch"}.arg{pos}', v, f'{TS}:find_time_filter', 'leaf: returned iff one side is an Identifier whose last part equals the time column case-insensitively')

    # validate: operation outside the allowed set / column outside the allowed set raise PlanningException
    for case in ('bad-op', 'bad-column', 'ok'):
        def make_args(ex, case=case):
            n = leaf(ex, 'leaf', True)
            if case == 'bad-op':
                n.fields['op'] = 'like'
            if case == 'bad-column':
                n.fields['args'][0].fields['parts'] = ex.param_container(['tbl', 'zzz'])
            ex.path_state['n'] = n
            ex.stubs[('mindsdb_sql.parser.ast.base', 'ASTNode.__str__')] = lambda ex_, a, k, node_=None: 'node'
            return [n], {'allowed_columns': ['t', 'g']}

        def post(ex, o, case=case):
            if case == 'ok':
                if o.kind != 'return':
                    return f'valid condition raises {o.value.__name__}'
                col = o.state['n'].fields['args'][0]
                return None if col.fields['parts'] == ['T'] else f'table alias not removed: {col.fields["parts"]}'
            return None if (o.kind == 'raise' and issubclass(o.value, PlanningException)) else f'{case}: {o.kind} {o.value!r} instead of PlanningException'
        v = pysym.verify(TS, 'validate_ts_where_condition', make_args, post)
        _emit(rep, f'C15.validate.{case}', v, f'{TS}:validate_ts_where_condition', 'operations / columns outside the allowed sets raise PlanningException; identifiers lose their table alias')

    # remove on an and-node
    for which in ('left', 'right', 'neither'):
        def make_args(ex, which=which):
            l, r = leaf(ex, 'left', which == 'left'), leaf(ex, 'right', which == 'right')
            tf = l if which == 'left' else (r if which == 'right' else leaf(ex, 'elsewhere', True))
            node = SymObj({BinaryOperation}, 'node', prov='param')
            node.fields.update(op='and', args=ex.param_container([l, r]), alias=None, parentheses=False)

            def rec(ex_, a, k, node_=None):
                return None if a[0] is tf else a[0]
            ex.stubs[(TS, 'find_and_remove_time_filter')] = rec
            ex.stubs[('mindsdb_sql.parser.ast.base', 'ASTNode.__eq__')] = lambda ex_, a, k, node_=None: a[0] is a[1]
            ex.path_state.update(l=l, r=r, node=node)
            return [node, tf], {}

        def post(ex, o, which=which):
            if o.kind != 'return':
                return f'raises {o.value.__name__}'
            st = o.state
            want = st['r'] if which == 'left' else (st['l'] if which == 'right' else st['node'])
            if o.value is not want:
                return f'returns {o.value!r}, expected {want!r}'
            if which == 'neither' and list(st['node'].fields['args']) != [st['l'], st['r']]:
                return 'children changed although nothing was removed'
            return None
        v = pysym.verify(TS, 'find_and_remove_time_filter', make_args, post)
        _emit(rep, f'C15.remove.and.{which}', v, f'{TS}:find_and_remove_time_filter', 'and-node: the conjunct equal to the time filter is dropped, the other returned; otherwise the node is kept')

    # replace on an and-node
    def make_args_r(ex):
        l, r = leaf(ex, 'left', True), leaf(ex, 'right', False)
        node = SymObj({BinaryOperation}, 'node', prov='param')
        node.fields.update(op='and', args=ex.param_container([l, r]), alias=None, parentheses=False)
        new = leaf(ex, 'new', True)
        ex.stubs[(TS, 'replace_time_filter')] = lambda ex_, a, k, node_=None: (a[2] if a[0] is a[1] else a[0])
        ex.stubs[('mindsdb_sql.parser.ast.base', 'ASTNode.__eq__')] = lambda ex_, a, k, node_=None: a[0] is a[1]
        ex.path_state.update(l=l, r=r, node=node, new=new)
        return [node, l, new], {}

    def post_r(ex, o):
        if o.kind != 'return':
            return f'raises {o.value.__name__}'
        st = o.state
        if o.value is not st['node'] or list(st['node'].fields['args']) != [st['new'], st['r']]:
            return f'and-node after replacement: {st["node"].fields["args"]!r}'
        return None
    v = pysym.verify(TS, 'replace_time_filter', make_args_r, post_r)
    _emit(rep, 'C15.replace.and', v, f'{TS}:replace_time_filter', 'and-node: exactly the child equal to the time filter is replaced')


# ------------------------------------------------------------------ row evaluator
class Row:
    def __init__(self, groups):
        self.t = z3.Int('row_t')
        self.t_null = z3.Bool('row_t_null')
        self.g = {g: z3.Int(f'row_{g}') for g in groups}
        self.var = {g: z3.Int(f'var_{g}') for g in groups}
        self.d = {1000: z3.Int('d1'), 2000: z3.Int('d2'), 7: z3.Int('p1'), 8: z3.Int('p2')}


def pred_of(node, row, time_col):
    """z3 Bool: the WHERE tree is TRUE for the row (SQL three-valued logic, comparisons with NULL are not true)"""
    from mindsdb_sql.parser import ast
    if node is None:
        return z3.BoolVal(True)
    if isinstance(node, ast.BetweenOperation):
        col, lo, hi = node.args
        v, vnull = val_of(col, row, time_col)
        a, _ = val_of(lo, row, time_col)
        b, _ = val_of(hi, row, time_col)
        return z3.And(z3.Not(vnull), v >= a, v <= b)
    if isinstance(node, ast.BinaryOperation):
        op = node.op
        if op == 'and':
            return z3.And(pred_of(node.args[0], row, time_col), pred_of(node.args[1], row, time_col))
        if op in ('is not', 'is') and isinstance(node.args[1], ast.NullConstant):
            v, vnull = val_of(node.args[0], row, time_col)
            return z3.Not(vnull) if op == 'is not' else vnull
        a, an = val_of(node.args[0], row, time_col)
        b, bn = val_of(node.args[1], row, time_col)
        cmp_ = {'>': a > b, '>=': a >= b, '<': a < b, '<=': a <= b, '=': a == b}.get(op)
        if cmp_ is None:
            raise Unsupported(f'operator {op} in emitted fetch')
        return z3.And(z3.Not(an), z3.Not(bn), cmp_)
    raise Unsupported(f'node {type(node).__name__} in emitted fetch')


def val_of(node, row, time_col):
    from mindsdb_sql.parser import ast
    if isinstance(node, ast.Identifier):
        name = node.parts[-1].lower()
        if name == time_col:
            return row.t, row.t_null
        if name in row.g:
            return row.g[name], z3.BoolVal(False)
        raise Unsupported(f'column {name}')
    if isinstance(node, ast.Constant):
        v = node.value
        if isinstance(v, str) and v.startswith('$var['):
            return row.var[v[5:-1]], z3.BoolVal(False)
        if v in row.d:
            return row.d[v], z3.BoolVal(False)
        raise Unsupported(f'constant {v!r}')
    raise Unsupported(f'value {type(node).__name__}')


OPS = {
    'gt': ('t.t > 1000', '>'), 'ge': ('t.t >= 1000', '>='), 'eq': ('t.t = 1000', '='), 'lt': ('t.t < 1000', '<'), 'le': ('t.t <= 1000', '<='),
    'between': ('t.t BETWEEN 1000 AND 2000', 'between'), 'gt-latest': ('t.t > LATEST', 'latest'), 'eq-latest': ('t.t = LATEST', 'latest'), 'none': (None, None),
}


def spec_fetches(opkey, row, parts):
    """list of (predicate, limited): the specification of the fetches for one partition"""
    t, nn = row.t, z3.Not(row.t_null)
    d1, d2 = row.d[1000], row.d[2000]
    P = z3.And(*([nn] + parts)) if parts or True else nn
    if opkey == 'gt':
        return [(z3.And(P, t <= d1), True), (z3.And(P, t > d1), False)]
    if opkey == 'ge':
        return [(z3.And(P, t < d1), True), (z3.And(P, t >= d1), False)]
    if opkey == 'between':
        return [(z3.And(P, t < d1), True), (z3.And(P, t >= d1, t <= d2), False)]
    if opkey == 'eq':
        return [(z3.And(P, t <= d1), True)]
    if opkey in ('gt-latest', 'eq-latest'):
        return [(P, True)]
    if opkey == 'lt':
        return [(z3.And(P, t < d1), False)]
    if opkey == 'le':
        return [(z3.And(P, t <= d1), False)]
    return [(P, False)]


def fetch_selects(step):
    from mindsdb_sql.planner.steps import FetchDataframeStep, MultipleSteps, MapReduceStep
    if isinstance(step, FetchDataframeStep):
        return [step.query]
    if isinstance(step, MultipleSteps):
        return [q for s in step.steps for q in fetch_selects(s)]
    if isinstance(step, MapReduceStep):
        return fetch_selects(step.step)
    return []


def grid_case(opkey, n_part, groups, model_left, window=3, limit=None, time_last=False):
    where = []
    if OPS[opkey][0] and not time_last:
        where.append(OPS[opkey][0])
    pf = ['t.g1 = 7', 't.g2 = 8'][:n_part]
    where += pf
    if OPS[opkey][0] and time_last:
        where.append(OPS[opkey][0])          # the time condition as the last (right-most) conjunct
    w = (' WHERE ' + ' AND '.join(where)) if where else ''
    tables = 'mindsdb.tp AS m JOIN int1.tbl1 AS t' if model_left else 'int1.tbl1 AS t JOIN mindsdb.tp AS m'
    sql = f'SELECT * FROM {tables}{w}' + (f' LIMIT {limit}' if limit else '')
    meta = [{'name': 'tp', 'integration_name': 'mindsdb', 'timeseries': True, 'window': window, 'horizon': 2, 'order_by_column': 't', 'group_by_columns': list(groups)}]
    return sql, dict(integrations=['int1'], predictor_metadata=meta, default_namespace='mindsdb')


def main_obligations(rep, tier):
    from mindsdb_sql import parse_sql
    from mindsdb_sql.planner.query_planner import QueryPlanner
    from mindsdb_sql.planner.steps import ApplyTimeseriesPredictorStep, LimitOffsetStep, MapReduceStep, FetchDataframeStep
    from mindsdb_sql.exceptions import PlanningException
    from mindsdb_sql.parser import ast
    fn = 'mindsdb_sql.planner.plan_join_ts:PlanJoinTSPredictorQuery.plan_timeseries_predictor'
    solver_s = 0.0
    for opkey, n_groups, model_left in itertools.product(OPS, (0, 1, 2), (False, True)):
        groups = ['g1', 'g2'][:n_groups]
        for n_part, time_last in itertools.product(range(0, n_groups + 1), (False, True)):
            if time_last and (n_part == 0 or OPS[opkey][0] is None):
                continue            # same text as time_last=False
            oid = f'C15.rows.{opkey}.groups{n_groups}.part{n_part}.{"model-left" if model_left else "model-right"}' + ('.time-last' if time_last else '')
            sql, kw = grid_case(opkey, n_part, groups, model_left, limit=5, time_last=time_last)
            try:
                q = parse_sql(sql)
                plan = QueryPlanner(q, **kw).from_query()
            except Exception as e:
                rep.failed(oid, 'smt:z3', f'planner raises {type(e).__name__}: {e}'[:200], function=fn, replay={'input': sql, 'dialect': 'mindsdb', 'fires': True, 'observed': f'{type(e).__name__}'})
                continue
            row = Row(groups)
            parts = [row.g[g] == row.d[c] for g, c in zip(groups[:n_part], (7, 8))] + [row.g[g] == row.var[g] for g in groups]
            spec = spec_fetches(opkey, row, parts)
            data_steps = [s for s in plan.steps if fetch_selects(s) and not (isinstance(s, FetchDataframeStep) and getattr(s.query, 'distinct', False))]
            if n_groups:
                data_steps = [s for s in plan.steps if isinstance(s, MapReduceStep)]
            problem = None
            if len(data_steps) != 1:
                problem = f'{len(data_steps)} data steps'
            else:
                sels = fetch_selects(data_steps[0])
                if len(sels) != len(spec):
                    problem = f'{len(sels)} fetches emitted, specification has {len(spec)}'
                else:
                    import time
                    for sel, (want, limited) in zip(sels, spec):
                        try:
                            got = pred_of(sel.where, row, 't')
                        except Unsupported as e:
                            problem = f'evaluator: {e}'
                            break
                        t0 = time.time()
                        s = z3.Solver()
                        s.set('timeout', 10000)
                        s.add(got != want)
                        r = s.check()
                        solver_s += time.time() - t0
                        if r == z3.sat:
                            problem = f'fetch `{sel}` differs from the specification on row/bounds {s.model()}'
                            break
                        if r != z3.unsat:
                            problem = 'solver unknown'
                            break
                        ob = sel.order_by
                        if not (ob and len(ob) == 1 and ob[0].direction == 'DESC' and ob[0].field.parts[-1].lower() == 't'):
                            problem = f'fetch `{sel}` is not ordered by t DESC'
                            break
                        lim = sel.limit.value if sel.limit is not None else None
                        if limited and lim != 3:
                            problem = f'context fetch `{sel}` has LIMIT {lim}, expected the window size 3'
                            break
                        if not limited and lim is not None:
                            problem = f'range fetch `{sel}` is limited to {lim} rows'
                            break
                # partitions fetch for grouped models: DISTINCT group columns with the non-time filters
                if problem is None and n_groups:
                    pf = [s for s in plan.steps if isinstance(s, FetchDataframeStep) and s.query.distinct]
                    if len(pf) != 1 or [t.parts[-1] for t in pf[0].query.targets] != groups:
                        problem = 'partition values are not fetched by one SELECT DISTINCT over the group columns'
                    else:
                        try:
                            got = pred_of(pf[0].query.where, row, 't')
                            wantp = z3.And(*([row.g[g] == row.d[c] for g, c in zip(groups[:n_part], (7, 8))] or [z3.BoolVal(True)]))
                            s = z3.Solver()
                            s.add(got != wantp)
                            if s.check() != z3.unsat:
                                problem = f'partition query `{pf[0].query}` is not restricted by exactly the non-time filters'
                        except Unsupported as e:
                            problem = f'evaluator: {e}'
                # output filter, limit after the join
                if problem is None:
                    ap = [s for s in plan.steps if isinstance(s, ApplyTimeseriesPredictorStep)]
                    if len(ap) != 1:
                        problem = f'{len(ap)} apply-timeseries steps'
                    else:
                        otf = ap[0].output_time_filter
                        if OPS[opkey][0] is None:
                            if otf is not None:
                                problem = 'an output time filter appears although the user gave none'
                        else:
                            col_ok = otf is not None and any(isinstance(a, ast.Identifier) and a.parts[-1].lower() == 't' for a in otf.args)
                            # the user's condition is passed on: same operator and bound (an exact time `= d` is passed as `> d`: the
                            # forecast rows lie after it; `= LATEST` stays `= LATEST`)
                            want_op = {'gt': '>', 'ge': '>=', 'eq': '>', 'lt': '<', 'le': '<=', 'between': 'between', 'gt-latest': '>', 'eq-latest': '='}[opkey]
                            want_args = {'between': ['1000', '2000'], 'gt-latest': ['LATEST'], 'eq-latest': ['LATEST']}.get(opkey, ['1000'])
                            if not col_ok:
                                problem = f'output time filter {otf} is not the user\'s condition on the order column'
                            elif str(getattr(otf, 'op', '')).lower() != want_op or [str(a) for a in otf.args if not isinstance(a, ast.Identifier)] != want_args:
                                problem = f'output time filter is `{otf}`, the user wrote `{OPS[opkey][0]}` (expected operator {want_op!r} with {want_args})'
                    lo = [i for i, s in enumerate(plan.steps) if isinstance(s, LimitOffsetStep)]
                    js = [i for i, s in enumerate(plan.steps) if type(s).__name__ == 'JoinStep']
                    if problem is None and (len(lo) != 1 or plan.steps[lo[0]].limit != 5 or not js or lo[0] < js[-1]):
                        problem = 'the requested LIMIT is not applied as a LimitOffsetStep after the join'
                    if problem is None and any(sel.limit is not None and sel.limit.value == 5 for s in plan.steps for sel in fetch_selects(s)):
                        problem = 'the requested LIMIT is pushed into a fetch'
            clause = 'row in fetch_i  <=>  spec_i(row) for all rows, bounds, partition values; context fetch ORDER BY t DESC LIMIT window; LIMIT only after the join'
            if problem is None:
                rep.proved(oid, 'smt:z3', f'{len(spec)} fetch predicate(s) equivalent to the specification over a symbolic row', function=fn, clause=clause)
            else:
                rep.failed(oid, 'smt:z3', problem, function=fn, clause=clause, replay={'input': sql, 'dialect': 'mindsdb', 'fires': True, 'observed': problem[:200], 'expected': 'specified fetches'})
    rep.solver_s['smt:z3'] = rep.solver_s.get('smt:z3', 0) + solver_s
    # rejections
    for name, tail in (('order-by', 'ORDER BY t.t'), ('group-by', 'GROUP BY t.g1'), ('having', 'GROUP BY t.g1 HAVING count(*) > 1'), ('offset', 'LIMIT 5 OFFSET 2'),
                       ('other-column', None), ('two-time-filters', None), ('or', None)):
        if name == 'other-column':
            sql = "SELECT * FROM int1.tbl1 AS t JOIN mindsdb.tp AS m WHERE t.t > 1000 AND t.other = 1"
        elif name == 'two-time-filters':
            sql = "SELECT * FROM int1.tbl1 AS t JOIN mindsdb.tp AS m WHERE t.t > 1000 AND t.t < 2000"
        elif name == 'or':
            sql = "SELECT * FROM int1.tbl1 AS t JOIN mindsdb.tp AS m WHERE t.t > 1000 OR t.g1 = 7"
        else:
            sql = f"SELECT * FROM int1.tbl1 AS t JOIN mindsdb.tp AS m WHERE t.t > 1000 {tail}"
        _, kw = grid_case('gt', 0, ['g1'], False)
        oid = f'C15.reject.{name}'
        try:
            QueryPlanner(parse_sql(sql), **kw).from_query()
            rep.failed(oid, 'smt:z3', 'accepted', function=fn, clause='raises PlanningException', replay={'input': sql, 'dialect': 'mindsdb', 'fires': True, 'observed': 'planned', 'expected': 'PlanningException'})
        except PlanningException:
            rep.proved(oid, 'smt:z3', 'PlanningException', function=fn, clause='ORDER BY / GROUP BY / HAVING / OFFSET / filters on other columns / second time filter / OR raise PlanningException')
        except Exception as e:
            rep.failed(oid, 'smt:z3', f'raises {type(e).__name__}: {e}'[:150], function=fn, clause='raises PlanningException',
                       replay={'input': sql, 'dialect': 'mindsdb', 'fires': True, 'observed': f'{type(e).__name__}', 'expected': 'PlanningException'})


def shape_obligations(rep):
    """(i) a filter on a column that is neither the order column nor a partition column is rejected wherever it stands in the AND chain and whatever
    operator it uses; (ii) the data side written as a sub-select (the "dbt form"): the statement's LIMIT is what cuts the result after the join"""
    from mindsdb_sql import parse_sql
    from mindsdb_sql.planner.query_planner import QueryPlanner
    from mindsdb_sql.planner.steps import LimitOffsetStep, JoinStep
    from mindsdb_sql.exceptions import PlanningException
    fn = 'mindsdb_sql.planner.ts_utils:validate_ts_where_condition'
    _, kw = grid_case('gt', 0, ['g1'], False)
    foreign = {'eq': 't.other = 1', 'lt': 't.other < 1', 'between': 't.other BETWEEN 1 AND 5', 'in': 't.other IN (1, 2)', 'like': "t.other LIKE 'a%'", 'is-null': 't.other IS NULL',
               'not': 'NOT t.other = 1', 'fn': 'abs(t.other) = 1'}
    for name, cond in foreign.items():
        for pos, where in (('first', f'{cond} AND t.t > 1000'), ('last', f't.t > 1000 AND {cond}'), ('middle', f't.g1 = 7 AND {cond} AND t.t > 1000'), ('after-partition', f't.t > 1000 AND t.g1 = 7 AND {cond}')):
            sql = f'SELECT * FROM int1.tbl1 AS t JOIN mindsdb.tp AS m WHERE {where}'
            oid = f'C15.reject.other-column.{name}.{pos}'
            try:
                QueryPlanner(parse_sql(sql), **kw).from_query()
                rep.failed(oid, 'smt:z3', 'accepted', function=fn, clause='a filter on another column raises PlanningException',
                           replay={'input': sql, 'dialect': 'mindsdb', 'fires': True, 'observed': 'planned', 'expected': 'PlanningException'})
            except PlanningException:
                rep.proved(oid, 'smt:z3', 'PlanningException', function=fn, clause='a filter on another column raises PlanningException')
            except Exception as e:
                rep.failed(oid, 'smt:z3', f'raises {type(e).__name__}: {e}'[:150], function=fn, clause='a filter on another column raises PlanningException',
                           replay={'input': sql, 'dialect': 'mindsdb', 'fires': True, 'observed': type(e).__name__, 'expected': 'PlanningException'})
    fn2 = 'mindsdb_sql.planner.plan_join_ts:PlanJoinTSPredictorQuery.adapt_dbt_query'
    for inner, outer in ((None, 5), (50, 5), (5, 5), (3, 5), (50, None), (None, None)):
        sql = (f"SELECT * FROM (SELECT * FROM int1.tbl1 AS ta WHERE ta.g1 = 7{f' LIMIT {inner}' if inner else ''}) AS t1 JOIN mindsdb.tp AS tb WHERE t1.t > LATEST"
               + (f' LIMIT {outer}' if outer else ''))
        oid = f'C15.dbt.limit.inner-{inner}.outer-{outer}'
        clause = 'sub-select form: the statement LIMIT n is applied by one LimitOffsetStep after the join, cutting at n (at the smaller value when the sub-select has its own, smaller LIMIT)'
        try:
            plan = QueryPlanner(parse_sql(sql), **kw).from_query()
        except Exception as e:
            rep.failed(oid, 'smt:z3', f'raises {type(e).__name__}: {e}'[:150], function=fn2, clause=clause, replay={'input': sql, 'dialect': 'mindsdb', 'fires': True, 'observed': type(e).__name__, 'expected': 'a plan'})
            continue
        lo = [i for i, s_ in enumerate(plan.steps) if isinstance(s_, LimitOffsetStep)]
        js = [i for i, s_ in enumerate(plan.steps) if isinstance(s_, JoinStep)]
        problem = None
        if outer is None:
            if any(getattr(plan.steps[i], 'limit', None) is not None and inner is None for i in lo):
                problem = 'a LIMIT is applied although the statement has none'
        else:
            want = outer if inner is None else min(inner, outer)
            got = [getattr(plan.steps[i].limit, 'value', plan.steps[i].limit) for i in lo]
            if len(lo) != 1 or not js or lo[0] < js[-1]:
                problem = f'the requested LIMIT is not applied as one LimitOffsetStep after the join (limit steps at {lo}, joins at {js})'
            elif got[0] != want:
                problem = f'statement LIMIT {outer}' + (f' (sub-select LIMIT {inner})' if inner else '') + f': the result after the join is cut at {got[0]} rows, expected {want}'
        if problem is None:
            rep.proved(oid, 'smt:z3', 'LimitOffsetStep after the join with the expected value', function=fn2, clause=clause)
        else:
            rep.failed(oid, 'smt:z3', problem, function=fn2, clause=clause, replay={'input': sql, 'dialect': 'mindsdb', 'fires': True, 'observed': problem[:200], 'expected': 'LIMIT after the join'})


def check(rep, tier):
    from vlib import statecensus
    statecensus.obligations(rep, 'C15', 'planner')
    rep.dropped = 'ts_utils helper bodies read with ast.parse (recursive calls replaced by their contract); plan_timeseries_predictor is RUN on the grid, its emitted trees are the input of the z3 evaluator'
    rep.assume('SQL semantics of the emitted WHERE trees as encoded in pred_of (AND, comparisons, BETWEEN, IS NOT NULL; NULL comparisons are not true)',
               'MapReduceStep runs its sub-steps once per distinct partition value with $var[col] bound to it', 'window/bounds/partition values are symbolic; query SHAPES are the finite grid')
    rep.trust('pysym executor', 'z3 linear integer arithmetic')
    helper_obligations(rep)
    main_obligations(rep, tier)
    shape_obligations(rep)
    from vlib import fetchdep
    fetchdep.obligations(rep, tier, 'C15')          # the partition / window / range fetches are built by get_integration_select_step
    rep.notes.append('Fetch predicates proved equivalent to the specification for every grid case over a symbolic row.')
    rep.bounded_rule = 'grid of 9 operators x 0..2 group columns x 0..n partition filters x model side (exhaustive over the grid; rows/bounds symbolic)'
