"""C19 — syntax errors point at the offending token and suggestions really help (mindsdb dialect).

  caret.place     (pysym + z3 Seq/LIA, loop body of error_location) a token is laid out at its absolute index in its line:
                  new_line[index : index+len(value)] == value, earlier text kept
  caret.shift     (pysym) the line-shifting loop: displayed line = line[shift:], error column reduced by the same shift, shift' = len(line)
  caret.final     (pysym) the caret line is (error_index + 1) dashes followed by error_len carets; error_len = len(bad.value) (1 at EOF)
  caret.len.<TOK> the caret count equals the token's SOURCE length — holds iff the lexer action keeps value == source text (C16.raw)
  lexerr.slice    (z3) the source lines shown by MindsDBLexer.error include the line of the illegal character
  display.<TOK>   (exhaustive over token kinds) the display string derived from the token regex lexes to exactly that token
  expected.<dialect> (lrtab, exhaustive over states) end-of-input suggestions (unvalidated path) are tokens with a real action in the row
  validated       (pysym) a suggestion on the validated path is appended only after query_is_valid returned True for it
Bounded: 1-token mutations / truncations in single- and multi-line layouts: carets cover the first token the LALR tables reject (independent table-driven LR simulation, lrtab.lr_first_error);
each concrete suggestion inserted before or substituted for that token extends the viable prefix."""
import ast, os, random, re
import z3
from vlib import repo, lrtab, pysym, corpus
from vlib.core import PROVED, FAILED, UNDECIDED, Bounded
from vlib.pysym import SymObj, SymSeq, SymVal, SymDictU, Stub, Event, Unsupported, PathLimit, ModelObj
from vlib.pysym.executor import Executor, Env, ReturnSig

LEVEL = 'other'
MANIFEST = {
    'engine': 'pysym+lrtab',
    'level': 'other',
    'technique': 'loop-body obligations of error_location with z3 sequences, z3 obligation on the slice of MindsDBLexer.error, exhaustive table/token checks of the suggestion sources, symbolic execution of make_suggestion; mutation oracle with an independent table-driven LR simulation (first rejected token) as bounded stand-in',
    'text': 'The position arithmetic is proved per loop iteration for arbitrary layouts (under the tokenizer contract); display strings and '
            'end-of-input suggestions are checked exhaustively against the real token and LALR tables; the validated path is proved to emit '
            'only validated suggestions. Caret length for rewritten string/variable tokens and first-line lexer errors are genuine defects '
            '(known findings).',
    'note': 'Assumed: tokenizer contract (as C16); LALR look-aheads of reduce entries may be spurious (bounded prefix replay only). '
            'Bounded: corpus statements x {delete, duplicate, replace, insert, truncate} x {one line, multi-line with comments}.',
}

INIT = 'mindsdb_sql'


def _judge(rep, oid, run, post, fn, clause, replay=None):
    import time
    t0 = time.time()
    ex = Executor(solver_timeout_ms=20000)
    try:
        outs = ex.explore(run)
        bad = None
        for o in outs:
            bad = post(ex, o)
            if bad:
                break
        if not outs:
            v = pysym.Verdict(UNDECIDED, 'no feasible path')
        else:
            v = pysym.Verdict(FAILED, bad) if bad else pysym.Verdict(PROVED, f'{len(outs)} path(s), {ex.n_queries} solver queries', ex.solver_time)
    except (Unsupported, PathLimit) as e:
        v = pysym.Verdict(UNDECIDED, f'{type(e).__name__}: {e}', time.time() - t0)
    if v.status == PROVED:
        rep.proved(oid, 'pysym', v.detail, function=fn, seconds=v.seconds, clause=clause)
    elif v.status == FAILED:
        rep.failed(oid, 'pysym', v.detail, function=fn, clause=clause, replay=replay() if callable(replay) else replay)
    else:
        rep.undecided(oid, 'pysym', v.detail, function=fn, clause=clause)


def message_of(sql):
    from mindsdb_sql import parse_sql
    try:
        parse_sql(sql, dialect='mindsdb')
        return None
    except Exception as e:
        return str(e)


def caret_check(sql):
    """(ok, description): carets of the message cover exactly the first token the dialect's LALR tables cannot accept (lrtab.lr_first_error)"""
    msg = message_of(sql)
    if msg is None or not msg.startswith('Syntax error'):
        return None, 'accepted / other error'
    d = lrtab.load('mindsdb')
    text = re.sub(r'[\s;]+$', '', sql)
    toks = list(d.Lexer().tokenize(text))
    kinds = [t.type for t in toks]
    v, _acc = lrtab.lr_first_error(d, kinds)      # first token the dialect's tables cannot accept (independent LR simulation)
    lines = msg.split('\n')
    src = [l for l in lines if l.startswith('>')]
    car = [l for l in lines if l and set(l) <= {'-', '^'} and '^' in l]
    if not src or not car:
        return False, f'no source/caret line in message: {msg!r}'
    shown = src[-1][1:]
    dashes = len(car[0]) - len(car[0].lstrip('-'))
    carets = car[0].count('^')
    marked = shown[dashes - 1: dashes - 1 + carets]
    def line_reproduced(lineno):
        # the line shown above the carets is the source line of that token: all its tokens, in order (blanks aside), when none of them is rewritten by the lexer
        lt = [t for t in toks if t.lineno == lineno]
        if not lt or any(str(t.value) != text[t.index:t.end] or '\n' in text[t.index:t.end] for t in lt):
            return True
        return ''.join(shown.split()) == ''.join(''.join(text[t.index:t.end].split()) for t in lt)
    if v >= len(toks):
        # end of input: caret just after the last token
        ok = carets == 1 and dashes - 1 == len(shown)
        if ok and toks and not line_reproduced(toks[-1].lineno):
            return False, f'EOF: the line shown, {shown!r}, is not the last source line; message:\n{msg}'
        return ok, f'EOF: caret at column {dashes - 1}, shown line has {len(shown)} chars'
    bad = toks[v]
    raw = text[bad.index:bad.end]
    if '\n' in raw:
        return None, 'offending token spans several lines'
    if marked == raw:
        if not line_reproduced(bad.lineno):
            return False, f'the line shown above the carets, {shown!r}, does not reproduce the source line of the offending token; message:\n{msg}'
        return True, ''
    return False, f'carets mark {marked!r} (column {dashes - 1}), the first unacceptable token is {raw!r} at index {bad.index}; message:\n{msg}'


def replay_caret(sql):
    ok, why = caret_check(sql)
    return {'input': sql, 'dialect': 'mindsdb', 'fires': ok is False, 'observed': why or 'carets correct', 'expected': 'carets under the offending token'}


# ------------------------------------------------------------------ error_location: loop bodies
def caret_obligations(rep):
    fn = f'{INIT}:ErrorHandling.error_location'
    fd = repo.find_function(INIT, 'ErrorHandling.error_location')
    loops = [s for s in fd.body if isinstance(s, ast.For)] if fd else []
    if len(loops) != 3:
        rep.undecided('C19.caret', 'pysym', f'error_location has {len(loops)} top-level loops (the lemmas are stated over its three loops): representation changed, decision rests on the bounded caret oracle', function=fn, soft=True)
        return
    m = repo.import_module(INIT)
    loop1, loop2, loop3 = loops
    # The lemmas below are stated over error_location's own local variables. If the function keeps its state in differently named / shaped locals the
    # lemmas do not apply ("representation changed", not a violation): they are reported as not established and the decision rests on the end-to-end
    # caret oracle of the bounded part, which runs the real function on mutated sentences in four layouts.
    assigned = {n.id for n in ast.walk(fd) if isinstance(n, ast.Name) and isinstance(n.ctx, ast.Store)}
    need = {'lines_idx', 'line', 'lines', 'shift', 'error_index', 'error_line', 'error_line_num', 'error_len', 'msgs', 'first_line', 'token'}
    t2 = loop2.target
    shape_ok = isinstance(t2, ast.Tuple) and [getattr(x, 'id', None) for x in t2.elts] == ['i', 'line_num'] and 'enumerate' in ast.unparse(loop2.iter)
    if not need <= assigned or not shape_ok:
        for oid in ('C19.caret.place', 'C19.caret.shift.error-line', 'C19.caret.shift.other-line', 'C19.caret.final', 'C19.caret.select.eof', 'C19.caret.select.token'):
            rep.undecided(oid, 'pysym', f'error_location keeps its state in other locals than the lemma speaks about (missing: {sorted(need - assigned)}; second loop `{ast.unparse(loop2.target)} in {ast.unparse(loop2.iter)[:40]}`): '
                          'lemma not applicable, decision rests on the bounded caret oracle', function=fn, soft=True)
        return

    class Lines(ModelObj):
        """lines_idx: defaultdict(str) keyed by line number; one symbolic current line"""

        def __init__(self, cur):
            self.cur = cur
            self.stored = []

        def m_getitem(self, ex, idx):
            return self.cur

        def m_setitem(self, ex, idx, v):
            self.stored.append((idx, v))

    def run_place(ex):
        tok = SymObj(None, 'token', prov='param')
        tok.known_not_none = True
        tok.fields.update(lineno=pysym.mk_int('lineno'), index=pysym.mk_int('index'), value=pysym.mk_str('value'))
        line = pysym.mk_str('line')
        ex.assume(tok.fields['index'].t >= 0)
        ex.assume(z3.Length(line.t) <= tok.fields['index'].t)        # tokenizer contract: tokens do not overlap, indices increase
        lines = Lines(line)
        selfo = SymObj(None, 'self', prov='param')
        env = Env(m)
        env.vars.update(self=selfo, lines_idx=lines)
        ex.assign(loop1.target, tok, env)
        ex.exec_block(loop1.body, env)
        ex.path_state.update(tok=tok, line=line, lines=lines)
        return None

    def post_place(ex, o):
        if o.kind != 'return':
            return f'raises {o.value.__name__}'
        st = o.state
        if len(st['lines'].stored) != 1 or st['lines'].stored[0][0] is not st['tok'].fields['lineno']:
            return 'the rebuilt line is not stored under the token\'s line number'
        new = st['lines'].stored[0][1]
        idx, val, old = st['tok'].fields['index'].t, st['tok'].fields['value'].t, st['line'].t
        nz = new.t if isinstance(new, SymVal) else z3.StringVal(new)
        for name, f in (('token text placed at its index', z3.SubString(nz, idx, z3.Length(val)) == val),
                        ('earlier text kept', z3.PrefixOf(old, nz)),
                        ('line ends with the token', z3.Length(nz) == idx + z3.Length(val))):
            ok, model = ex.valid(f, pc=o.pc)
            if not ok:
                return f'{name}: not implied'
        return None
    _judge(rep, 'C19.caret.place', run_place, post_place, fn, 'requires len(line) <= token.index; ensures line\'[index:index+len(value)] == value and line is a prefix of line\'',
           replay=lambda: replay_caret('select a from t wher b = 1'))

    def run_shift(ex, on_error_line):
        line = pysym.mk_str('line')
        shift, error_index, error_line = pysym.mk_int('shift'), pysym.mk_int('error_index'), pysym.mk_int('error_line')
        line_num, error_line_num, i = pysym.mk_int('line_num'), pysym.mk_int('error_line_num'), pysym.mk_int('i')
        ex.assume(z3.And(shift.t >= 0, shift.t <= z3.Length(line.t)))
        ex.assume(line_num.t == error_line_num.t if on_error_line else line_num.t != error_line_num.t)

        class LI(ModelObj):
            def m_getitem(self, ex_, idx):
                return line
        lines = []
        env = Env(m)
        env.vars.update(lines_idx=LI(), lines=lines, shift=shift, error_index=error_index, error_line=error_line, error_line_num=error_line_num)
        ex.assign(loop2.target, (i, line_num), env)
        ex.exec_block(loop2.body, env)
        ex.path_state.update(env=env, lines=lines, line=line, shift=shift, error_index=error_index, i=i, error_line=error_line)
        return None

    def post_shift(ex, o, on_error_line):
        if o.kind != 'return':
            return f'raises {o.value.__name__}'
        st = o.state
        v = st['env'].vars
        if len(st['lines']) != 1:
            return 'not exactly one displayed line appended'
        shown = st['lines'][0]
        sz = shown.t if isinstance(shown, SymVal) else z3.StringVal(shown)
        line, shift = st['line'].t, st['shift'].t
        checks = [('displayed line is line[shift:]', sz == z3.SubString(line, shift, z3.Length(line) - shift)),
                  ('next shift is the length of this line', (v['shift'].t if isinstance(v['shift'], SymVal) else z3.IntVal(v['shift'])) == z3.Length(line))]
        ei = v['error_index']
        ez = ei.t if isinstance(ei, SymVal) else z3.IntVal(ei)
        if on_error_line:
            checks.append(('error column reduced by the same shift', ez == st['error_index'].t - shift))
            el = v['error_line']
            checks.append(('error line is this line', (el.t if isinstance(el, SymVal) else z3.IntVal(el)) == st['i'].t))
        else:
            checks.append(('error column untouched on other lines', ez == st['error_index'].t))
        for name, f in checks:
            ok, _ = ex.valid(f, pc=o.pc)
            if not ok:
                return f'{name}: not implied'
        return None
    for flag in (True, False):
        _judge(rep, f'C19.caret.shift.{"error-line" if flag else "other-line"}', lambda ex, flag=flag: run_shift(ex, flag), lambda ex, o, flag=flag: post_shift(ex, o, flag), fn,
               'ensures shown == line[shift:], error_index reduced by shift exactly on the error line, shift\' == len(line)', replay=lambda: replay_caret('select a\nfrom t\nwher b = 1'))

    # final caret line
    tail = fd.body[fd.body.index(loop3) + 1:]

    def run_final(ex):
        error_index, error_len = pysym.mk_int('error_index'), pysym.mk_int('error_len')
        ex.assume(z3.And(error_index.t >= 0, error_len.t >= 1))
        msgs = []
        env = Env(m)
        env.vars.update(msgs=msgs, error_index=error_index, error_len=error_len, self=SymObj(None, 'self'))
        try:
            ex.exec_block(tail, env)
        except ReturnSig as r:
            ex.path_state.update(msgs=msgs, ret=r.v, error_index=error_index, error_len=error_len)
            return r.v
        return None

    def post_final(ex, o):
        if o.kind != 'return':
            return f'raises {o.value.__name__}'
        msgs = o.state['msgs']
        if o.state['ret'] is not msgs or len(msgs) != 1 or not isinstance(msgs[0], SymVal):
            return f'caret line is not the last message: {msgs!r}'
        s = msgs[0].t
        ei, el = o.state['error_index'].t, o.state['error_len'].t
        dash, car = z3.String('d'), z3.String('c')
        f = z3.Exists([dash, car], z3.And(s == z3.Concat(dash, car), z3.Length(dash) == ei + 1, z3.InRe(dash, z3.Star(z3.Re(z3.StringVal('-')))),
                                         z3.Length(car) == el, z3.InRe(car, z3.Star(z3.Re(z3.StringVal('^'))))))
        ok, _ = ex.valid(f, pc=o.pc)
        return None if ok else 'caret line is not (error_index + 1) dashes followed by error_len carets'
    _judge(rep, 'C19.caret.final', run_final, post_final, fn, "ensures msgs[-1] == '-' * (error_index + 1) ++ '^' * error_len")

    # error_len / error_index selection
    pre = fd.body[fd.body.index(loop1) + 1: fd.body.index(loop2)]

    def run_sel(ex, eof):
        selfo = SymObj(None, 'self', prov='param')
        selfo.known_not_none = True
        if eof:
            selfo.fields['bad_token'] = None
        else:
            bt = SymObj(None, 'bad_token', prov='param')
            bt.known_not_none = True
            bt.fields.update(value=pysym.mk_str('bad.value'), lineno=pysym.mk_int('bad.lineno'), index=pysym.mk_int('bad.index'))
            selfo.fields['bad_token'] = bt
        last = pysym.mk_str('last_line')
        lines_idx = {7: pysym.mk_str('first_line'), 9: last}
        env = Env(m)
        env.vars.update(self=selfo, lines_idx=lines_idx)
        ex.exec_block(pre, env)
        ex.path_state.update(env=env, last=last, selfo=selfo)
        return None

    def post_sel(ex, o, eof):
        if o.kind != 'return':
            return f'raises {o.value.__name__}'
        v = o.state['env'].vars
        if eof:
            if v.get('error_len') != 1 or v.get('error_line_num') != 9:
                return 'EOF: not one caret on the last line'
            ok, _ = ex.valid(v['error_index'].t == z3.Length(o.state['last'].t), pc=o.pc)
            return None if ok else 'EOF: caret is not placed just after the last token'
        bt = o.state['selfo'].fields['bad_token']
        ok, _ = ex.valid(z3.And(v['error_len'].t == z3.Length(bt.fields['value'].t)), pc=o.pc)
        if not ok:
            return 'caret count is not the length of the bad token\'s value'
        if v['error_index'] is not bt.fields['index'] or v['error_line_num'] is not bt.fields['lineno']:
            return 'caret position is not the bad token\'s position'
        return None
    for eof in (True, False):
        _judge(rep, f'C19.caret.select.{"eof" if eof else "token"}', lambda ex, eof=eof: run_sel(ex, eof), lambda ex, o, eof=eof: post_sel(ex, o, eof), fn,
               'ensures (bad token) error_len == len(bad.value), position = (bad.lineno, bad.index); (EOF) one caret after the last token of the last line')


def caret_len_obligations(rep):
    """caret count == SOURCE length of the bad token: needs value == source text (C16.raw.<TOKEN>)"""
    from contracts import C16, codecs
    from vlib.fst import Fst, regex_dfa, equivalent, FstError
    d = lrtab.load('mindsdb')
    samples = {'QUOTE_STRING': "select a from t 'it''s'", 'DQUOTE_STRING': 'select a from t t1 "a\\"b"', 'VARIABLE': 'select a from t t1 @v', 'SYSTEM_VARIABLE': 'select a from t t1 @@sv'}
    for name, f in sorted(d.Lexer._token_funcs.items()):
        if name in d.Lexer._ignored_tokens or name.startswith('ignore') or name == 'newline':
            continue
        oid = f'C19.caret.len.{name}'
        fn = f'{d.lexer_module}:{d.lexer_class_name}.{name},{INIT}:ErrorHandling.error_location'
        try:
            T, pat, _ = codecs.lexer_fst('mindsdb', name)
            L = regex_dfa(pat, re.IGNORECASE, codecs.ALPHABET)
            r = equivalent(T.on_domain(L), Fst.identity(codecs.ALPHABET).on_domain(L))
        except FstError as e:
            rep.undecided(oid, 'fst', str(e), function=fn)
            continue
        if r[0] is True:
            rep.proved(oid, 'fst', 'token value is its source text, so len(value) carets cover the token', function=fn, clause='len(bad.value) == length of the token in the source')
        elif r[0] is False:
            rep.failed(oid, 'fst', f'the lexer rewrites {r[1]!r}: the caret count is the length of the rewritten value, not of the source token', function=fn,
                       clause='len(bad.value) == length of the token in the source', replay=replay_caret(samples.get(name, 'select 1 1')))
        else:
            rep.undecided(oid, 'fst', r[1], function=fn)


# ------------------------------------------------------------------ lexer error: shown lines include the error line
def lexerr_obligations(rep):
    d = lrtab.load('mindsdb')
    fn = f'{d.lexer_module}:MindsDBLexer.error'
    fd = repo.find_function(d.lexer_module, 'MindsDBLexer.error')
    sl = None
    # the slice of source lines that is shown: any `lines[a:b]` the function iterates (statement loop, comprehension or generator)
    for n in ast.walk(fd):
        it = n.iter if isinstance(n, (ast.For, ast.comprehension)) else None
        if it is not None and isinstance(it, ast.Subscript) and isinstance(it.slice, ast.Slice) and isinstance(it.value, ast.Name):
            if sl is None or 'error_line' in ast.unparse(it.slice):          # the shown window is the slice positioned by the error line
                sl = it.slice
    if sl is None:
        rep.undecided('C19.lexerr.slice', 'smt:z3', 'no iteration over a slice `lines[a:b]` in MindsDBLexer.error', function=fn)
        return
    e, n = z3.Int('error_line'), z3.Int('n_lines')

    def term(x):
        if x is None:
            return None
        if isinstance(x, ast.Name) and x.id == 'error_line':
            return e
        if isinstance(x, ast.Constant) and isinstance(x.value, int):
            return z3.IntVal(x.value)
        if isinstance(x, ast.BinOp) and isinstance(x.op, (ast.Add, ast.Sub)):
            a, b = term(x.left), term(x.right)
            return a + b if isinstance(x.op, ast.Add) else a - b
        if isinstance(x, ast.UnaryOp) and isinstance(x.op, ast.USub):
            return -term(x.operand)
        if isinstance(x, ast.Call) and isinstance(x.func, ast.Name) and x.func.id in ('max', 'min') and len(x.args) >= 2 and not x.keywords:
            ts = [term(a_) for a_ in x.args]
            acc = ts[0]
            for t_ in ts[1:]:
                acc = z3.If(t_ > acc, t_, acc) if x.func.id == 'max' else z3.If(t_ < acc, t_, acc)
            return acc
        if isinstance(x, ast.IfExp) and isinstance(x.test, ast.Compare) and len(x.test.ops) == 1:
            a, b = term(x.test.left), term(x.test.comparators[0])
            op = x.test.ops[0]
            c = {ast.Lt: a < b, ast.LtE: a <= b, ast.Gt: a > b, ast.GtE: a >= b, ast.Eq: a == b, ast.NotEq: a != b}.get(type(op))
            if c is not None:
                return z3.If(c, term(x.body), term(x.orelse))
        raise Unsupported(ast.unparse(x))
    try:
        lo, hi = term(sl.lower), term(sl.upper)
    except Unsupported as ex_:
        rep.undecided('C19.lexerr.slice', 'smt:z3', f'slice bound {ex_}', function=fn)
        return

    def norm(b, default):
        if b is None:
            return default
        return z3.If(b < 0, z3.If(b + n < 0, 0, b + n), z3.If(b > n, n, b))
    s = z3.Solver()
    s.add(n >= 1, e >= 0, e < n)
    s.add(z3.Not(z3.And(norm(lo, z3.IntVal(0)) <= e, e < norm(hi, n))))
    r = s.check()
    clause = 'forall n >= 1, 0 <= error_line < n: the slice lines[lo:hi] (Python slice semantics) contains index error_line'
    if r == z3.unsat:
        rep.proved('C19.lexerr.slice', 'smt:z3', f'lines[{ast.unparse(sl)}] always contains the error line', function=fn, clause=clause)
    elif r == z3.sat:
        mdl = s.model()
        nn, ee = mdl[n].as_long(), mdl[e].as_long()
        text = '\n'.join(['select #'] + ['from t'] * (nn - 1)) if ee == 0 else '\n'.join(['select a'] * ee + ['from #'] + ['x'] * (nn - ee - 1))
        msg = message_of(text) or ''
        shown = [l for l in msg.split('\n') if l.startswith('>')]
        fires = not any('#' in l for l in shown)
        rep.failed('C19.lexerr.slice', 'smt:z3', f'counterexample n_lines={nn}, error_line={ee}: lines[{ast.unparse(sl)}] misses the error line', function=fn, clause=clause,
                   cex={'n_lines': nn, 'error_line': ee}, replay={'input': text, 'dialect': 'mindsdb', 'fires': fires, 'strict': True, 'observed': f'message shows {shown}', 'expected': 'the line with the illegal character'})
    else:
        rep.undecided('C19.lexerr.slice', 'smt:z3', 'unknown', function=fn)


# ------------------------------------------------------------------ suggestion sources
def display_obligations(rep):
    import mindsdb_sql
    d = lrtab.load('mindsdb')
    fn = f'{INIT}:ErrorHandling.make_suggestion'
    n = 0
    for tok in sorted(d.Lexer.tokens):
        eh = mindsdb_sql.ErrorHandling(d.Lexer(), d.Parser())
        eh.tokens, eh.bad_token, eh.expected_tokens = [object()], None, [tok, 'COMMA' if tok != 'COMMA' else 'DOT']
        # only the display string is wanted here: whatever validates a candidate by re-parsing is answered "yes" (that step has its own obligations)
        for hook in ('query_is_valid', 'is_next_token'):
            if hasattr(eh, hook):
                setattr(eh, hook, lambda *a, **k: True)
        try:
            sug = eh.make_suggestion()
        except Exception as e:
            rep.failed(f'C19.display.{tok}', 'lrtab', f'make_suggestion raises {type(e).__name__}', function=fn)
            continue
        mine = [s for s in sug if s not in (',', '.')]
        if not mine or mine[0].startswith('['):
            continue              # not displayed as a concrete keyword/symbol
        n += 1
        disp = mine[0]
        kinds = d.lex_kinds(disp)
        oid = f'C19.display.{tok}'
        if kinds == [tok]:
            rep.proved(oid, 'lrtab', f'{disp!r} lexes to [{tok}]', function=fn, clause='the display string of a token kind lexes to exactly that token')
        else:
            rep.failed(oid, 'lrtab', f'display string {disp!r} lexes to {kinds}, not [{tok}]', function=fn, clause='the display string of a token kind lexes to exactly that token',
                       replay={'input': disp, 'dialect': 'mindsdb', 'fires': True, 'observed': f'lexes to {kinds}', 'expected': f'[{tok}]'})
    rep.census['display.tokens'] = n


def expected_obligations(rep):
    import mindsdb_sql
    d = lrtab.load('mindsdb')
    fn = f'{INIT}:ErrorHandling.make_suggestion,sly.yacc:Parser.parse'
    eh = mindsdb_sql.ErrorHandling(d.Lexer(), d.Parser())
    # the row-level fact only (what a row can lead to is C19.eof.viable.*): a validating re-parse, where the code has one, is answered "yes"
    for hook in ('query_is_valid', 'is_next_token'):
        if hasattr(eh, hook):
            setattr(eh, hook, lambda *a, **k: True)
    bad = []
    n_rows = 0
    disp_to_tok = {}
    for s in range(len(d.action)):
        if s in d.defaulted:
            continue
        row = d.action[s]
        eh.tokens, eh.bad_token, eh.expected_tokens = [object()], None, list(row.keys())
        sug = eh.make_suggestion()
        if not sug:
            continue
        n_rows += 1
        for disp in sug:
            if disp.startswith('['):
                continue
            kinds = d.lex_kinds(disp)
            tok = kinds[0] if kinds and len(kinds) == 1 else None
            if tok is None or row.get(tok) is None:
                bad.append((s, disp, tok))
    rep.census['expected.rows_with_suggestions'] = n_rows
    if bad:
        s, disp, tok = bad[0]
        pre = d.viable_prefix(s)
        text = d.text_for(pre) if pre is not None else None
        rp = None
        if text is not None:
            msg = message_of(text) or ''
            rp = {'input': text, 'dialect': 'mindsdb', 'fires': f'"{disp}"' in msg, 'observed': msg[-200:], 'expected': f'no suggestion {disp!r} (the table has no action for {tok} in state {s})'}
        rep.failed('C19.expected.mindsdb', 'lrtab', f'{len(bad)} end-of-input suggestions have no action in their state row (e.g. state {s}: {disp!r})', function=fn,
                   clause='forall states: every concrete end-of-input suggestion is a token with a shift/reduce action in that state', replay=rp)
    else:
        rep.proved('C19.expected.mindsdb', 'lrtab', f'{n_rows} state rows produce end-of-input suggestions; each suggested token has a non-None action in its row', function=fn,
                   clause='forall states: every concrete end-of-input suggestion is a token with a shift/reduce action in that state (nonassoc None entries are never displayed)')


def validated_obligation(rep):
    fn = f'{INIT}:ErrorHandling.make_suggestion'

    def make_args(ex):
        selfo = SymObj(None, 'self', prov='param')
        selfo.known_not_none = True
        lexer = SymObj(None, 'lexer', prov='param')
        lexer.known_not_none = True
        selfo.fields['lexer'] = lexer
        toks = [SymObj(None, f'tok{i}', prov='param') for i in range(3)]
        for t_ in toks:
            t_.known_not_none = True
        selfo.fields['tokens'] = ex.param_container(list(toks))
        selfo.fields['bad_token'] = toks[1]
        selfo.fields['expected_tokens'] = ex.param_container(['AAA', 'BBB', 'CCC'])
        for n_, v in (('AAA', r'\bAAA\b'), ('BBB', r'\bBBB\b'), ('CCC', r'\bCCC\b')):
            lexer.fields[n_] = v

        def valid(ex_, a, k):
            ans = ex_.choose(2, 'query_is_valid', ['yes', 'no']) == 0
            ex_.log.append(Event('valid', tokens=a[0], ans=ans))
            return ans
        selfo.fields['query_is_valid'] = Stub(valid, 'query_is_valid')
        ex.path_state.update(toks=toks)
        return [selfo], {}

    def post(ex, o):
        if o.kind != 'return':
            return f'raises {o.value.__name__}'
        sug = o.value
        calls = [e for e in o.log if e.kind == 'valid']
        for s in sug:
            # some validation call that contains the synthetic token with this value answered yes
            ok = False
            for c in calls:
                vals = [getattr(t, 'fields', {}).get('value') for t in c.tokens if isinstance(t, SymObj)]
                if c.ans and s in vals:
                    ok = True
            if not ok:
                return f'suggestion {s!r} is emitted without a successful validation'
        for c in calls:
            synth = [t for t in c.tokens if isinstance(t, SymObj) and t not in o.state['toks']]
            if len(synth) != 1:
                return 'a validation run does not contain exactly one synthetic token'
            rest = [t for t in c.tokens if t in o.state['toks']]
            if rest != o.state['toks'] and rest != [o.state['toks'][0], o.state['toks'][2]] and rest != o.state['toks'][1:]:
                return f'validation run uses tokens {rest!r}: neither insertion before the bad token nor substitution'
        return None
    v = pysym.verify(INIT, 'ErrorHandling.make_suggestion', make_args, post)
    clause = 'ensures (2..19 candidates, bad token present) every returned suggestion made query_is_valid true, on the token list with the suggestion inserted before / substituted at the error position'
    if v.status == PROVED:
        rep.proved('C19.validated', 'pysym', v.detail, function=fn, clause=clause, seconds=v.seconds)
    elif v.status == FAILED:
        rep.failed('C19.validated', 'pysym', v.detail, function=fn, clause=clause, replay=None)
    else:
        rep.undecided('C19.validated', 'pysym', v.detail, function=fn, clause=clause)


# ------------------------------------------------------------------ bounded
def layouts(tokens_text):
    yield 'one-line', ' '.join(tokens_text)
    if len(tokens_text) > 3:
        k = len(tokens_text) // 2
        yield 'two-lines', ' '.join(tokens_text[:k]) + '\n  ' + ' '.join(tokens_text[k:])
        yield 'comment', ' '.join(tokens_text[:k]) + ' -- note\n\n' + ' '.join(tokens_text[k:])
        yield 'indent', '   ' + ' '.join(tokens_text[:1]) + '\n' + ' '.join(tokens_text[1:k]) + '\n\t' + ' '.join(tokens_text[k:])


def suggestions_of(msg):
    m = re.search(r'(?:Possible inputs|Expected symbol): (.*)$', msg, re.S)
    if not m:
        return []
    return re.findall(r'"((?:[^"\\]|\\.)*)"', m.group(1)) or []


def eof_suggestion_obligations(rep):
    """end-of-input suggestions, decided over the parsing table instead of sampled: for EVERY state of the generated automaton that has a viable prefix, the
    statement that ends there is given to the real parse_sql; each concrete keyword it suggests must be taken as the next token by an independent
    table-driven LR simulation (a row of an LALR table lists look-aheads of pending reductions that are refused once the reductions are done)"""
    d = lrtab.load('mindsdb')
    fn = f'{INIT}:ErrorHandling.make_suggestion'
    n_states = n_msgs = n_sug = 0
    bad = []
    for s_ in range(len(d.action)):
        pre = d.viable_prefix(s_)
        if not pre:
            continue
        text = d.text_for(pre)
        if text is None:
            continue
        n_states += 1
        msg = message_of(text)
        if not msg or 'unexpected end of query' not in msg:
            continue
        n_msgs += 1
        kinds = d.lex_kinds(text)
        if kinds is None:
            continue
        for sg in suggestions_of(msg):
            if sg.startswith('['):
                continue
            sk = d.lex_kinds(sg)
            if not sk or len(sk) != 1:
                continue
            n_sug += 1
            if not lrtab.lr_first_error(d, kinds + sk)[0] > len(kinds):
                bad.append((text, sg))
    clause = 'forall states with a viable prefix p: every keyword suggested for `p <end of input>` is shifted after p (independent LR simulation over the generated tables)'
    rep.census['eof_suggestion_states'] = n_states
    rep.census['eof_suggestion_messages'] = n_msgs
    rep.census['eof_suggestions_checked'] = n_sug
    if n_sug == 0:
        rep.undecided('C19.eof.viable.mindsdb', 'lrtab', f'no end-of-input suggestion could be examined ({n_states} states, {n_msgs} messages)', function=fn, clause=clause)
    elif not bad:
        rep.proved('C19.eof.viable.mindsdb', 'lrtab', f'{n_sug} suggestions of {n_msgs} end-of-input messages ({n_states} states with a viable prefix): each is the next token of a longer viable prefix', function=fn, clause=clause)
    else:
        text, sg = bad[0]
        rep.failed('C19.eof.viable.mindsdb', 'lrtab', f'{len(bad)} of {n_sug} end-of-input suggestions cannot follow, e.g. `{text}` suggests "{sg}"', function=fn, clause=clause,
                   replay={'input': text, 'dialect': 'mindsdb', 'fires': True, 'strict': True, 'observed': f'suggests "{sg}", which the parser refuses right there', 'expected': 'only tokens that can follow'})


def bounded(rep, tier):
    rnd = random.Random(int(os.environ.get('VERIF_SEED', '0') or 0))
    d = lrtab.load('mindsdb')
    lx = d.lexemes()
    sents = [sql for n_, sql in corpus.production_sentences('mindsdb')]
    sents = sents[::8] if tier == 'quick' else sents[::2]
    kinds_all = sorted(lx)
    n = 0
    fails = {}
    for sql in sents:
        toks = sql.split()
        if len(toks) < 2:
            continue
        muts = []
        for _ in range(2 if tier == 'quick' else 6):
            i = rnd.randrange(len(toks))
            m = rnd.choice(['del', 'dup', 'rep', 'ins', 'trunc'])
            t = list(toks)
            if m == 'del':
                del t[i]
            elif m == 'dup':
                t.insert(i, t[i])
            elif m == 'rep':
                t[i] = lx[rnd.choice(kinds_all)]
            elif m == 'ins':
                t.insert(i, lx[rnd.choice(kinds_all)])
            else:
                t = t[:max(1, i)]
            muts.append((m, t))
        for mname, t in muts:
            for lname, text in layouts(t):
                n += 1
                try:
                    ok, why = caret_check(text)
                except Exception as e:
                    ok, why = False, f'{type(e).__name__}: {e}'
                    msg0 = message_of(text)
                    if msg0 is not None and not msg0.startswith(('Syntax error', 'Illegal')):
                        ok = None
                if ok is False:
                    fails.setdefault(f'C19.bounded.caret.{lname}.{classify_tokens(text)}', (text, why[:300]))
                # suggestions
                msg = message_of(text)
                if not msg or not msg.startswith('Syntax error'):
                    continue
                stext = re.sub(r'[\s;]+$', '', text)
                ltoks = list(d.Lexer().tokenize(stext))
                kinds = [x.type for x in ltoks]
                v, _acc = lrtab.lr_first_error(d, kinds)
                for sg in suggestions_of(msg):
                    if sg.startswith('['):
                        continue
                    sk = d.lex_kinds(sg)
                    if not sk or len(sk) != 1:
                        continue
                    ins = kinds[:v] + sk + kinds[v:]
                    sub = kinds[:v] + sk + kinds[v + 1:]
                    if not (lrtab.lr_first_error(d, ins)[0] > v or lrtab.lr_first_error(d, sub)[0] > v):
                        kind = 'single-unvalidated' if 'Expected symbol' in msg else ('eof-list-unvalidated' if v >= len(kinds) else 'validated')
                        fails.setdefault(f'C19.bounded.suggestion.{kind}', (text, f'suggested "{sg}" neither inserted before nor substituted for the offending token lets parsing proceed; message: {msg[-160:]}'))
    # lexical errors: an illegal character after every kind of multi-line prefix; the message must show the line that holds it with the caret under it
    prefixes = {
        'plain': 'select a,\n  b', 'blank-lines': 'select a\n\n\n ,b', 'line-comment': 'select a -- c\n, b',
        'multiline-string': "select 'first\nsecond' as s,\n  b", 'block-comment': 'select /* x\n y */ a,\n b', 'is-not-split': 'select a from t where a is\n   not null and\n b',
        'not-in-split': 'select a from t where a not\n in (1) and\n b', 'one-line': 'select a, b',
    }
    for pname, pre in prefixes.items():
        for tail in (' # c', '\n # c', ' = 1 and\n c # d'):
            text = pre + tail
            n += 1
            msg = message_of(text) or ''
            if not msg.startswith('Illegal'):
                continue
            lines_ = msg.split('\n')
            shown = [l[1:] for l in lines_ if l.startswith('>')]
            car = [l for l in lines_ if l and set(l) <= {'-', '^'} and '^' in l]
            real_line = text[:text.index('#')].count('\n')
            want_line = text.split('\n')[real_line]
            col = len(text[:text.index('#')].split('\n')[-1])
            ok = bool(shown) and shown[-1] == want_line and bool(car) and len(car[0]) - 1 == col + 1      # the shown line carries a '>' prefix
            if not ok:
                cls_ = 'first-line-of-many' if (real_line == 0 and '\n' in text) else pname
                fails.setdefault(f'C19.bounded.lexerr.{cls_}', (text, f'message shows {shown} with the caret under column {len(car[0]) - 2 if car else None} of the shown text; the character is at column {col} of line {real_line + 1} `{want_line}`'))
    rep.bounded_evals = n
    rep.bounded_rule = ('production sentences with one random token deleted / duplicated / replaced / inserted or truncated, in one-line, two-line, comment and indented layouts: carets must mark '
                        'the first token after the longest viable prefix (independent table-driven LR simulation), each concrete suggestion must extend the viable prefix when inserted or substituted')
    for cid, (inp, obs) in sorted(fails.items()):
        rep.add_bounded(Bounded(cid, False, inp, obs, 'located error and helpful suggestions', bound='mutated production sentences'))


def classify_tokens(text):
    """cause class of a caret failure: the message is rebuilt from token VALUES, so any token whose value differs from its raw text (variables lose '@', strings are
    unescaped, ...) shifts what the carets mark - one defect (`rewritten-token`); a token spanning lines is a second one (`multiline-token`); anything else is `plain`"""
    d = lrtab.load('mindsdb')
    try:
        stext = re.sub(r'[\s;]+$', '', text)
        toks = list(d.Lexer().tokenize(stext))
        if any('\n' in stext[t.index:t.end] for t in toks):
            return 'multiline-token'
        if any(str(t.value) != stext[t.index:t.end] for t in toks):
            return 'rewritten-token'
    except Exception:
        return 'lexerror'
    return 'plain'


def line_structure_obligations(rep):
    """error_location rebuilds the source lines from token.lineno; that is the source's line structure only if (a) the text the lexers drop between
    tokens is comments / white space whose line breaks are counted - a `--` comment ends BEFORE its line break - and (b) no token function that
    returns a token moves the line counter (both are regular-language / census obligations shared with C16)"""
    from vlib import lexmodel
    import ast as _ast
    for dname in lrtab.DIALECTS:
        d = lrtab.load(dname)
        L = d.Lexer
        fn_ = f'{d.lexer_module}:{d.lexer_class_name}'
        probs = lexmodel.ignore_rule_problems(L)
        clause = 'a line comment contains no line break, a block comment is the shortest /* ... */, anything else that is dropped is white space'
        if not probs:
            rep.proved(f'C19.lines.ignore.{dname}', 'fst', 'every ignore rule matches only comments / white space; line comments stop before the line break', function=fn_, clause=clause)
        for name, w, text in probs:
            inp = f'select a {w}from from t' if w else None
            obs = text
            fires = bool(w)
            if inp:
                try:
                    from mindsdb_sql import parse_sql
                    parse_sql(inp, dialect=dname)
                    fires = False
                    obs = 'accepted'
                except Exception as e:
                    msg = str(e)
                    fires = not any(l.strip('> ').startswith('from from t') for l in msg.splitlines()) if dname == 'mindsdb' else bool(w)
                    obs = msg[:200]
            rep.failed(f'C19.lines.ignore.{dname}.{name}', 'fst', text, function=fn_, clause=clause,
                       replay={'input': inp, 'dialect': dname, 'fires': fires, 'observed': obs, 'expected': 'the error line `from from t` shown on its own'})
        bad = []
        for name, f in sorted(L._token_funcs.items()):
            try:
                fds = repo.find_functions(f.__module__, f.__qualname__)
            except Exception:
                continue
            for fd in fds:
                if any(isinstance(n, _ast.Return) and n.value is not None for n in _ast.walk(fd)):
                    for n in _ast.walk(fd):
                        tg = n.targets if isinstance(n, _ast.Assign) else ([n.target] if isinstance(n, _ast.AugAssign) else [])
                        if any(isinstance(t, _ast.Attribute) and t.attr == 'lineno' for t in tg):
                            bad.append((name, _ast.unparse(n)))
        if bad:
            rep.failed(f'C19.lines.lineno.{dname}', 'frames', f'token function {bad[0][0]} writes the line counter (`{bad[0][1]}`)', function=fn_,
                       clause='token functions that return a token leave lineno alone', replay=None)
        else:
            rep.proved(f'C19.lines.lineno.{dname}', 'frames', 'no token-returning function writes lineno', function=fn_, clause='token functions that return a token leave lineno alone')


def check(rep, tier):
    from vlib import statecensus
    statecensus.obligations(rep, 'C19', 'parser')
    line_structure_obligations(rep)
    rep.dropped = 'loop bodies / statement ranges of error_location are executed from their AST; make_suggestion executed whole; token and LALR tables from the imported classes'
    rep.assume('tokenizer contract (indices increase, tokens do not overlap)', 'reduce entries of LALR rows may carry spurious look-aheads: their suggestions are only replayed (bounded)',
               'the composition of the per-iteration lemmas into "carets under the token" is a paper argument (recorded in DESIGN §4 C19)')
    rep.trust('pysym executor', 'z3 sequence theory', 'lr_first_error LR simulation (vlib/lrtab.py) over the regenerated tables as oracle of the bounded stand-in')
    caret_obligations(rep)
    caret_len_obligations(rep)
    lexerr_obligations(rep)
    display_obligations(rep)
    expected_obligations(rep)
    validated_obligation(rep)
    eof_suggestion_obligations(rep)
    # a suggestion is validated by re-parsing: the verdict of that re-parse is the driver's (C05.drv.*) only under the driver's precondition at this call site
    from contracts import C05_driver
    C05_driver.callsite_obligations(rep, prefix='C19.validated.stream')
    bounded(rep, tier)
    rep.notes.append('Position arithmetic proved per iteration; suggestion sources checked exhaustively; see known findings.')
