"""C05.drv.* — the SLY driver loop (sly.yacc:Parser.parse), proved on its real body.

Method: inductive invariant by abstract fixpoint.  The body of the `while True:` loop of Parser.parse is executed
symbolically (pysym) from every reachable *abstract state*

    (lookahead kind, |lookaheadstack|, token iterator exhausted, errored, errorcount, errorok, |statestack| == 1, state == 0)

with tables, stacks and the error() callback replaced by contract stubs whose clauses are exactly the table facts
proved in C05.tab.* and the callback contracts proved in C05.err.*.  Every path of the body yields a successor
abstract state, a return or a raise; the reachable set is computed to a fixpoint and on it we check

  drv.moves    every iteration is a table-directed shift / reduce / accept or an error step; tokens are pulled only
               through next(tokens) and each pulled token is recorded in used_tokens; nothing typed 'error' is pushed
  drv.errored  once the error branch was taken (ghost `errored`), the run can only return None or raise.
"""
import ast
import z3
from vlib import repo, pysym, lrtab
from vlib.core import PROVED, FAILED, UNDECIDED
from vlib.pysym import SymObj, SymSeq, SymVal, Stub, Event, Unsupported, ModelObj, SymRaise, PathLimit
from vlib.pysym.executor import Executor, Env, ReturnSig, ContinueSig, BreakSig, ExcVal

LA_KINDS = ('none', 'tok', 'end', 'err')


class AState(tuple):
    FIELDS = ('la', 'las', 'exhausted', 'errored', 'errorcount', 'errorok', 'depth1', 'state0')

    def __new__(cls, **kw):
        return tuple.__new__(cls, tuple(kw[f] for f in cls.FIELDS))

    def __getattr__(self, n):
        return self[self.FIELDS.index(n)]

    def d(self):
        return dict(zip(self.FIELDS, self))

    def __repr__(self):
        return 'A(' + ', '.join(f'{k}={v}' for k, v in self.d().items()) + ')'


class AbsStack(ModelObj):
    """stack with symbolic height; `top` is tracked when known"""

    def __init__(self, ex, label, n, elem):
        self.ex, self.label, self.n, self.elem = ex, label, n, elem
        self.top = None
        self.pushed = []

    def m_getattr(self, ex, name):
        if name == 'append':
            def app(ex_, a, k):
                self.n = self.n + 1
                self.top = a[0]
                self.pushed.append(a[0])
            return Stub(app, f'{self.label}.append')
        if name == 'pop':
            def pop(ex_, a, k):
                if a:
                    raise Unsupported('stack.pop(i)')
                if not ex_.branch(self.n >= 1, f'{self.label} non-empty'):
                    raise SymRaise(IndexError, ('pop from empty list',))
                v = self.top if self.top is not None else self.elem(ex_, f'{self.label}[top]')
                self.n = self.n - 1
                self.top = None
                return v
            return Stub(pop, f'{self.label}.pop')
        raise Unsupported(f'{self.label}.{name}')

    def _neg(self, ex, idx):
        """idx must be a negative index (-1 or -plen with plen >= 1)"""
        if isinstance(idx, int):
            if idx >= 0:
                raise Unsupported('non-negative stack index')
            if not ex.branch(self.n >= -idx, f'{self.label} height >= {-idx}'):
                raise SymRaise(IndexError, ('list index out of range',))
            return -idx
        if isinstance(idx, SymVal):
            ok, _ = ex.valid(idx.t < 0)
            if not ok:
                raise Unsupported('stack index of unknown sign')
            if not ex.branch(self.n >= -idx.t, f'{self.label} height >= k'):
                raise SymRaise(IndexError, ('list index out of range',))
            return -idx.t
        raise Unsupported('stack index')

    def m_getitem(self, ex, idx):
        if isinstance(idx, slice):
            if idx.stop is None and idx.step is None and idx.start is not None:
                return SymSeq(ex.fresh_name(f'{self.label}[slice]'), self.elem, prov='fresh')
            raise Unsupported('stack slice')
        k = self._neg(ex, idx)
        if isinstance(k, int) and k == 1:
            if self.top is None:
                self.top = self.elem(ex, f'{self.label}[-1]')
            return self.top
        return self.elem(ex, ex.fresh_name(f'{self.label}[-k]'))

    def m_delitem(self, ex, idx):
        if isinstance(idx, slice) and idx.start is None and idx.stop is None:
            self.n = z3.IntVal(0)
            self.top = None
            return
        if isinstance(idx, slice) and idx.stop is None and idx.step is None and isinstance(idx.start, SymVal):
            k = -idx.start.t
            # C05.tab.shape: a reduction pops exactly its right-hand side and the state below exists
            ex.assume(self.n - k >= 1)
            ex.used_facts.add('C05.tab.shape')
            self.n = self.n - k
            self.top = None
            return
        raise Unsupported('del on stack')

    def m_len(self, ex):
        return SymVal('int', self.n)


class Table(ModelObj):
    def __init__(self, kind):
        self.kind = kind

    def m_getitem(self, ex, idx):
        if self.kind == 'actions':
            return Row('action', idx)
        if self.kind == 'goto':
            return Row('goto', idx)
        if self.kind == 'prod':
            p = SymObj(None, ex.fresh_name('production'), prov='param')
            p.known_not_none = True
            p.fields['name'] = pysym.mk_str(ex.fresh_name('pname'))
            ex.assume(p.fields['name'].t != z3.StringVal('error'))
            ex.used_facts.add('C05.tab.noerror')
            plen = pysym.mk_int(ex.fresh_name('plen'))
            ex.assume(plen.t >= 0)
            p.fields['len'] = plen
            # C05.tab.shape: in a state that reduces by p the stack ends with rhs(p) and the state below exists
            ex.assume(ex.drv['statestack'].n - plen.t >= 1)
            ex.assume(ex.drv['symstack'].n - plen.t >= 1)
            ex.used_facts.add('C05.tab.shape')
            p.fields['namemap'] = SymObj(None, 'namemap', prov='param')

            def action(ex_, a, k):
                ex_.log.append(Event('action'))
                if ex_.choose(2, 'action', ['returns', 'raises']) == 1:
                    from mindsdb_sql.exceptions import ParsingException
                    raise SymRaise(ParsingException, ('raised by a grammar action',))
                v = SymObj(None, ex_.fresh_name('value'), prov='fresh')
                return v
            p.fields['func'] = Stub(action, 'p.func')
            return p
        if self.kind == 'defaulted':
            t = pysym.mk_int(ex.fresh_name('t_default'))
            ex.assume(t.t < 0)      # C05.tab.defaulted
            ex.used_facts.add('C05.tab.defaulted')
            return t
        raise Unsupported('table')

    def m_contains(self, ex, item):
        assert self.kind == 'defaulted'
        if is_zero(ex, item):
            ex.used_facts.add('C05.tab.noeps')
            return False                       # C05.tab.noeps: state 0 is not defaulted
        return ex.choose(2, 'state defaulted', ['no', 'yes']) == 1


def is_zero(ex, v):
    if isinstance(v, int):
        return v == 0
    ok, _ = ex.valid(v.t == 0)
    return ok


class Row(ModelObj):
    def __init__(self, kind, state):
        self.kind, self.state = kind, state

    def m_getattr(self, ex, name):
        if self.kind == 'action' and name == 'get':
            return Stub(self.get, 'row.get')
        if self.kind == 'action' and name == 'keys':
            return Stub(lambda ex_, a, k: [], 'row.keys')
        raise Unsupported(f'row.{name}')

    def m_iter(self, ex):
        # iterating an action row yields its keys (only used to build the `expected_tokens` hint for error())
        if self.kind == 'action':
            return []
        raise Unsupported('iteration over a goto row')

    def get(self, ex, a, k):
        ltype = a[0]
        if isinstance(ltype, str):
            if ltype == 'error':
                ex.used_facts.add('C05.tab.noerror')
                return None                                   # C05.tab.noerror
            if ltype == '$end':
                if is_zero(ex, self.state):
                    ex.used_facts.add('C05.tab.noeps')
                    return None                               # C05.tab.noeps
                c = ex.choose(3, 'action[$end]', ['none', 'reduce', 'accept'])   # C05.tab.accept: no shift on $end
                ex.used_facts.add('C05.tab.accept')
                if c == 0:
                    return None
                if c == 2:
                    return 0
                t = pysym.mk_int(ex.fresh_name('t'))
                ex.assume(t.t < 0)
                return t
            raise Unsupported('concrete token type')
        c = ex.choose(3, 'action[tok]', ['none', 'shift', 'reduce'])             # C05.tab.accept: 0 only on $end
        ex.used_facts.add('C05.tab.accept')
        if c == 0:
            return None
        t = pysym.mk_int(ex.fresh_name('t'))
        ex.assume(t.t > 0 if c == 1 else t.t < 0)
        return t

    def m_getitem(self, ex, idx):
        if self.kind == 'goto':
            s = pysym.mk_int(ex.fresh_name('goto'))
            ex.assume(s.t > 0)                                # C05.tab.initial: no edge enters state 0
            ex.used_facts.add('C05.tab.initial')
            return s
        raise Unsupported('row subscript')


def new_token(ex, label):
    t = SymObj(None, label, prov='fresh')
    t.known_not_none = True
    t.truth_known = True
    tt = pysym.mk_str(ex.fresh_name('toktype'))
    ex.assume(tt.t != z3.StringVal('$end'))
    ex.assume(tt.t != z3.StringVal('error'))
    t.fields.update(type=tt, value=pysym.mk_str(ex.fresh_name('tokval')), lineno=pysym.mk_int(ex.fresh_name('lineno')),
                    index=pysym.mk_int(ex.fresh_name('index')), end=pysym.mk_int(ex.fresh_name('end')))
    t.is_token = True
    return t


def stack_elem(ex, label):
    s = SymObj(None, label, prov='param')
    s.known_not_none = True
    s.truth_known = True
    tt = pysym.mk_str(ex.fresh_name('symtype'))
    ex.assume(tt.t != z3.StringVal('error'))          # invariant noerrsym (checked on every push)
    s.fields.update(type=tt, value=SymObj(None, label + '.value', prov='param'), lineno=pysym.mk_int(ex.fresh_name('ln')),
                    index=pysym.mk_int(ex.fresh_name('ix')), end=pysym.mk_int(ex.fresh_name('en')))
    return s


def concretise(ex, A, mode):
    """heap + locals for abstract state A.  mode: 'mindsdb' (error() returns None after draining, or raises) or
    'raising' (error() always raises)."""
    from sly.yacc import Parser, YaccSymbol, YaccProduction, ERROR_COUNT
    import sly.yacc as Y
    ex.used_facts = getattr(ex, 'used_facts', set())
    g = ex.ghost = {'exhausted': A.exhausted, 'errored': A.errored, 'pulled': [], 'error_calls': 0}
    selfo = SymObj(None, 'self', prov='param')
    selfo.known_not_none = True
    selfo.closed = True
    tokens = SymObj(None, 'tokens', prov='param')
    tokens.known_not_none = True

    def next_stub(ex_, it, rest, kw):
        if it is not tokens:
            raise Unsupported('next() on something else than the token stream')
        if g['exhausted']:
            return rest[0] if rest else None
        if ex_.choose(2, 'next(tokens)', ['token', 'exhausted']) == 0:
            t = new_token(ex_, ex_.fresh_name('tok'))
            g['pulled'].append(t)
            return t
        g['exhausted'] = True
        return rest[0] if rest else None
    ex.method_stubs['__next__'] = next_stub
    n_state = z3.Int('n_statestack')
    ex.assume(n_state == 1 if A.depth1 else n_state >= 2)
    n_sym = z3.Int('n_symstack')
    ex.assume(n_sym == n_state)
    statestack = AbsStack(ex, 'statestack', n_state, lambda e, l: pysym.mk_int(e.fresh_name('st')))
    if A.depth1:
        statestack.top = 0            # part of the invariant: the bottom entry is state 0 (restart())
    symstack = AbsStack(ex, 'symstack', n_sym, stack_elem)
    if A.state0:
        state = 0
    else:
        state = pysym.mk_int('state')
        ex.assume(state.t > 0)
    used = []
    selfo.fields.update(tokens=tokens, used_tokens=used, statestack=statestack, symstack=symstack, state=state,
                        _line_positions=pysym.SymDictU('line_positions', None, None), _index_positions=pysym.SymDictU('index_positions', None, None),
                        production=None)
    if A.errorok != 'unset':
        selfo.fields['errorok'] = A.errorok

    def error_stub(ex_, a, k):
        g['error_calls'] += 1
        g['errored'] = True
        ex_.log.append(Event('error', token=a[0] if a else None))
        from mindsdb_sql.exceptions import ParsingException
        if mode == 'raising':
            raise SymRaise(ParsingException, ('syntax error',))
        if ex_.choose(2, 'error()', ['returns None after draining', 'raises']) == 1:
            raise SymRaise(ParsingException, ('syntax error',))
        g['exhausted'] = True
        return None
    selfo.fields['error'] = Stub(error_stub, 'self.error')
    if A.la == 'none':
        la = None
    elif A.la == 'tok':
        la = new_token(ex, 'lookahead')
    else:
        la = SymObj({YaccSymbol}, 'lookahead', prov='fresh')
        la.closed = True
        la.fields['type'] = '$end' if A.la == 'end' else 'error'
        if A.la == 'err':
            la.fields['value'] = new_token(ex, 'badtok')
    lastack = [new_token(ex, 'badtok_saved') for _ in range(A.las)]
    pslice = SymObj(None, 'pslice', prov='fresh')
    pslice.known_not_none = True
    env = Env(Y)
    env.vars.update(self=selfo, tokens=tokens, lookahead=la, lookaheadstack=lastack, actions=Table('actions'), goto=Table('goto'),
                    prod=Table('prod'), defaulted_states=Table('defaulted'), pslice=pslice, errorcount=A.errorcount,
                    statestack=statestack, symstack=symstack, track_positions=True, errtoken=None)
    ex.self_class = Y.Parser          # helper methods split off the driver loop resolve on the real class
    for name_, attr_ in ALIASES.items():
        if name_ not in env.vars and attr_ in selfo.fields:
            env.vars[name_] = selfo.fields[attr_]
    ex.drv = dict(selfo=selfo, env=env, statestack=statestack, symstack=symstack, used=used, g=g, A=A)
    return env


def abstract(ex, A0):
    """successor abstract state from the current heap (may fork on stack height / state)"""
    d = ex.drv
    env, selfo, g = d['env'], d['selfo'], d['g']
    la = env.vars['lookahead']
    if la is None:
        kind = 'none'
    else:
        ty = la.fields.get('type')
        if ty == '$end':
            kind = 'end'
        elif ty == 'error':
            kind = 'err'
        elif isinstance(ty, SymVal):
            kind = 'tok'
        else:
            raise Unsupported(f'lookahead of unknown kind {la}')
    las = len(env.vars['lookaheadstack'])
    if las > 1:
        raise Unsupported('lookaheadstack deeper than 1')
    ec = env.vars['errorcount']
    if not isinstance(ec, int) or not 0 <= ec <= 3:
        raise Unsupported(f'errorcount {ec}')
    depth1 = ex.branch(d['statestack'].n == 1, 'abstract:|statestack|==1')
    ok, _ = ex.valid(d['statestack'].n >= 1)
    if not ok:
        raise Unsupported('statestack may become empty')
    ok, _ = ex.valid(d['statestack'].n == d['symstack'].n)
    if not ok:
        return ('bad', 'statestack and symstack heights differ')
    st = selfo.fields['state']
    state0 = (st == 0) if isinstance(st, int) else ex.branch(st.t == 0, 'abstract:state==0')
    eo = selfo.fields.get('errorok', 'unset')
    if isinstance(eo, SymVal):
        raise Unsupported('symbolic errorok')
    return AState(la=kind, las=las, exhausted=g['exhausted'], errored=g['errored'], errorcount=ec, errorok=eo, depth1=depth1, state0=state0)


def loop_parts():
    fn = repo.find_function('sly.yacc', 'Parser.parse')
    if fn is None:
        raise Unsupported('sly.yacc:Parser.parse not found')
    loops = [s for s in fn.body if isinstance(s, ast.While)]
    if len(loops) != 1 or not (isinstance(loops[0].test, ast.Constant) and loops[0].test.value is True):
        raise Unsupported('Parser.parse no longer has the single `while True:` driver loop the contract is keyed on')
    i = fn.body.index(loops[0])
    return fn, fn.body[:i], loops[0], fn.body[i + 1:]


ALIASES = {}


def check_prelude(prelude):
    """the statements before the loop establish the initial abstract state (checked by a concrete-heap run)"""
    import sly.yacc as Y
    ex = Executor()
    res = {}

    def run(ex_):
        selfo = SymObj(None, 'self', prov='param')
        selfo.known_not_none = True
        selfo.closed = True
        lrt = SymObj(None, 'lrtable', prov='param')
        lrt.known_not_none = True
        lrt.fields.update(lr_action='ACTION', lr_goto='GOTO', defaulted_states='DEFAULTED')
        gr = SymObj(None, 'grammar', prov='param')
        gr.known_not_none = True
        gr.fields['Productions'] = 'PRODS'
        selfo.fields.update(_lrtable=lrt, _grammar=gr, track_positions=True)
        selfo.cls_set = frozenset({Y.Parser})       # methods (restart) resolved on the real class
        tokens = SymObj(None, 'tokens', prov='param')
        tokens.is_iterator = True          # precondition of parse (C05.drv.pre.*): the argument is an iterator (the loop pulls with next(tokens)); iter(it) is it
        tokens.known_not_none = True
        env = Env(Y)
        env.vars.update(self=selfo, tokens=tokens)
        stmts = [s for s in prelude if not (isinstance(s, ast.Expr) and isinstance(s.value, ast.Constant))]
        ex_.exec_block(stmts, env)
        res['env'], res['self'], res['tokens'] = env, selfo, tokens
        return None
    outs = ex.explore(run)
    if len(outs) != 1 or outs[0].kind != 'return':
        # hasattr(self,'_line_positions') forks: both fine
        if any(o.kind != 'return' for o in outs):
            return f'prelude may raise: {outs}'
    env, selfo = res['env'], res['self']
    v = env.vars
    # local names the prelude binds to the very object stored in a field of self (statestack, symstack, ...): the loop body may use either spelling
    ALIASES.clear()
    for name_, val_ in v.items():
        if name_ in ('self', 'tokens'):
            continue
        for attr_, fv_ in selfo.fields.items():
            if val_ is fv_ and isinstance(val_, (list, dict)):
                ALIASES[name_] = attr_
    problems = []
    if v.get('lookahead') is not None:
        problems.append('lookahead not None')
    if v.get('lookaheadstack') != []:
        problems.append('lookaheadstack not empty')
    if v.get('errorcount') != 0:
        problems.append('errorcount != 0')
    if v.get('actions') != 'ACTION' or v.get('goto') != 'GOTO' or v.get('prod') != 'PRODS' or v.get('defaulted_states') != 'DEFAULTED':
        problems.append('tables are not the generated tables of this parser class')
    if selfo.fields.get('tokens') is not res['tokens']:
        problems.append('self.tokens is not the argument')
    if v.get('tokens') is not res['tokens']:
        problems.append('the stream the loop pulls from is not the object kept in self.tokens (which error() drains)')
    if selfo.fields.get('used_tokens') != []:
        problems.append('used_tokens not empty')
    if selfo.fields.get('statestack') != [0] or selfo.fields.get('state') != 0:
        problems.append(f'statestack/state not initial: {selfo.fields.get("statestack")}')
    ss = selfo.fields.get('symstack')
    if not (isinstance(ss, list) and len(ss) == 1 and ss[0].fields.get('type') == '$end'):
        problems.append('symstack not [$end]')
    if v.get('statestack') is not selfo.fields.get('statestack') or v.get('symstack') is not ss:
        problems.append('local stack aliases differ from self.*')
    return '; '.join(problems) or None


def fixpoint(mode, loop, max_states=400):
    """returns (reachable states, transitions list, problems list)"""
    init = AState(la='none', las=0, exhausted=False, errored=False, errorcount=0, errorok='unset', depth1=True, state0=True)
    seen = {init}
    work = [init]
    trans = []
    problems = []
    facts = set()
    n_paths = 0
    secs = 0.0
    while work:
        A = work.pop()
        ex = Executor(max_paths=3000)
        ex.used_facts = facts

        def run(ex_, A=A):
            env = concretise(ex_, A, mode)
            try:
                ex_.exec_block(loop.body, env)
            except ContinueSig:
                succ = abstract(ex_, A)
                return ('continue', succ, summarise_iter(ex_))
            except ReturnSig as r:
                return ('return', r.v, summarise_iter(ex_))
            raise Unsupported('loop body fell through without continue/return/raise')
        outs = ex.explore(run)
        secs += ex.solver_time
        n_paths += len(outs)
        for o in outs:
            if o.kind == 'raise':
                trans.append((A, 'raise', o.value.__name__, o.choices))
                from mindsdb_sql.exceptions import ParsingException
                if not issubclass(o.value, ParsingException):
                    problems.append(('moves', f'driver raises {o.value.__name__} from {A} [{"; ".join(o.choices[-5:])}]'))
                continue
            tag, val, info = o.value
            trans.append((A, tag, val, o.choices))
            for pr in info['problems']:
                problems.append(('moves', f'{pr} from {A} [{"; ".join(o.choices[-5:])}]'))
            if tag == 'return':
                if info['errored'] and val is not None:
                    problems.append(('errored', f'after the error branch the run can return a value ({val!r}) from {A} [{"; ".join(o.choices[-6:])}]'))
                continue
            if isinstance(val, tuple) and val and val[0] == 'bad':
                problems.append(('moves', val[1]))
                continue
            if val not in seen:
                seen.add(val)
                work.append(val)
                if len(seen) > max_states:
                    raise PathLimit('abstract state space larger than expected')
    return seen, trans, problems, facts, n_paths, secs


def summarise_iter(ex):
    """local move-shape checks of one iteration"""
    d = ex.drv
    g, A = d['g'], d['A']
    problems = []
    # every pulled token is recorded in used_tokens, in order
    if [t for t in d['used'] if t is not None] != g['pulled'] or len(d['used']) > 1:
        problems.append(f'tokens pulled {g["pulled"]} but used_tokens gained {d["used"]}')
    # nothing typed 'error' (or a raw error symbol) is pushed on the symbol stack
    for v in d['symstack'].pushed:
        ty = v.fields.get('type') if isinstance(v, SymObj) else None
        if ty == 'error' or ty is None:
            problems.append(f'pushes {v!r} (type {ty!r}) on the symbol stack')
        elif isinstance(ty, SymVal):
            ok, _ = ex.valid(ty.t != z3.StringVal('error'))
            if not ok:
                problems.append('may push an error-typed symbol')
    # state pushed == self.state
    if d['statestack'].pushed:
        last = d['statestack'].pushed[-1]
        st = d['selfo'].fields['state']
        same = (last is st) or (isinstance(last, SymVal) and isinstance(st, SymVal) and last == st) or last == st
        if not same:
            problems.append(f'pushed state {last!r} differs from self.state {st!r}')
        if len(d['statestack'].pushed) != len(d['symstack'].pushed):
            problems.append('pushes on the two stacks differ in number')
    if g['error_calls'] > 1:
        problems.append('error() called twice in one iteration')
    return {'problems': problems, 'errored': g['errored'], 'pushed': len(d['symstack'].pushed)}


def obligations(rep):
    fnname = 'sly.yacc:Parser.parse,sly.yacc:Parser.restart'
    try:
        fn, prelude, loop, tail = loop_parts()
    except Unsupported as e:
        rep.undecided('C05.drv.shape', 'pysym', str(e), function=fnname)
        return
    try:
        pr = check_prelude(prelude)
    except (Unsupported, PathLimit) as e:
        rep.undecided('C05.drv.init', 'pysym', f'{type(e).__name__}: {e}', function=fnname)
        pr = 'undecided'
    else:
        if pr:
            rep.failed('C05.drv.init', 'pysym', pr, function=fnname, clause='prelude establishes lookahead=None, stacks=[0]/[$end], state=0, errorcount=0, tables = generated tables')
        else:
            rep.proved('C05.drv.init', 'pysym', 'prelude executed on an abstract parser object: initial configuration established', function=fnname,
                       clause='prelude establishes lookahead=None, stacks=[0]/[$end], state=0, errorcount=0, tables = generated tables')
    callsite_obligations(rep)
    # table fact used by the stubs that is not part of the other C05.tab obligations: no edge enters state 0
    for dname in lrtab.DIALECTS:
        d = lrtab.load(dname)
        bad = [(s, a) for s in range(len(d.action)) for a, t in d.action[s].items() if t is not None and t > 0 and t == 0]
        bad += [(s, n) for s in range(len(d.goto)) for n, t in d.goto[s].items() if t == 0]
        shift_end = [s for s in range(len(d.action)) if (d.action[s].get('$end') or 0) > 0]
        if bad or shift_end or 'error' in d.nonterminals:
            rep.failed(f'C05.tab.initial.{dname}', 'lrtab', f'edges into state 0: {bad[:3]}; shifts on $end: {shift_end[:3]}', function='sly.yacc:LRTable.lr_parse_table')
        else:
            rep.proved(f'C05.tab.initial.{dname}', 'lrtab', 'no shift/goto edge enters state 0; $end is never shifted; no nonterminal is named error',
                       function='sly.yacc:LRTable.lr_parse_table', clause='forall s, X: table[s][X] != 0 as a target; table[s][$end] <= 0')
    for mode, dialects in (('mindsdb', ['mindsdb']), ('raising', ['mysql', 'sqlite'])):
        tag = '+'.join(dialects)
        try:
            seen, trans, problems, facts, n_paths, secs = fixpoint(mode, loop)
        except (Unsupported, PathLimit) as e:
            rep.undecided(f'C05.drv.moves.{tag}', 'pysym', f'{type(e).__name__}: {e}', function=fnname)
            rep.undecided(f'C05.drv.errored.{tag}', 'pysym', f'{type(e).__name__}: {e}', function=fnname)
            continue
        rep.census[f'drv.{tag}.abstract_states'] = len(seen)
        rep.census[f'drv.{tag}.body_paths'] = n_paths
        n_ret = sum(1 for t in trans if t[1] == 'return')
        n_acc = sum(1 for t in trans if t[1] == 'return' and t[2] is not None)
        if n_acc == 0:
            rep.failed(f'C05.drv.vacuity.{tag}', 'pysym', 'no reachable accepting transition: the abstraction is vacuous', function=fnname)
        mv = [p for k, p in problems if k == 'moves']
        er = [p for k, p in problems if k == 'errored']
        used = ', '.join(sorted(facts))
        det = f'{len(seen)} reachable abstract states, {n_paths} body paths, {len(trans)} transitions ({n_ret} returns, {n_acc} accepting); table facts used: {used}'
        cl1 = ('every iteration: tokens pulled only via next(tokens) and recorded in used_tokens; pushes on both stacks in lock-step with self.state; '
               'nothing error-typed is pushed; only ParsingException escapes')
        cl2 = 'invariant: errored => (token stream exhausted and the run can only return None or raise); error() contract = C05.err.*'
        if mv:
            rep.failed(f'C05.drv.moves.{tag}', 'pysym', mv[0], function=fnname, clause=cl1, seconds=secs, cex={'all': mv[:10]},
                       replay=_replay(dialects[0]))
        else:
            rep.proved(f'C05.drv.moves.{tag}', 'pysym', det, function=fnname, clause=cl1, seconds=secs)
        if er:
            rep.failed(f'C05.drv.errored.{tag}', 'pysym', er[0], function=fnname, clause=cl2, cex={'all': er[:10]}, replay=_replay(dialects[0]))
        else:
            rep.proved(f'C05.drv.errored.{tag}', 'pysym', det, function=fnname, clause=cl2)


def _replay(dname):
    from contracts.C05 import replay_garbage
    return replay_garbage(dname)


def callsite_obligations(rep, prefix='C05.drv.pre'):
    """precondition of Parser.parse at every call site of the library: the argument is an ITERATOR (the result of `iter(...)`, of a generator function such as
    Lexer.tokenize, or a name bound to one of these).  The driver proof needs it twice: the loop pulls tokens with next(), and error() ends a rejected parse by
    draining `self.tokens` - which is the stream the loop reads only if the argument itself is that stream (`iter(x) is x`).  A list handed to parse() breaks the
    second use: nothing is drained and SLY's recovery goes on parsing what follows the rejected token."""
    import ast as _ast
    from vlib import repo as _repo
    n = 0
    try:
        mods = sorted(set(_repo.all_repo_modules(('mindsdb_sql',))) | {'mindsdb_sql'})
    except Exception:
        mods = ['mindsdb_sql']
    for modname in mods:
        try:
            tree = _repo.module_ast(modname)
        except Exception as e:
            if modname == 'mindsdb_sql':
                rep.undecided(f'{prefix}.callsites', 'pysym', f'{type(e).__name__}: {e}', function=modname)
                return
            continue
        for fn in [x for x in _ast.walk(tree) if isinstance(x, (_ast.FunctionDef, _ast.AsyncFunctionDef))]:
            for call in [c for c in _ast.walk(fn) if isinstance(c, _ast.Call) and isinstance(c.func, _ast.Attribute) and c.func.attr == 'parse' and c.args]:
                recv = _ast.unparse(c_ := call.func.value)
                if 'parser' not in recv.lower():
                    continue
                n += 1

                def is_iter(e, depth=0):
                    if isinstance(e, _ast.Call) and isinstance(e.func, _ast.Name) and e.func.id == 'iter' and len(e.args) == 1:
                        return True
                    if isinstance(e, _ast.Call) and isinstance(e.func, _ast.Attribute) and e.func.attr == 'tokenize':
                        return True                       # a generator function (sly.Lexer.tokenize contains `yield`: C05.lex.*)
                    if isinstance(e, _ast.GeneratorExp):
                        return True
                    if isinstance(e, _ast.Name) and depth < 3:
                        binds = [a.value for a in _ast.walk(fn) if isinstance(a, _ast.Assign) and any(isinstance(t, _ast.Name) and t.id == e.id for t in a.targets)]
                        return bool(binds) and all(is_iter(b, depth + 1) for b in binds)
                    return False
                oid = f'{prefix}.{fn.name}'
                clause = 'requires (Parser.parse) the argument is an iterator: iter(...), a generator, or a name bound to one'
                where = f'{modname}:{fn.name}'
                if is_iter(call.args[0]):
                    rep.proved(oid, 'pysym', f'{recv}.parse({_ast.unparse(call.args[0])})', function=where, clause=clause)
                else:
                    # the argument is built in a way the syntactic reading does not know (a helper, a wrapper class ...): decide on the real code - the two entry
                    # points are run with a recording parser and the object they hand to parse() is inspected (the answer does not depend on the statement)
                    seen = spy_parse_arguments()
                    mine = seen.get(fn.name)
                    if mine is None:
                        rep.undecided(oid, 'pysym', f'{recv}.parse({_ast.unparse(call.args[0])}): not recognised as an iterator and the call was not observed at run time', function=where, clause=clause)
                    elif all(mine):
                        rep.proved(oid, 'pysym', f'{recv}.parse({_ast.unparse(call.args[0])}): observed on the real code: iter(arg) is arg in {len(mine)} call(s)', function=where, clause=clause)
                    else:
                        rep.failed(oid, 'pysym', f'{recv}.parse({_ast.unparse(call.args[0])}): the argument is not an iterator (observed on the real code: iter(arg) is not arg)', function=where, clause=clause, replay=replay_callsite())
    if n == 0:
        rep.undecided(f'{prefix}.callsites', 'pysym', 'no call of <parser>.parse found in mindsdb_sql/__init__.py', function='mindsdb_sql')


def replay_callsite():
    """a rejected statement whose offending token is followed by a complete statement: no suggestion may be one that the parser rejects at the same place"""
    from mindsdb_sql import parse_sql
    import re as _re
    for sql, bad in (('insert into t (a, b select 1', ['(', ',']), ('drop table t x x select 1', None)):
        try:
            parse_sql(sql)
        except Exception as e:
            msg = str(e)
            sug = _re.findall(r'"((?:[^"\\]|\\.)*)"', msg.split('\n')[-1]) if ('Possible inputs' in msg or 'Expected symbol' in msg) else []
            if bad and any(b in sug for b in bad):
                return {'input': sql, 'dialect': 'mindsdb', 'fires': True, 'observed': f'suggestions {sug}', 'expected': 'only suggestions that let parsing proceed (")")'}
    return {'input': None, 'observed': 'no stock input shows it'}


def spy_parse_arguments():
    """runs parse_sql and ErrorHandling.query_is_valid of the real library with a parser object that only records whether the object it is given is an
    iterator (iter(x) is x).  -> {caller function name: [bool, ...]}"""
    import sys as _sys
    import mindsdb_sql as M
    from sly.lex import Token
    out = {}

    class Spy:
        error_info = {'tokens': [], 'bad_token': None, 'expected_tokens': []}

        def __init__(self, who):
            self.who = who

        def parse(self, arg, *a, **k):
            try:
                ok = iter(arg) is arg
            except TypeError:
                ok = False
            out.setdefault(self.who, []).append(ok)
            return object()
    orig = M.get_lexer_parser
    try:
        for d in ('mindsdb', 'mysql', 'sqlite'):
            lexer, _parser = orig(d)
            M.get_lexer_parser = lambda dialect, lexer=lexer: (lexer, Spy('parse_sql'))
            try:
                M.parse_sql('select 1', dialect=d)
            except Exception:
                pass
    finally:
        M.get_lexer_parser = orig
    try:
        lexer, parser = orig('mindsdb')
        eh = M.ErrorHandling(lexer, Spy('query_is_valid'))
        t = Token()
        t.type, t.value, t.index, t.lineno, t.end = 'ID', 'a', 0, 1, 1
        eh.query_is_valid([t, t])
    except Exception:
        pass
    return out
