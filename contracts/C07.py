"""C07 — constants render as inert, exact literals in every output path.

  lit.<path>.<target>.<region>   (fst) forall values v of the region: the text emitted by the path's literal encoder, followed by
                                 anything that is not a quote, is read by the target's lexical rules as exactly one literal whose
                                 value is v.  paths: to_string (Constant.get_string -> own lexer, shared with C04), dml / ddl
                                 (LiteralCompiler.render_literal_value); targets: mysql (backslash escapes + doubling),
                                 postgresql / sqlite / mssql / oracle (doubling only)
  route.*                        (pysym) every Constant reaches sa.literal(value) unchanged; the renderer is created with
                                 paramstyle='named'
Bounded: values x positions x dialects through the real SqlalchemyRender, scanned by an independent target scanner."""
import ast, itertools, re
from vlib import repo, lrtab, codec, pysym
from vlib.core import PROVED, FAILED, UNDECIDED, Bounded, CheckerError
from vlib.fst import Fst, Dfa, FstError, regex_dfa, equivalent, validate
from vlib.pysym import SymObj, SymSeq, SymVal, Stub, Event, Unsupported, PathLimit
from contracts import codecs, C04
from contracts.codecs import ALPHABET, Q, DQ, BS

LEVEL = 'other'
MANIFEST = {
    'engine': 'fst+pysym',
    'level': 'other',
    'technique': 'literal encoders extracted from the real renderer into transducers and composed with explicit target-dialect scanners; identity decided for all strings; routing by symbolic execution',
    'text': 'For the doubling-only targets (postgresql, sqlite, mssql, oracle) the rendered literal is proved exact and inert for all '
            'strings; for the mysql target and for the tree\'s own to_string the obligation fails on values containing a backslash '
            '(genuine defect, e.g. `\\\' OR 1=1 -- `), listed as known findings; so the level is other.',
    'note': 'Assumed: SQLAlchemy routes every literal bind through render_literal_value when literal_binds=True and does not double % '
            'under paramstyle="named" (checked only by the bounded stand-in); target scanners are specifications written from the '
            'dialects\' documented lexical rules (mysql: NO_BACKSLASH_ESCAPES off; postgresql: standard_conforming_strings on).',
}

RENDER = 'mindsdb_sql.render.sqlalchemy_render'
TARGETS = {'mysql': 'backslash', 'postgresql': 'doubling', 'sqlite': 'doubling', 'mssql': 'doubling', 'oracle': 'doubling'}


# ------------------------------------------------------------------ target scanners (specifications)
def target_lang_and_den(kind):
    """(DFA of complete single-quoted literals, denotation transducer) of a target family"""
    A = ALPHABET
    t = Fst(A)
    start, body, esc, closed = t.new(), t.new(), t.new(), t.new()
    t.init = start
    t.add(start, Q, '', body)
    for ch in A:
        if ch == Q:
            t.add(body, ch, '', closed)
        elif ch == BS and kind == 'backslash':
            t.add(body, ch, '', esc)
        else:
            t.add(body, ch, ch, body)
    if kind == 'backslash':
        for ch in A:
            if ch in ('%', '_'):
                t.add(esc, ch, BS + ch, body)       # \% and \_ keep the backslash
            else:
                t.add(esc, ch, ch, body)            # \' \" \\ and unknown escapes drop the backslash (\n, \t ... change the value as well)
    t.add(closed, Q, Q, body)                       # doubled quote
    t.finals[closed] = ['']
    return t.domain(), t


def scan_literal(text, pos, kind):
    """independent scanner used by the bounded stand-in: returns (value, end) of the single-quoted literal at text[pos]"""
    assert text[pos] == "'"
    i = pos + 1
    out = []
    while i < len(text):
        c = text[i]
        if c == "'":
            if i + 1 < len(text) and text[i + 1] == "'":
                out.append("'")
                i += 2
                continue
            return ''.join(out), i + 1
        if c == '\\' and kind == 'backslash' and i + 1 < len(text):
            n = text[i + 1]
            out.append({'n': '\n', 't': '\t', 'r': '\r', '0': '\0', 'b': '\b', 'Z': '\x1a'}.get(n, ('\\' + n) if n in '%_' else n))
            i += 2
            continue
        out.append(c)
        i += 1
    return None, len(text)


# ------------------------------------------------------------------ encoders
def render_encoder(which):
    """transducer of the str branch of LiteralCompiler.render_literal_value inside render_dml_query / render_ddl_query"""
    outer = repo.find_function(RENDER, which)
    if outer is None:
        raise FstError(f'{which} not found')
    inner = [n for n in ast.walk(outer) if isinstance(n, ast.FunctionDef) and n.name == 'render_literal_value']
    if not inner:
        # the compiler subclass may live in a helper shared by the DML and DDL renderers: any override in the module reached from `which`
        called = {c.func.id for c in ast.walk(outer) if isinstance(c, ast.Call) and isinstance(c.func, ast.Name)}
        for fn_ in repo.module_ast(RENDER).body:
            if isinstance(fn_, ast.FunctionDef) and fn_.name in called:
                inner += [n for n in ast.walk(fn_) if isinstance(n, ast.FunctionDef) and n.name == 'render_literal_value']
    if not inner:
        # ... or in a class of the module (a mixin combined with the dialect's compiler inside the helper): every override of the module, when they all
        # have the same body, is the override in force whichever way it is reached
        allov = [n for n in ast.walk(repo.module_ast(RENDER)) if isinstance(n, ast.FunctionDef) and n.name == 'render_literal_value']
        if allov and len({ast.dump(ast.Module(body=n.body, type_ignores=[])) for n in allov}) == 1:
            inner = allov[:1]
    if len(inner) != 1:
        raise FstError(f'{which}: {len(inner)} render_literal_value overrides')
    try:
        return codec.function_transducer(inner[0], ALPHABET, ['value'], result='return', module=RENDER, static=codec.str_value_assumptions(())), inner[0]
    except FstError as e:
        br = C04.branch_function(inner[0], 'isinstance(value, (str')
        if br is None:
            raise FstError(f'{e}; str branch not found either')
        return codec.function_transducer(br, ALPHABET, ['value'], result='return', module=RENDER), inner[0]


def real_render_literal(which, v):
    """runs the real nested method on v (through a real compiler object of the sqlite dialect)"""
    import sqlalchemy as sa
    from sqlalchemy.dialects import sqlite
    m = repo.import_module(RENDER)
    captured = {}
    stmt = sa.select(sa.literal(v))
    sql = getattr(m, which)(stmt if which == 'render_dml_query' else sa.schema.CreateTable(sa.Table('t', sa.MetaData(), sa.Column('c', sa.String, server_default=sa.literal(v)))), sqlite.dialect(paramstyle='named'))
    return sql


def literal_obligations(rep):
    for which, pname in (('render_dml_query', 'dml'), ('render_ddl_query', 'ddl')):
        fn = f'{RENDER}:{which}.LiteralCompiler.render_literal_value'
        try:
            Enc, fd = render_encoder(which)
        except FstError as e:
            for tgt in TARGETS:
                rep.undecided(f'C07.lit.{pname}.{tgt}', 'fst', f'extraction: {e}', function=fn)
            continue
        # engine validation: the real renderer must emit exactly Enc(v) for the dml path (select list position)
        if pname == 'dml':
            for k in range(0, 4):
                for tup in itertools.product(ALPHABET[:6], repeat=k):
                    v = ''.join(tup)
                    sql = real_render_literal(which, v)
                    want = next(iter(Enc.apply(v)))
                    if not sql.startswith('SELECT ' + want):
                        raise CheckerError(f'fst model of {which} disagrees with the real renderer on {v!r}: {sql!r} vs {want!r}')
        follow = Dfa.chars(ALPHABET, [c for c in ALPHABET if c != Q]).concat(codecs.star())
        for tgt, kind in TARGETS.items():
            L, Den = target_lang_and_den(kind)
            for rname, R in C04.value_regions().items():
                oid = f'C07.lit.{pname}.{tgt}.{rname}'
                clause = f'forall v in region: {tgt} reads render_literal_value(v).follow as exactly one literal with value v'
                E = Enc.on_domain(R)
                # the target scanner is deterministic (a quote closes the literal unless the next character is a quote; mysql: a
                # backslash takes the next character): the emitted text followed by a non-quote is one literal iff it is in the
                # scanner's domain, i.e. the run ends in the closed state exactly at the end of the text
                v = C04.bad_inputs(E, L.complement())
                why = None
                if v is not None:
                    txt = next(iter(Enc.apply(v)))
                    why = f'{tgt} does not read the emitted text {txt!r} as one complete literal (it ends early or stays open)'
                else:
                    r = equivalent(E.then(Den), Fst.identity(ALPHABET).on_domain(R))
                    if r[0] is False:
                        v, why = r[1], f'{tgt} reads {next(iter(Enc.apply(r[1])))!r} as {sorted(E.then(Den).apply(r[1]))}'
                    elif r[0] is None:
                        rep.undecided(oid, 'fst', r[1], function=fn, clause=clause)
                        continue
                if why is None:
                    rep.proved(oid, 'fst', 'single, exact literal for every value of the region', function=fn, clause=clause)
                else:
                    rep.failed(oid, 'fst', f'shortest witness value {v!r}: {why}', function=fn, clause=clause, cex={'value': v},
                               replay=replay_render(tgt, v if v is not None else "\\' OR 1=1 -- ", pname))


def replay_render(tgt, v, pname='dml'):
    from mindsdb_sql.render.sqlalchemy_render import SqlalchemyRender
    from mindsdb_sql.parser.ast import Select, Constant, Identifier, BinaryOperation
    q = Select(targets=[Identifier('a')], from_table=Identifier('t'), where=BinaryOperation('=', args=[Identifier('a'), Constant(v)]))
    try:
        sql = SqlalchemyRender(tgt).get_string(q, with_failback=False)
    except Exception as e:
        return {'input': repr(v), 'dialect': tgt, 'fires': True, 'observed': f'{type(e).__name__}: {e}'[:200], 'expected': 'a literal'}
    pos = sql.find("'")
    val, end = scan_literal(sql, pos, TARGETS[tgt]) if pos >= 0 else (None, 0)
    ok = val == v and sql[end:].strip() == ''
    return {'input': repr(v), 'dialect': tgt, 'fires': not ok, 'observed': f'`{sql}` -> {tgt} reads literal {val!r}, then `{sql[end:][:40]}`', 'expected': f'literal {v!r} and nothing after it'}


# ------------------------------------------------------------------ routing
def route_obligations(rep):
    from mindsdb_sql.parser import ast as mast
    fn = f'{RENDER}:SqlalchemyRender.to_expression[Constant]'

    def make_args(ex):
        selfo = SymObj(None, 'self', prov='param')
        selfo.known_not_none = True
        selfo.fields['get_alias'] = Stub(lambda ex_, a, k: pysym.mk_str('alias'), 'get_alias')
        c = SymObj({mast.Constant}, 'const', prov='param')
        val = pysym.mk_str('const.value')
        c.fields.update(value=val, alias=SymObj(None, 'const.alias', prov='param'), parentheses=False, with_quotes=True)

        def literal(ex_, a, k, node=None):
            r = SymObj(None, ex_.fresh_name('literal'), prov='fresh')
            r.known_not_none = True
            ex_.log.append(Event('sa.literal', arg=a[0], extra=(a[1:], k), result=r))
            r.fields['label'] = Stub(lambda e2, a2, k2: (e2.log.append(Event('label', of=r, name=a2[0])), r)[1], 'label')
            return r
        import sqlalchemy as sa
        ex.stubs[(sa.literal.__module__, sa.literal.__qualname__)] = literal
        ex.method_stubs['__str__'] = lambda ex_, obj, a, k: pysym.mk_str(f'str({obj.label})')
        ex.path_state.update(val=val)
        return [selfo, c], {}

    def post(ex, o):
        if o.kind != 'return':
            return f'raises {o.value.__name__}'
        lits = [e for e in o.log if e.kind == 'sa.literal']
        if len(lits) != 1 or lits[0].arg is not o.state['val'] or lits[0].extra != ([], {}):
            return f'the constant does not reach sa.literal(value) unchanged: {lits}'
        if o.value is not lits[0].result:
            return 'the returned element is not the (labelled) literal'
        return None
    v = pysym.verify(RENDER, 'SqlalchemyRender.to_expression', make_args, post)
    clause = 'ensures Constant c  |->  sa.literal(c.value).label(...), value passed unchanged'
    if v.status == PROVED:
        rep.proved('C07.route.constant', 'pysym', v.detail, function=fn, clause=clause, seconds=v.seconds)
    elif v.status == FAILED:
        rep.failed('C07.route.constant', 'pysym', v.detail, function=fn, clause=clause, replay=None)
    else:
        rep.undecided('C07.route.constant', 'pysym', v.detail, function=fn, clause=clause)
    # paramstyle
    fd = repo.find_function(RENDER, 'SqlalchemyRender.__init__')
    calls = [n for n in ast.walk(fd) if isinstance(n, ast.Call) and isinstance(n.func, ast.Name) and n.func.id == 'dialect'] if fd else []
    ok = len(calls) == 1 and [(k.arg, getattr(k.value, 'value', None)) for k in calls[0].keywords] == [('paramstyle', 'named')]
    (rep.proved if ok else rep.failed)('C07.route.paramstyle', 'frames', 'self.dialect = dialect(paramstyle="named")' if ok else 'dialect is not created with paramstyle="named" (percent signs would be doubled)',
                                       function=f'{RENDER}:SqlalchemyRender.__init__', clause='the dialect instance is created with paramstyle="named"')


# ------------------------------------------------------------------ bounded
def bounded(rep, tier):
    from mindsdb_sql.render.sqlalchemy_render import SqlalchemyRender
    from mindsdb_sql.parser.ast import Select, Constant, Identifier, BinaryOperation, Insert, Update, Tuple, Join
    from mindsdb_sql import parse_sql
    chars = ["'", '"', '\\', 'a', ' ', '%', ':', ';', '-', '/', '*', '\n', '`']
    maxlen = 2 if tier == 'quick' else 3
    values = [''.join(t) for k in range(maxlen + 1) for t in itertools.product(chars, repeat=k)]
    values += ["\\' OR 1=1 -- ", "a%b", ":x", "x;y", "-- c", "/* c */", "50%", "%s", ":name"]
    n = 0
    fails = {}
    renders = {t: SqlalchemyRender(t) for t in TARGETS}

    def positions(v):
        c = Constant(v)
        yield 'select-list', Select(targets=[c])
        yield 'where', Select(targets=[Identifier('a')], from_table=Identifier('t'), where=BinaryOperation('=', args=[Identifier('a'), Constant(v)]))
        yield 'in-list', Select(targets=[Identifier('a')], from_table=Identifier('t'), where=BinaryOperation('in', args=[Identifier('a'), Tuple([Constant(v), Constant('z')])]))
        yield 'insert', Insert(table=Identifier('t'), columns=[Identifier('c')], values=[[Constant(v)]])
        try:
            # rows given as plain python values (is_plain): get_string still has to inline them as literals, only get_exec_params may use placeholders
            yield 'insert-plain', Insert(table=Identifier('t'), columns=[Identifier('c')], values=[[v]], is_plain=True)
        except TypeError:
            pass
        yield 'update', Update(table=Identifier('t'), update_columns={'c': Constant(v)}, where=BinaryOperation('=', args=[Identifier('k'), Constant(1)]))
        # a statement the renderer refuses (so that the documented fallback to the tree's own text is what the caller gets)
        yield 'refused-join', Select(targets=[Identifier('a')], from_table=Join(left=Identifier('t1'), right=Identifier('t2'), join_type='RIGHT JOIN',
                                     condition=BinaryOperation('=', args=[Identifier('t1.k'), Identifier('t2.k')])), where=BinaryOperation('=', args=[Identifier('a'), Constant(v)]))
    for v in values:
        reg0 = 'backslash' if '\\' in v else ('squote' if "'" in v else 'other')
        reg = 'backtick' if (reg0 == 'other' and '`' in v) else reg0
        for pos, q in positions(v):
            if tier == 'quick' and pos in ('in-list', 'update', 'refused-join', 'insert-plain') and len(v) > 1:
                continue
            for tgt, kind in TARGETS.items():
                n += 1
                try:
                    sql = renders[tgt].get_string(q, with_failback=False)
                except Exception as e:
                    from sqlalchemy.exc import SQLAlchemyError
                    if not isinstance(e, (SQLAlchemyError, NotImplementedError)):       # refusing to render is C17's business
                        fails.setdefault(f'C07.bounded.{tgt}.{pos}.raises', (repr(v), f'{type(e).__name__}: {str(e)[:80]}'))
                        continue
                    # the translation is refused: with the default fallback the caller receives the tree's own text, adapted for the target;
                    # that text is an output path too and must carry the constant as one exact literal of the target
                    try:
                        fsql = renders[tgt].get_string(q)
                    except Exception:
                        continue
                    j = fsql.find("'")
                    fval, fend = scan_literal(fsql, j, kind) if j >= 0 else (None, 0)
                    if not (fval == v and "'" not in fsql[fend:].replace("'z'", '')):
                        fails.setdefault(f'C07.bounded.fallback.{kind}.{reg}', (repr(v), f'[{tgt} {pos}] fallback text `{fsql[:100]}` -> literal read as {fval!r}'))
                    continue
                i = sql.find("'")
                val, end = scan_literal(sql, i, kind) if i >= 0 else (None, 0)
                rest = sql[end:]
                ok = val == v and "'" not in rest.replace("'z'", '') if pos != 'select-list' else val == v
                if not ok:
                    fails.setdefault(f'C07.bounded.{tgt}.{reg0}', (repr(v), f'[{pos}] `{sql[:100]}` -> literal read as {val!r}, rest `{rest[:30]}`'))
            # the tree's own string, read by the own lexer
            if pos in ('select-list', 'insert'):
                n += 1
                structure = False
                try:
                    text = q.to_string()
                    q2 = parse_sql(text, dialect='mindsdb')
                    if pos == 'select-list':
                        structure = type(q2) is not type(q) or len(q2.targets) != 1
                    else:
                        structure = type(q2) is not type(q) or len(q2.values) != 1 or len(q2.values[0]) != 1
                    got = q2.targets[0].value if pos == 'select-list' else q2.values[0][0].value
                    ok = got == v and not structure
                    obs = f'`{text[:80]}` -> {got!r}'
                except Exception as e:
                    ok, obs, structure = False, f'`{q.to_string()[:80]}` -> {type(e).__name__}', True
                if not ok:
                    # `.structure`: the text is rejected or has another shape (the literal ended early / stayed open); otherwise only the value read back differs
                    fails.setdefault(f'C07.bounded.to_string.{pos}.{reg0}' + ('.structure' if structure else ''), (repr(v), obs))
        # raw python value inside Insert (to_value -> repr)
        n += 1
        structure = False
        try:
            text = Insert(table=Identifier('t'), columns=[Identifier('c')], values=[[v]]).to_string()
            q2 = parse_sql(text, dialect='mindsdb')
            structure = type(q2).__name__ != 'Insert' or len(q2.values) != 1 or len(q2.values[0]) != 1
            got = getattr(q2.values[0][0], 'value', None)
            ok = got == v and not structure
            obs = f'`{text[:80]}` -> {q2.values[0][0]!r}'
        except Exception as e:
            ok, obs, structure = False, f'{type(e).__name__}', True
        if not ok:
            fails.setdefault(f'C07.bounded.to_string.insert-raw-value.{reg0}' + ('.structure' if structure else ''), (repr(v), obs))
    # numeric / boolean constants: each literal of a statement must be rendered as it is rendered alone by a fresh renderer, whatever other constants
    # the statement (or an earlier statement of the same renderer) contains - values that compare equal across types (1, 1.0, True) included
    import re as _re
    mixes = [[1, 1.0, True], [True, 1, 1.0], [1.0, True, 1], [0, 0.0, False], [False, 0.0, 0], [2.0, 2], [2, 2.0], [-1, -1.0], [10, 10.0, 1e1], ['1', 1, 1.0], [1, '1'], [None, 0, False]]
    for tgt in TARGETS:
        def alone(x):
            t = SqlalchemyRender(tgt).get_string(Select(targets=[Constant(x, alias=Identifier('x0'))]), with_failback=False)
            m = _re.search(r'SELECT (.*?) AS "?`?\[?x0', t, _re.S)
            return m.group(1) if m else t
        shared = SqlalchemyRender(tgt)
        for mix in mixes:
            n += 1
            try:
                want = [alone(x) for x in mix]
                t = shared.get_string(Select(targets=[Constant(x, alias=Identifier(f'x{i}')) for i, x in enumerate(mix)]), with_failback=False)
                got = []
                for i in range(len(mix)):
                    m = _re.search((r'SELECT ' if i == 0 else r'x%d[`"\]]?, ' % (i - 1)) + r'(.*?) AS "?`?\[?x%d' % i, t, _re.S)
                    got.append(m.group(1) if m else None)
            except Exception as e:
                from sqlalchemy.exc import SQLAlchemyError
                if not isinstance(e, (SQLAlchemyError, NotImplementedError)):
                    fails.setdefault(f'C07.bounded.{tgt}.mixed-constants.raises', (repr(mix), f'{type(e).__name__}: {str(e)[:80]}'))
                continue
            if got != want:
                fails.setdefault(f'C07.bounded.{tgt}.mixed-constants', (repr(mix), f'`{" ".join(t.split())[:120]}` renders the constants as {got}, alone they render as {want}'))
    # two constants in one statement: how the second one is rendered must not depend on the first (labels of un-aliased constants, post-processing
    # of the whole text, caches): the text after `WHERE x = ` is compared with the same statement whose select list is a plain column
    tricky = ["it's", 'a\nb', 'line1 \n  line2', 'x"y', 'a\\b', '50%', ':p', "''", 'a`b', '-- c', "/* c */ 'q"]
    for tgt in TARGETS:
        for v1 in tricky:
            for v2 in tricky:
                n += 1
                try:
                    w = BinaryOperation('=', args=[Identifier('x'), Constant(v2)])
                    base = SqlalchemyRender(tgt).get_string(Select(targets=[Identifier('a')], from_table=Identifier('t'), where=w), with_failback=False)
                    both = SqlalchemyRender(tgt).get_string(Select(targets=[Constant(v1)], from_table=Identifier('t'), where=BinaryOperation('=', args=[Identifier('x'), Constant(v2)])), with_failback=False)
                except Exception as e:
                    continue
                k1, k2 = base.find('WHERE x = '), both.rfind('WHERE x = ')
                if k1 < 0 or k2 < 0:
                    continue
                if base[k1:] != both[k2:]:
                    fails.setdefault(f'C07.bounded.{tgt}.constant-pair', (repr((v1, v2)), f'with {v1!r} in the select list the condition is rendered `{both[k2:][:80]}`, alone `{base[k1:][:80]}`'))
    # non-string constants: dates / datetimes / intervals must come out as one quoted literal carrying str(value); numbers and booleans as themselves
    import datetime as _dt
    typed = {'date': [_dt.date(2020, 1, 2), _dt.date(1999, 12, 31)], 'datetime': [_dt.datetime(2020, 1, 2, 3, 4, 5), _dt.datetime(2020, 1, 2, 3, 4, 5, 678)],
             'timedelta': [_dt.timedelta(days=1, seconds=5), _dt.timedelta(seconds=90)], 'bool': [True, False], 'int': [0, 7, -5, 12345678901234567890], 'float': [1.5, -0.25, 100.0]}
    for tname, vals in typed.items():
        for v in vals:
            quoted = tname in ('date', 'datetime', 'timedelta')
            for pos, q in positions(v):
                if pos not in ('select-list', 'where', 'insert'):
                    continue
                # own text, read by the own parser
                n += 1
                try:
                    text = q.to_string()
                    q2 = parse_sql(text, dialect='mindsdb')
                    node = q2.targets[0] if pos == 'select-list' else (q2.where.args[1] if pos == 'where' else q2.values[0][0])
                    got = getattr(node, 'value', None)
                    if type(node).__name__ == 'UnaryOperation' and tname in ('int', 'float') and getattr(node, 'op', None) == '-':
                        got = -node.args[0].value
                    want = str(v) if quoted else v
                    ok = type(node).__name__ in ('Constant', 'UnaryOperation') and got == want and type(got) is type(want)
                    obs = f'`{text[:80]}` -> {node!r}'
                except Exception as e:
                    ok, obs = False, f'{type(e).__name__}: {str(e)[:60]}'
                if not ok:
                    fails.setdefault(f'C07.bounded.to_string.type.{tname}', (repr(v), f'[{pos}] {obs}'))
                if not quoted:
                    continue
                for tgt, kind in TARGETS.items():
                    n += 1
                    try:
                        sql = renders[tgt].get_string(q)
                    except Exception as e:
                        fails.setdefault(f'C07.bounded.{tgt}.type.{tname}.raises', (repr(v), f'[{pos}] {type(e).__name__}: {str(e)[:80]}'))
                        continue
                    i = sql.find("'")
                    val, end = scan_literal(sql, i, kind) if i >= 0 else (None, 0)
                    if val != str(v):
                        fails.setdefault(f'C07.bounded.{tgt}.type.{tname}', (repr(v), f'[{pos}] `{sql[:100]}` -> literal read as {val!r}'))
    # rows given as plain python values are the same literals as the constants holding those values: for every target the statement text is the same
    plain_vals = [None, 0, 1, -5, 0.0, 1.5, True, False, '', 'a', "it's", 'NULL', _dt.date(2020, 1, 2), _dt.datetime(2020, 1, 2, 3, 4, 5)]
    for v in plain_vals:
        for other in (7, 'z', None):
            try:
                q_plain = Insert(table=Identifier('t'), columns=[Identifier('c'), Identifier('d')], values=[[v, other]], is_plain=True)
                q_const = Insert(table=Identifier('t'), columns=[Identifier('c'), Identifier('d')], values=[[Constant(v), Constant(other)]])
            except TypeError:
                continue
            for tgt in TARGETS:
                n += 1
                try:
                    a_, b_ = renders[tgt].get_string(q_plain), renders[tgt].get_string(q_const)
                except Exception as e:
                    fails.setdefault(f'C07.bounded.{tgt}.plain-row.raises', (repr((v, other)), f'{type(e).__name__}: {str(e)[:80]}'))
                    continue
                a_, b_ = a_[a_.upper().find('VALUES'):], b_[b_.upper().find('VALUES'):]        # the literals; the statement frame may come from the fallback printer
                if ' '.join(a_.split()) != ' '.join(b_.split()):
                    fails.setdefault(f'C07.bounded.{tgt}.plain-row.{type(v).__name__}', (repr((v, other)), f'row of plain values renders `{a_[:90]}`, the same row of constants `{b_[:90]}`'))
    # a constant inside an expression (cast, unary minus, function argument, operand, BETWEEN bound, CASE, tuple): the literal is the one the constant
    # gives alone - for every target it occurs in the rendered text, and the own text lexes without anything being swallowed (a `--` is a comment)
    from mindsdb_sql.parser import ast as _ast

    def contexts(c):
        yield 'cast-int', _ast.TypeCast(type_name='int', arg=c)
        yield 'cast-float', _ast.TypeCast(type_name='float', arg=c)
        yield 'cast-char', _ast.TypeCast(type_name='char', arg=c)
        yield 'neg', _ast.UnaryOperation(op='-', args=[c])
        yield 'func', _ast.Function(op='abs', args=[c])
        yield 'binop-left', BinaryOperation('+', args=[c, Identifier('a')])
        yield 'binop-right', BinaryOperation('-', args=[Identifier('a'), c])
        yield 'between', _ast.BetweenOperation(args=[Identifier('a'), c, Constant(9)])
        yield 'case', _ast.Case(rules=[[BinaryOperation('=', args=[Identifier('a'), Constant(0)]), c]], default=Constant(0))
        yield 'in-tuple', BinaryOperation('in', args=[Identifier('a'), _ast.Tuple(items=[c, Constant(0)])])
        yield 'in-tuple-second', BinaryOperation('in', args=[Identifier('a'), _ast.Tuple(items=[Constant(2), c])])
        yield 'in-tuple-mixed', BinaryOperation('not in', args=[Identifier('a'), _ast.Tuple(items=[Constant(0), Constant('z'), c, Constant(10)])])
    ctx_vals = [1.5, -5, -2.5, 7, 0.25, 12345678901234567890, 'x', "it's", True]
    lexer_cls = lrtab.load('mindsdb').Lexer
    for v in ctx_vals:
        for cname, node in contexts(Constant(v)):
            q = Select(targets=[node], from_table=Identifier('t'))
            # own text
            n += 1
            try:
                text = q.to_string()
                toks = list(lexer_cls().tokenize(text))
                covered = ''.join(text[t.index:t.end] for t in toks)
                if covered != ''.join(text.split()) and ''.join(covered.split()) != ''.join(text.split()):
                    fails.setdefault(f'C07.bounded.to_string.context.{cname}', (repr(v), f'`{text[:90]}` lexes to `{covered[:90]}`: part of the text is not read as tokens'))
            except Exception as e:
                fails.setdefault(f'C07.bounded.to_string.context.{cname}', (repr(v), f'{type(e).__name__}: {str(e)[:80]}'))
            for tgt in TARGETS:
                n += 1
                try:
                    lone = SqlalchemyRender(tgt).get_string(Select(targets=[Constant(v, alias=Identifier('x0'))]), with_failback=False)
                    m = _re.search(r'SELECT (.*?) AS "?`?\[?x0', lone, _re.S)
                    lit = m.group(1).strip() if m else None
                    sql = SqlalchemyRender(tgt).get_string(q, with_failback=False)
                except Exception as e:
                    continue            # a refusal (or a context this target cannot express) is not a wrong literal
                if lit and lit not in sql:
                    fails.setdefault(f'C07.bounded.{tgt}.context.{cname}', (repr(v), f'alone the constant renders `{lit}`; inside {cname} the statement is `{" ".join(sql.split())[:110]}`'))
    rep.bounded_evals = n
    rep.bounded_rule = (f'constants inside casts / unary minus / functions / operands / BETWEEN / CASE / tuples keep the literal they have alone (5 targets) and their own text lexes completely; all strings of length <= {maxlen} over {chars} plus injection-shaped samples, as Constant in select list / WHERE / IN list / INSERT / UPDATE, '
                        'rendered by the real SqlalchemyRender for 5 dialects and scanned by an independent scanner of the target family; own to_string re-parsed; '
                        'failures grouped by target x value region; date / datetime / timedelta / bool / int / float constants in select list, WHERE and INSERT (own text re-parsed; quoted kinds scanned in every target); mixtures of equal-valued int/float/bool/str/NULL constants in one statement and across statements of one renderer vs each constant rendered alone; INSERT rows of plain python values (None, numbers, booleans, strings, dates) vs the same rows of constants, per target')
    for cid, (inp, obs) in sorted(fails.items()):
        rep.add_bounded(Bounded(cid, False, inp, obs, 'one literal, read back as the value', bound=f'len<={maxlen}'))


def stateless_obligation(rep, prop):
    """a renderer object keeps no state between calls: outside __init__ no method stores to / mutates an attribute of self (so the text rendered for a
    tree cannot depend on what the same renderer rendered before)"""
    from vlib import frames
    sites = frames.self_state_writes(RENDER, 'SqlalchemyRender')
    oid = f'{prop}.stateless'
    clause = 'SqlalchemyRender methods other than __init__ do not write attributes of self (no per-renderer caches or modes)'
    if not sites:
        rep.proved(oid, 'frames', 'no store to / mutation of self.* outside __init__', function=f'{RENDER}:SqlalchemyRender', clause=clause)
    else:
        rep.failed(oid, 'frames', f'per-renderer state written at run time: {[ (s_.where, s_.text) for s_ in sites][:3]}', function=f'{RENDER}:SqlalchemyRender', clause=clause,
                   replay=replay_reused_renderer())


def replay_reused_renderer():
    """history witness: statements rendered by one renderer vs each rendered by a fresh renderer"""
    from mindsdb_sql import parse_sql
    from mindsdb_sql.render.sqlalchemy_render import SqlalchemyRender
    seqs = [['INSERT INTO t (a, b) VALUES (1, 2)', 'INSERT INTO t (b, a) VALUES (10, 20)', 'INSERT INTO t (b) VALUES (7)', 'UPDATE t SET b = 1 WHERE a = 2', 'DELETE FROM t WHERE b = 3'],
            ['SELECT 1, 1.0, true', 'SELECT 1.0, 1, 2', 'SELECT true, 1'], ['SELECT `Order Id` FROM t', 'SELECT a AS `Order Id` FROM `Order Id`'],
            ["SELECT 'a''b', 'c'", "SELECT 'c', 'a''b' FROM t WHERE x = 'c'"]]
    for dn in ('mysql', 'postgresql', 'sqlite', 'mssql'):
        for seq in seqs:
            shared = SqlalchemyRender(dn)
            for i, sql in enumerate(seq):
                try:
                    want = SqlalchemyRender(dn).get_string(parse_sql(sql), with_failback=False)
                    got = shared.get_string(parse_sql(sql), with_failback=False)
                except Exception:
                    continue
                if got != want:
                    return {'input': f'[{dn}] {seq[:i + 1]}', 'dialect': 'mindsdb', 'fires': True, 'observed': f'after {seq[:i]} the renderer gives `{" ".join(got.split())}`', 'expected': f'`{" ".join(want.split())}` (fresh renderer)'}
    return {'input': 'statement sequences on one renderer', 'dialect': 'mindsdb', 'fires': False, 'observed': 'same text as a fresh renderer'}


def check(rep, tier):
    from vlib import statecensus
    statecensus.obligations(rep, 'C07', 'render')
    stateless_obligation(rep, 'C07')
    rep.dropped = 'nested LiteralCompiler.render_literal_value located by name inside render_dml_query / render_ddl_query; str branch extracted by vlib/codec.py'
    rep.assume('SQLAlchemy: literal_binds routes each literal through render_literal_value; named paramstyle does not double %',
               'target scanners (mysql default sql_mode; postgresql standard_conforming_strings=on; sqlite/mssql/oracle: doubling only) are specifications')
    rep.trust('fst back end', 'pysym executor')
    literal_obligations(rep)
    route_obligations(rep)
    # to_string path = C04.enc.mindsdb.Constant.* (own lexer); re-evaluated here so that C07 stands alone
    sub = type(rep)(rep.prop, rep.tier, rep.level)
    C04.encode_constant(sub, 'mindsdb')
    for o in sub.obs:
        o.id = o.id.replace('C04.enc.mindsdb.Constant', 'C07.lit.to_string.own-lexer')
        rep.add(o)
    bounded(rep, tier)
    rep.notes.append('Doubling-only targets proved for all strings; mysql target and own lexer fail on backslashes (known findings).')
