"""C13 — the AST walker (planner.utils.query_traversal) visits every table, expression and sub-query once, in
textual order, with the right flags, and replaces exactly the visited node.

Contract (ghost log): for a node of class C on which the visitor returns None,
    log = [callback(node)] ++ concat(visit(child) for child in Children_C(node) in textual order)
    child slot f is overwritten by the visit's non-None result and by nothing else; no other field is written.
The recursive calls are replaced by the contract stub (induction hypothesis on structurally smaller nodes), list
fields are handled by the uniform-iteration summary.  Children_C and their textual order are *derived from the
real printers*: the real to_string() of sample instances whose children are replaced by hole nodes is executed
and the order of the hole markers is read off (so the spec moves with the printers)."""
import copy, inspect, itertools
from vlib import repo, pysym, corpus, lrtab
from vlib.core import PROVED, FAILED, UNDECIDED, Bounded
from vlib.pysym import SymObj, SymSeq, SymVal, SymDictU, Stub, Event, Unsupported, PathLimit, ForEach

LEVEL = 'other'
MANIFEST = {
    'engine': 'pysym',
    'level': 'other',
    'technique': 'symbolic execution of query_traversal per node class against a visit-log contract; recursion by contract, lists by uniform-iteration summary; spec derived from the real printers; for a class the engine cannot execute, the real walker on every corpus / template statement containing the class (bounded)',
    'text': 'For every ASTNode class the walker is executed symbolically on an arbitrary node of that class (children opaque, lists of '
            'arbitrary length, every None-ness combination) with the recursive calls replaced by the contract. One obligation per '
            '(class, child slot) for coverage, flags, replacement frame and visitor-called-with-None, and per (class, slot pair) for textual '
            'order; all discharged obligations hold for all trees. The unchanged tree violates many of them (genuine defects listed as '
            'known findings, each replayed on a real parsed statement), so the level is other, not proof.',
    'note': 'Assumed: deep structural induction (contract of the recursive call = the contract being proved, on structurally smaller '
            'arguments); child slots and their shapes are discovered from the production-exhaustive corpus and constructor signatures '
            '(a slot never produced by any grammar production would be missed); textual order read from the real printers on hole '
            'children; slot rule: ASTNode-valued non-alias fields of query/DML classes, and query/expression-valued fields of command '
            'classes (object names in commands are not table references).',
}

MODULE = 'mindsdb_sql.planner.utils'
FUNC = 'query_traversal'


# ------------------------------------------------------------------------------------------ spec derivation
def slot_census():
    """(class -> {field: info}) from parsed corpus trees of all dialects: shape, value classes, samples"""
    from mindsdb_sql.parser.ast.base import ASTNode
    cen = {}
    samples = {}
    for dn in lrtab.DIALECTS:
        for src, sql, tree in corpus.parsed(dn):
            for path, n in corpus.walk_nodes(tree):
                C = type(n)
                for k, v in vars(n).items():
                    sh, classes = shape_of(v)
                    if sh is None:
                        continue
                    info = cen.setdefault(C, {}).setdefault(k, {'shapes': set(), 'classes': set()})
                    info['shapes'].add(sh)
                    info['classes'].update(classes)
                sig = tuple(sorted(k for k, v in vars(n).items() if shape_of(v)[0] is not None))
                lst = samples.setdefault(C, {})
                if sig not in lst and len(lst) < 12:
                    lst[sig] = (n, sql, dn)
    return cen, samples


def shape_of(v):
    from mindsdb_sql.parser.ast.base import ASTNode
    if isinstance(v, ASTNode):
        return 'node', {type(v)}
    if isinstance(v, list) and v:
        if all(isinstance(x, ASTNode) for x in v):
            return 'list', {type(x) for x in v}
        if all(isinstance(x, (list, tuple)) and x and all(isinstance(y, ASTNode) for y in x) for x in v):
            return 'list2', {type(y) for x in v for y in x}
    if isinstance(v, dict) and v and all(isinstance(x, ASTNode) for x in v.values()):
        return 'dict', {type(x) for x in v.values()}
    return None, ()


def query_family():
    from mindsdb_sql.parser import ast
    fam = [ast.Select, ast.Union, ast.Intersect, ast.Except, ast.Join, ast.Operation, ast.WindowFunction, ast.TypeCast, ast.Tuple,
           ast.Case, ast.OrderBy, ast.CommonTableExpression, ast.Insert, ast.Update, ast.Delete, ast.CreateTable, ast.NativeQuery]
    return tuple(fam)


def is_query_or_expr(cls):
    from mindsdb_sql.parser import ast
    return issubclass(cls, (ast.Select, ast.Union, ast.Intersect, ast.Except, ast.Operation, ast.Case, ast.TypeCast,
                            ast.Tuple, ast.WindowFunction))


NAME_SLOTS = {('CommonTableExpression', 'name'), ('CommonTableExpression', 'columns'), ('NativeQuery', 'integration'), ('Update', 'from_select_alias'), ('Update', 'keys'), ('Select', 'using')}
# CTE entries are transparent containers: the walker visits their body directly from Select.cte (slot `cte`, sub-field `query`)
TRANSPARENT = ('CommonTableExpression',)
PAIR_SLOTS = {('Case', 'rules')}
TABLE_SLOTS = {('Select', 'from_table'), ('Join', 'left'), ('Join', 'right'), ('Insert', 'table'), ('Update', 'table'),
               ('Delete', 'table'), ('CreateTable', 'name')}
TARGET_SLOTS = {('Select', 'targets')}
# parent_query: a statement (query, DML, DDL, SHOW, SET, ...) is the parent_query of its own children; clause- and expression-level nodes hand down the
# parent_query they were given.  The rule is by kind of node, not by the list of classes the walker happens to have a branch for.
INSIDE_A_STATEMENT = ('Join', 'Operation', 'WindowFunction', 'TypeCast', 'Tuple', 'Case', 'OrderBy', 'CommonTableExpression', 'NativeQuery',
                      'Identifier', 'Constant', 'Parameter', 'Star', 'Latest', 'Data')


def parent_is_self(C):
    return not any(k.__name__ in INSIDE_A_STATEMENT for k in C.__mro__)


def required_slots(C, cen):
    """slots of class C the statement requires the walker to visit (rule in MANIFEST note / DESIGN §4 C13)"""
    out = {}
    fam = issubclass(C, query_family())
    for f, info in cen.get(C, {}).items():
        if f == 'alias' or (C.__name__, f) in NAME_SLOTS:
            continue
        if fam or any(is_query_or_expr(k) for k in info['classes']):
            sh = sorted(info['shapes'])[0] if len(info['shapes']) == 1 else 'mixed'
            if (C.__name__, f) in PAIR_SLOTS:
                sh = 'pairs'
            out[f] = sh
    return out


class _HoleBase:
    pass


def make_hole(label):
    from mindsdb_sql.parser.ast.base import ASTNode

    class Hole(ASTNode, _HoleBase):
        def __init__(self, label):
            super().__init__()
            self.label = label

        def get_string(self, *a, **k):
            return f'⟦{self.label}⟧'

        def to_string(self, *a, **k):
            return f'⟦{self.label}⟧'

        def to_tree(self, *a, **k):
            return f'⟦{self.label}⟧'

        def __str__(self):
            return f'⟦{self.label}⟧'
    return Hole(label)


def textual_order(C, slots, samples):
    """partial order (set of (a, b): a is printed before b) of the slots of C, read from the real printer"""
    import re
    before = set()
    printed = set()
    errors = []
    for sig, (node, sql, dn) in samples.get(C, {}).items():
        n = copy.copy(node) if not hasattr(node, '__deepcopy__') else node.__class__.__new__(node.__class__)
        n.__dict__.update(vars(node))
        alias = {}
        for f, sh in slots.items():
            v = getattr(node, f, None)
            if v is None:
                continue
            if sh == 'node':
                setattr(n, f, make_hole(f))
            elif sh == 'list':
                setattr(n, f, [make_hole(f) for _ in v])
            elif sh in ('list2', 'pairs'):
                setattr(n, f, [[make_hole(f) for _ in row] for row in v])
            elif sh == 'dict':
                setattr(n, f, {k: make_hole(f) for k in v})
        try:
            text = n.to_string()
        except Exception as e:
            errors.append(f'{type(e).__name__}: {e}')
            continue
        seq = []
        for m in re.finditer('⟦(\\w+)⟧', text):
            if m.group(1) not in seq:
                seq.append(m.group(1))
        printed.update(seq)
        for i, a in enumerate(seq):
            for b in seq[i + 1:]:
                before.add((a, b))
    contradictions = {(a, b) for (a, b) in before if (b, a) in before}
    return before - contradictions, printed, errors, contradictions


def aliased_slots(C, samples, slots):
    """slots that hold the very same object as (an element of) another slot, e.g. Exists.query is Exists.args[0]"""
    out = set()
    for sig, (node, sql, dn) in samples.get(C, {}).items():
        for f, sh in slots.items():
            if sh != 'node':
                continue
            v = getattr(node, f, None)
            for g, shg in slots.items():
                if g == f:
                    continue
                w = getattr(node, g, None)
                if shg == 'list' and isinstance(w, list) and any(x is v for x in w):
                    out.add(f)
    return out


def nullable(C, f):
    for K in C.__mro__:
        if '__init__' not in K.__dict__:
            continue
        try:
            sig = inspect.signature(K.__init__)
        except (TypeError, ValueError):
            continue
        p = sig.parameters.get(f)
        if p is not None:
            return p.default is None
    return True


# ------------------------------------------------------------------------------------------ symbolic run
def child_node(ex, label, maybe_none):
    from mindsdb_sql.parser.ast.base import ASTNode
    c = SymObj({ASTNode, type(None)} if maybe_none else {ASTNode}, label, prov='param')
    c.subclass_ok = True
    c.is_child = True
    return c


def run_class(C, slots, all_fields, other_kinds=None, sub_slots=(), top_flags=False):
    other_kinds = other_kinds or {}
    """symbolically executes query_traversal on an arbitrary node of class C. returns (outcomes, executor)"""
    from mindsdb_sql.parser.ast.base import ASTNode

    def make_args(ex):
        node = SymObj({C}, 'node', prov='param')
        st = ex.path_state
        st['node'] = node
        st['children'] = {}

        def oracle(ex_, obj, attr):
            if obj is not node:
                if getattr(obj, 'is_child', False) and attr in sub_slots:
                    c = child_node(ex_, f'{obj.label}.{attr}', False)
                    return c
                raise KeyError(attr)
            sh = slots.get(attr)
            if sh is None:
                if attr in all_fields:
                    # a field outside the spec (non-node values such as TableColumn lists, strings, flags): opaque value of the
                    # container kind seen in the corpus samples
                    kinds = other_kinds.get(attr, set())
                    if list in kinds:
                        if ex_.choose(2, f'node.{attr} is None', ['notNone', 'None']) == 1:
                            return None
                        return SymSeq(f'node.{attr}', lambda e, l: SymObj(None, l, prov='param'), prov='param')
                    if dict in kinds:
                        if ex_.choose(2, f'node.{attr} is None', ['notNone', 'None']) == 1:
                            return None
                        return SymDictU(f'node.{attr}', lambda e, l: pysym.mk_str(l), lambda e, l: SymObj(None, l, prov='param'), prov='param')
                    v = SymObj(None, f'node.{attr}', prov='param')
                    return v
                raise KeyError(attr)
            nl = nullable(C, attr)
            if sh == 'node':
                c = child_node(ex_, f'node.{attr}', nl)
                st['children'][attr] = c
                return c
            if nl and ex_.choose(2, f'node.{attr} is None', ['notNone', 'None']) == 1:
                st['children'][attr] = None
                return None
            if sh == 'list':
                s = SymSeq(f'node.{attr}', lambda e, l: child_node(e, l, False), prov='param')
            elif sh == 'list2':
                s = SymSeq(f'node.{attr}', lambda e, l: SymSeq(l, lambda e2, l2: child_node(e2, l2, False), prov='param'), prov='param')
            elif sh == 'pairs':
                s = SymSeq(f'node.{attr}', lambda e, l: ex_.param_container([child_node(e, l + '.0', False), child_node(e, l + '.1', False)]), prov='param')
            elif sh == 'dict':
                s = SymDictU(f'node.{attr}', lambda e, l: pysym.mk_str(l), lambda e, l: child_node(e, l, False), prov='param')
            else:
                raise Unsupported(f'slot shape {sh}')
            st['children'][attr] = s
            return s
        ex.field_oracle = oracle

        def callback(ex_, a, k):
            ex_.log.append(Event('Callback', node=a[0], is_table=k.get('is_table'), is_target=k.get('is_target'), parent_query=k.get('parent_query'), nargs=len(a)))
            return None
        cb = Stub(callback, 'callback')
        st['callback'] = cb
        pq = SymObj(None, 'parent_query_arg', prov='param')
        st['pq'] = pq

        def rec(ex_, a, k, node_=None):
            names = ['node', 'callback', 'is_table', 'is_target', 'parent_query']
            d = dict(zip(names, a))
            d.update(k)
            child = d.get('node')
            ev = Event('Visit', node=child, is_table=d.get('is_table', False), is_target=d.get('is_target', False),
                       parent_query=d.get('parent_query', None), callback=d.get('callback'))
            ex_.log.append(ev)
            if child is None or (isinstance(child, SymObj) and ex_.is_none(child)):
                ev.none = True
                return None
            if isinstance(child, (SymSeq, list)):
                ev.listarg = True
                return None
            opts = ['keep', 'replace'] + (['replace-by-list'] if d.get('is_target') else [])
            c = ex_.choose(len(opts), f'visit({getattr(child, "label", child)})', opts)
            if c == 0:
                ev.result = None
                return None
            if c == 1:
                r = SymObj({ASTNode}, f'repl({child.label})', prov='fresh')
                r.subclass_ok = True
                r.replaces = child
                ev.result = r
                return r
            r1 = SymObj({ASTNode}, f'repl1({child.label})', prov='fresh')
            r2 = SymObj({ASTNode}, f'repl2({child.label})', prov='fresh')
            r1.subclass_ok = r2.subclass_ok = True
            ev.result = [r1, r2]
            return [r1, r2]
        ex.stubs[(MODULE, FUNC)] = rec
        kw = {'parent_query': pq}
        if top_flags:
            kw.update(is_table=True, is_target=True)      # the node itself sits in table / target position: its children do not inherit that
        return [node, cb], kw
    return pysym.explore_function(MODULE, FUNC, make_args, ex=pysym.Executor(max_paths=6000))


def flatten(log, st):
    """log -> list of visit records: (slot, kind, event, in_loop)"""
    out = []

    def slot_of(child):
        lab = getattr(child, 'label', None)
        if lab is None:
            return None
        if lab.startswith('node.'):
            s = lab[5:]
            for stop in ('[', '.'):
                if stop in s:
                    s = s[:s.index(stop)]
            return s
        return None
    for e in log:
        if e.kind == 'Visit':
            if e.node is None:
                out.append(('?none', e, False))
            else:
                out.append((slot_of(e.node), e, False))
        elif e.kind == 'ForEach':
            def rec(fe, tag):
                for i, (choices, events) in enumerate(fe.paths):
                    for ev in events:
                        if ev.kind == 'Visit':
                            out.append((slot_of(ev.node), ev, tag + (i,)))
                        elif ev.kind == 'ForEach':
                            rec(ev, tag + (i,))
            rec(e, (id(e),))
    return out


def sub_position(ev):
    lab = getattr(ev.node, 'label', '') or ''
    return lab.rsplit(']', 1)[-1]


def analyse_class(rep, C, slots, before, printed, aliased, all_fields, finder, other_kinds=None):
    cname = C.__name__
    fn = f'{MODULE}:{FUNC}[{cname}]'
    try:
        outs, ex = run_class(C, slots, all_fields, other_kinds, sub_slots=('query',))
    except (Unsupported, PathLimit) as e:
        rep.undecided(f'C13.class.{cname}', 'pysym', f'{type(e).__name__}: {e}', function=fn)
        # bounded stand-in for the class the engine could not execute: the real walker on every corpus / template statement containing the class
        # (visit-once for every child slot, single and list-valued replacement protocols); a deviation is a violation with its input
        w = concrete_class_check(C, slots, finder)
        if w is not None:
            rep.add_bounded(Bounded(f'C13.bounded.{cname}', False, w['input'], w['observed'], w.get('expected', 'walker contract'), bound='corpus + template statements containing the class'))
        return
    req = [f for f in slots if f not in aliased]
    res = {}       # obligation id -> (failure text | None, clause)

    def fail(oid, msg, clause):
        if res.get(oid, (None,))[0] is None:
            res[oid] = (msg, clause)

    def ok(oid, clause):
        res.setdefault(oid, (None, clause))
    pself = parent_is_self(C)
    for f in req:
        ok(f'C13.visit.{cname}.{f}', 'child slot visited exactly once when present')
        ok(f'C13.flags.{cname}.{f}', 'is_table / is_target / parent_query as specified for this slot')
        ok(f'C13.repl.{cname}.{f}', 'slot holds the visit result when it is not None, else the original child; only the slot is written')
        ok(f'C13.none.{cname}.{f}', 'the visitor is never invoked with None for this slot')
    for (a, b) in sorted(before):
        if a in req and b in req:
            ok(f'C13.order.{cname}.{a}<{b}', f'{a} is printed before {b}, so it is visited before it')
    ok(f'C13.frame.{cname}', 'no field outside the child slots is written')
    ok(f'C13.top.{cname}', 'the visitor is called first on the node itself with the flags given; returns None (keep)')
    for o in outs:
        st = o.state
        node = st['node']
        if o.kind == 'raise':
            fail(f'C13.top.{cname}', f'walker raises {o.value.__name__} [{"; ".join(o.choices[-4:])}]', '')
            continue
        if o.value is not None:
            fail(f'C13.top.{cname}', f'returns {o.value!r} although the visitor returned None', '')
        cbs = [e for e in o.log if e.kind == 'Callback']
        if len(cbs) != 1 or cbs[0].node is not node or o.log[0] is not cbs[0]:
            fail(f'C13.top.{cname}', 'visitor not called exactly once, first, on the node itself', '')
        else:
            c = cbs[0]
            if c.is_table is not False or c.is_target is not False or c.parent_query is not st['pq']:
                fail(f'C13.top.{cname}', 'flags are not passed through to the visitor unchanged', '')
        visits = flatten(o.log, st)
        seq = []
        for slot, ev, in_loop in visits:
            if slot == '?none' or getattr(ev, 'none', False):
                # which slot? the one whose child is None on this path: find by label of the SymObj or unknown
                lab = getattr(ev.node, 'label', '')
                s = lab[5:] if lab.startswith('node.') else None
                if s in req:
                    fail(f'C13.none.{cname}.{s}', f'visitor/recursion invoked with None for {s} [{"; ".join(o.choices[-4:])}]', '')
                continue
            if slot not in seq:
                seq.append(slot)
        counts = {}
        per_iter = {}
        for slot, ev, in_loop in visits:
            if getattr(ev, 'none', False) or slot == '?none':
                continue
            if in_loop is False:
                counts[slot] = counts.get(slot, 0) + 1
            else:
                key = (slot, in_loop, sub_position(ev))
                per_iter[key] = per_iter.get(key, 0) + 1
            if slot in req:
                want_table = (cname, slot) in TABLE_SLOTS
                want_target = (cname, slot) in TARGET_SLOTS
                want_pq = node if pself else st['pq']
                if ev.is_table is not want_table and ev.is_table != want_table:
                    fail(f'C13.flags.{cname}.{slot}', f'is_table={ev.is_table!r}, expected {want_table}', '')
                if ev.is_target != want_target:
                    fail(f'C13.flags.{cname}.{slot}', f'is_target={ev.is_target!r}, expected {want_target}', '')
                if ev.parent_query is not want_pq:
                    fail(f'C13.flags.{cname}.{slot}', f'parent_query={ev.parent_query!r}, expected {"the node" if pself else "the parent_query of the caller"}', '')
                if ev.callback is not st['callback']:
                    fail(f'C13.flags.{cname}.{slot}', 'a different visitor is passed down', '')
        for (slot_, tag_, sub_), n_ in per_iter.items():
            # one visit per element (and per sub-position of an element) on every body path
            counts[slot_] = max(counts.get(slot_, 0), n_)
        for f in req:
            child = st['children'].get(f, 'unmaterialised')
            present = child not in (None, 'unmaterialised') and not (isinstance(child, SymObj) and child.cls_set == frozenset({type(None)}))
            if isinstance(child, (SymSeq, SymDictU)) and child.nonempty is False:
                present = False
            if child == 'unmaterialised':
                # the walker never even read the field on this path
                fail(f'C13.visit.{cname}.{f}', f'slot {f} is never read by the walker', '')
                continue
            n = counts.get(f, 0)
            if present and n != 1:
                fail(f'C13.visit.{cname}.{f}', f'slot {f} visited {n} time(s) when present [{"; ".join(o.choices[-4:])}]', '')
        for (a, b) in before:
            if a in req and b in req and a in seq and b in seq and seq.index(a) > seq.index(b):
                fail(f'C13.order.{cname}.{a}<{b}', f'{b} is visited before {a} but printed after it', '')
        # replacement frame
        written = {}
        for (obj, attr, old, new, kind) in o.writes:
            if obj is node and kind == 'setattr':
                written[attr] = new
            elif kind == 'mutate' and isinstance(obj, (SymDictU,)) and obj is st['children'].get('update_columns'):
                written['update_columns'] = ('dict-update', new)
            elif kind == 'mutate' and obj in [c for c in st['children'].values() if isinstance(c, (SymSeq, SymDictU))]:
                fail(f'C13.frame.{cname}', f'mutates a child container in place ({attr})', '')
        for attr, new in written.items():
            if attr not in slots:
                # rebuilding a non-node list from its own elements (CreateTable.columns) is not observable
                if isinstance(new, SymSeq) and new.mapped is not None and new.mapped[0] is node.fields.get(attr, object()):
                    continue
                orig = [w for w in o.writes if w[0] is node and w[1] == attr]
                if isinstance(new, SymSeq) and new.mapped is not None and orig and orig[0][2] is new.mapped[0]:
                    continue
                fail(f'C13.frame.{cname}', f'writes field {attr} which is not a child slot', '')
        for slot, ev, in_loop in visits:
            if slot not in req or getattr(ev, 'none', False):
                continue
            r = getattr(ev, 'result', None)
            if not in_loop:
                final = node.fields.get(slot) if slot not in written else written[slot]
                if r is not None:
                    if final is not r:
                        fail(f'C13.repl.{cname}.{slot}', f'visit result {r!r} is not stored in {slot} (slot holds {final!r})', '')
                elif slot in written and written[slot] is not st['children'].get(slot):
                    fail(f'C13.repl.{cname}.{slot}', f'slot rewritten although the visitor kept the child', '')
        # list slots: the final value must be  map(elem -> result or elem)
        for f, sh in slots.items():
            if f not in req or sh == 'node':
                continue
            child = st['children'].get(f)
            if not isinstance(child, (SymSeq, SymDictU)) or child.nonempty is False:
                continue
            problem = check_list_replacement(f, sh, child, written.get(f, 'unwritten'), o)
            if problem:
                fail(f'C13.repl.{cname}.{f}', problem, '')
    for oid, (msg, clause) in sorted(res.items()):
        if msg is None:
            rep.proved(oid, 'pysym', f'{len(outs)} path(s)', function=fn, clause=clause)
        else:
            rep.failed(oid, 'pysym', msg, function=fn, clause=clause, replay=finder(oid, C))
    rep.census[f'paths.{cname}'] = len(outs)


def flags_passdown(rep, C, slots, all_fields, other_kinds):
    """the flags of a node are its own: when the walker is entered with is_table / is_target set (the node itself is a table reference / a
    select-list item), its children are still visited with exactly the flags of their own slot"""
    cname = C.__name__
    oid = f'C13.flags.own.{cname}'
    clause = 'children are visited with is_table / is_target of their slot, not with the flags the node itself was visited with'
    fn = f'{MODULE}:{FUNC}'
    try:
        outs, ex = run_class(C, slots, all_fields, other_kinds, sub_slots=('query',), top_flags=True)
    except (Unsupported, PathLimit) as e:
        rep.undecided(oid, 'pysym', f'{type(e).__name__}: {e}'[:200], function=fn, clause=clause)
        return
    bad = None
    for o in outs:
        if o.kind == 'raise':
            continue
        for slot, ev, in_loop in flatten(o.log, o.state):
            if getattr(ev, 'none', False) or slot == '?none' or slot not in slots:
                continue
            want_table = (cname, slot) in TABLE_SLOTS
            want_target = (cname, slot) in TARGET_SLOTS
            if bool(ev.is_table) != want_table or bool(ev.is_target) != want_target:
                bad = f'child slot {slot} of a {cname} that is itself a table / select-list item is visited with is_table={ev.is_table!r}, is_target={ev.is_target!r} (expected {want_table}, {want_target})'
                break
        if bad:
            break
    if bad:
        rep.failed(oid, 'pysym', bad, function=fn, clause=clause, replay=replay_flags_own(cname))
    else:
        rep.proved(oid, 'pysym', f'{len(outs)} path(s)', function=fn, clause=clause)


def replay_flags_own(cname):
    from mindsdb_sql import parse_sql
    from mindsdb_sql.planner.utils import query_traversal
    from mindsdb_sql.parser import ast as A
    for sql in ('select cast(a as int), b from t1', 'select a + 1, -b, f(c), case when d then e end, (select g from t2) from t1', 'select * from (select a from t) as x join t2 on x.a = t2.a'):
        q = parse_sql(sql)
        flagged = []

        def cb(node, is_table=False, is_target=False, **kw):
            if is_target:
                flagged.append(node)
        query_traversal(q, cb)
        tops = []

        def collect(node, **kw):
            if isinstance(node, A.Select) and node.targets:
                tops.extend(node.targets)
        query_traversal(parse_sql(sql), collect)
        if len(flagged) != len(tops):
            return {'input': sql, 'dialect': 'mindsdb', 'fires': True, 'observed': f'nodes flagged as targets: {[str(n) for n in flagged]}', 'expected': f'exactly the {len(tops)} select-list items'}
    return {'input': 'select lists with casts / operators / functions', 'dialect': 'mindsdb', 'fires': False, 'observed': 'only select-list items are flagged'}


def check_list_replacement(f, sh, child, final, o):
    if sh == 'dict':
        if final == 'unwritten':
            # no replacement happened on this path or the dict is updated through DictUpdate
            ups = [e for e in o.log if e.kind == 'DictUpdate' and e.target is child]
            fe = [e for e in o.log if e.kind == 'ForEach' and e.seq is child]
            if not fe:
                return None
            replaced_possible = any(getattr(ev, 'result', None) is not None for ch, evs in fe[0].paths for ev in evs if ev.kind == 'Visit')
            if replaced_possible and not ups:
                pass    # the path where `changes` is empty: fine
            return None
        return None
    if final == 'unwritten':
        return _check_in_place(f, sh, child, o) if sh == 'list' else f'list slot {f} is not rebuilt from the visit results'
    if not isinstance(final, SymSeq) or final.mapped is None:
        return f'list slot {f} ends up as {final!r}, not the element-wise image of the original list'
    src, per_path = final.mapped
    if src is not child:
        return f'list slot {f} is rebuilt from another sequence ({src!r})'
    if getattr(final, 'prefix', None):
        return f'list slot {f} gets extra leading items {final.prefix!r}'
    fe = [e for e in o.log if e.kind == 'ForEach' and e.seq is child]
    if not fe:
        return f'no per-element visits recorded for {f}'
    for (choices, appended), (ch2, events) in zip(per_path, fe[0].paths):
        vis = [ev for ev in events if ev.kind == 'Visit']
        if sh == 'list':
            if len(vis) != 1:
                return f'an element of {f} is visited {len(vis)} times'
            ev = vis[0]
            r = getattr(ev, 'result', None)
            if len(appended) == 1 and isinstance(appended[0], SymObj) and ev.node is not appended[0] and \
                    (getattr(ev.node, 'label', '') or '').startswith(appended[0].label + '.'):
                # the visited node is a field of the list element (Select.cte[*].query)
                if r is None:
                    continue
                return (f'the visitor replaced {ev.node.label} but the walker keeps the element unchanged and no write of that field is recorded')
            if len(appended) == 1 and r is not None and appended[0] is r and (getattr(ev.node, 'label', '') or '').count('.') > 1 and not ev.node.label.endswith(']'):
                return (f'replacing {ev.node.label} replaces the whole list element of {f} (the element is dropped and the replacement put in its place)')
            want = [ev.node] if r is None else (r if isinstance(r, list) else [r])
            if len(appended) != len(want) or any(a is not b for a, b in zip(appended, want)):
                return (f'element of {f}: visitor returned {r!r} for {ev.node!r} but the rebuilt list receives {appended!r}')
        elif sh == 'pairs':
            if len(vis) != 2 or len(appended) != 1 or not isinstance(appended[0], list) or len(appended[0]) != 2:
                return f'rule of {f}: {len(vis)} visits, rebuilt item {appended!r}'
            for ev, got in zip(vis, appended[0]):
                r = getattr(ev, 'result', None)
                if got is not (ev.node if r is None else r):
                    return f'rule of {f}: visitor returned {r!r} for {ev.node!r} but the rebuilt rule holds {got!r}'
        elif sh == 'list2':
            pass
    return None


def _check_in_place(f, sh, child, o):
    """the list itself is kept; what is visited is a field of each element (Select.cte[*].query): the visitor's result must be stored in exactly
    that field of that element, and nothing written when the visitor keeps the node"""
    fe = [e for e in o.log if e.kind == 'ForEach' and e.seq is child]
    if not fe:
        return f'list slot {f} is not rebuilt from the visit results'
    ews = getattr(fe[0], 'elem_writes', None)
    if ews is None or len(ews) != len(fe[0].paths):
        return f'list slot {f} is not rebuilt from the visit results'
    for (choices, events), writes in zip(fe[0].paths, ews):
        vis = [ev for ev in events if ev.kind == 'Visit']
        if len(vis) != 1:
            return f'an element of {f} is visited {len(vis)} times'
        ev = vis[0]
        r = getattr(ev, 'result', None)
        lab = getattr(ev.node, 'label', '') or ''
        if not (lab.count('.') > 1 and not lab.endswith(']')):
            return f'list slot {f} is not rebuilt from the visit results (its elements are visited, the list is kept)'
        if r is None:
            if writes:
                return f'the visitor kept {lab} but the walker writes {[(getattr(w[0], "label", w[0]), w[1]) for w in writes]}'
            continue
        good = [w for w in writes if isinstance(w[0], SymObj) and w[3] is ev.node and w[2] is r]
        if len(good) != 1 or len(writes) != 1:
            return f'the visitor replaced {lab} by {r!r} but the walker writes {[(getattr(w[0], "label", w[0]), w[1], w[2]) for w in writes]}'
    return None


# ------------------------------------------------------------------------------------------ replay on real trees
TEMPLATES = [
    "WITH c AS (SELECT x FROM t1) SELECT a, b FROM c JOIN t2 ON c.x = t2.y WHERE a > 1 GROUP BY a HAVING count(b) > 0 ORDER BY a LIMIT 3 OFFSET 1",
    "SELECT CASE a WHEN 1 THEN 'x' ELSE 'y' END FROM t",
    "SELECT CASE WHEN a = 1 THEN 'x' END FROM t",
    "SELECT substring(a FROM 2) FROM t",
    "DELETE FROM t WHERE a = 1",
    "UPDATE t SET a = 1, b = 2 WHERE c = 3",
    "UPDATE t SET a = 1 FROM (SELECT 1) AS s WHERE c = 3",
    "SELECT sum(a) OVER (PARTITION BY b ORDER BY c) FROM t",
    "INSERT INTO t (a, b) VALUES (1, 2), (3, 4)",
    "SHOW TABLES WHERE a = 1",
    "SET x = f(1)",
    "CREATE KNOWLEDGE_BASE k FROM (SELECT a FROM t) USING model = m",
    "SELECT a FROM t1 UNION SELECT b FROM t2",
    "CREATE TABLE t2 AS (SELECT a FROM t)",
]


def make_finder(rep=None):
    """oid, class -> replay dict: a real parsed statement on which the real walker shows the failure"""
    from mindsdb_sql.planner.utils import query_traversal
    from mindsdb_sql.parser.ast.base import ASTNode
    idx = {}
    for dn in lrtab.DIALECTS:
        for src, sql, tree in corpus.parsed(dn):
            for path, n in corpus.walk_nodes(tree):
                idx.setdefault(type(n), [])
                if len(idx[type(n)]) < 150:
                    idx[type(n)].append((sql, dn, path))

    from mindsdb_sql import parse_sql as _ps
    for sql in reversed(TEMPLATES):
        try:
            tree = _ps(sql, dialect='mindsdb')
        except Exception:
            continue
        for cls in {type(n) for p, n in corpus.walk_nodes(tree)}:
            idx.setdefault(cls, []).insert(0, (sql, 'mindsdb', 'template'))

    def run_real(sql, dn):
        from mindsdb_sql import parse_sql
        tree = parse_sql(sql, dialect=dn)
        log = []

        def cb(node, **kw):
            log.append((node, kw))
            return None
        query_traversal(tree, cb)
        return tree, log

    def children_of(v):
        if type(v).__name__ in TRANSPARENT:
            return [v.query]
        if isinstance(v, ASTNode):
            return [v]
        if isinstance(v, (list, tuple)):
            return [y for x in v for y in children_of(x)]
        if isinstance(v, dict):
            return [y for x in v.values() for y in children_of(x)]
        return []

    def finder(oid, C):
        parts = oid.split('.')
        kind = parts[1]
        field = parts[3] if len(parts) > 3 else None
        tried = 0
        cands = list(idx.get(C, []))
        lf = rep.listed(oid) if rep is not None else None
        if lf and lf.get('witness'):
            cands.insert(0, (lf['witness'], lf.get('dialect', 'mindsdb'), 'listed'))
        for sql, dn, path in cands:
            tried += 1
            if tried > 200:
                break
            try:
                tree, log = run_real(sql, dn)
            except Exception as e:
                continue
            visited = [n for n, kw in log]
            ids = [id(n) for n in visited]
            for p, n in corpus.walk_nodes(tree):
                if type(n) is not C:
                    continue
                if id(n) not in ids:
                    continue        # the node itself is unreachable for the walker: another finding's business
                if kind in ('visit', 'flags', 'none') and field:
                    ch = children_of(getattr(n, field, None))
                    if kind == 'visit' and ch:
                        bad = [c for c in ch if ids.count(id(c)) != 1]
                        if bad:
                            return {'input': sql, 'dialect': dn, 'fires': True,
                                    'observed': f'{C.__name__}.{field} child `{bad[0]}` visited {ids.count(id(bad[0]))} time(s) by the real query_traversal', 'expected': 'exactly once'}
                    if kind == 'none' and getattr(n, field, 0) is None and any(v is None for v in visited):
                        return {'input': sql, 'dialect': dn, 'fires': True, 'observed': 'visitor called with None', 'expected': 'never'}
                    if kind == 'flags' and ch:
                        for c in ch:
                            for nn, kw in log:
                                if nn is c:
                                    wt = (C.__name__, field) in TABLE_SLOTS
                                    wg = (C.__name__, field) in TARGET_SLOTS
                                    if bool(kw.get('is_table')) != wt or bool(kw.get('is_target')) != wg:
                                        return {'input': sql, 'dialect': dn, 'fires': True, 'observed': f'{field}: flags {kw.get("is_table")}/{kw.get("is_target")}', 'expected': f'{wt}/{wg}'}
                                    if parent_is_self(C) and kw.get('parent_query') is not n:
                                        return {'input': sql, 'dialect': dn, 'fires': True, 'observed': f'{field}: parent_query is not the enclosing {C.__name__}', 'expected': 'enclosing statement'}
                if kind == 'order' and field and '<' in field:
                    a, b = field.split('<')
                    ca, cb_ = children_of(getattr(n, a, None)), children_of(getattr(n, b, None))
                    if ca and cb_ and id(ca[0]) in ids and id(cb_[0]) in ids and ids.index(id(ca[0])) > ids.index(id(cb_[0])):
                        return {'input': sql, 'dialect': dn, 'fires': True, 'observed': f'{b} visited before {a}', 'expected': f'{a} (printed first) before {b}'}
                if kind == 'repl' and field:
                    r = replay_replacement(sql, dn, C, field)
                    if r:
                        return r
        return {'input': None, 'observed': f'no corpus statement exhibits it ({tried} candidates tried)'}
    return finder


def concrete_class_check(C, slots, finder):
    for f in slots:
        for kind in ('visit', 'repl'):
            r = finder(f'C13.{kind}.{C.__name__}.{f}', C)
            if r and r.get('fires'):
                return r
    if C.__name__ == 'Select':
        r = replay_list_replacement()
        if r:
            return r
    return None


def replay_list_replacement():
    """select-list protocol: a target may be replaced by a list of nodes; later replacements must still land on the visited node"""
    from mindsdb_sql import parse_sql
    from mindsdb_sql.planner.utils import query_traversal
    from mindsdb_sql.parser.ast import Identifier, Star
    for sql in ('select *, a, x, b from t', 'select a, *, x from t', 'select *, x from t', 'select x, * from t'):
        tree = parse_sql(sql, dialect='mindsdb')
        before = [str(t) for t in tree.targets]

        def cb(node, **kw):
            if isinstance(node, Star) and kw.get('is_target'):
                return [Identifier('c1'), Identifier('c2')]
            if isinstance(node, Identifier) and node.parts == ['x'] and kw.get('is_target'):
                return Identifier('y')
        try:
            query_traversal(tree, cb)
        except Exception as e:
            return {'input': sql, 'dialect': 'mindsdb', 'fires': True, 'observed': f'{type(e).__name__}: {e}', 'expected': 'replacement'}
        want = []
        for t in before:
            want += ['c1', 'c2'] if t == '*' else (['y'] if t == 'x' else [t])
        got = [str(t) for t in tree.targets]
        if got != want:
            return {'input': sql, 'dialect': 'mindsdb', 'fires': True, 'observed': f'visitor expands * to [c1, c2] and rewrites x to y: targets become {got}', 'expected': f'{want}'}
    return None


def replay_replacement(sql, dn, C, field):
    from mindsdb_sql import parse_sql
    from mindsdb_sql.planner.utils import query_traversal
    from mindsdb_sql.parser.ast.base import ASTNode
    from mindsdb_sql.parser.ast import Identifier
    tree = parse_sql(sql, dialect=dn)
    target = None
    for p, n in corpus.walk_nodes(tree):
        if type(n) is C:
            v = getattr(n, field, None)
            kids = v if isinstance(v, list) else ([v] if isinstance(v, ASTNode) else (list(v.values()) if isinstance(v, dict) else []))
            kids = [k for k in kids if isinstance(k, ASTNode)]
            if kids:
                target = (n, kids[0])
                break
    if target is None:
        return None
    owner, victim = target
    marker = Identifier('replaced_by_visitor')
    if type(victim).__name__ in TRANSPARENT:
        # transparent container (a CTE entry): what the walker shows to the visitor is its body; the replacement belongs in the entry's `query`
        # field and the entry itself stays in the list
        entry, victim = victim, victim.query

        def cb(node, **kw):
            if node is victim:
                return marker
        try:
            query_traversal(tree, cb)
        except Exception as e:
            return {'input': sql, 'dialect': dn, 'fires': True, 'observed': f'{type(e).__name__}: {e}', 'expected': 'replacement'}
        v = getattr(owner, field, None) or []
        if not (any(k is entry for k in v) and entry.query is marker):
            return {'input': sql, 'dialect': dn, 'fires': True, 'observed': f'after the visitor returned a replacement for the body of {C.__name__}.{field} entry `{entry}` the slot holds {[str(k) for k in v][:3]}',
                    'expected': 'the same entry with the replacement as its body'}
        return None

    def cb(node, **kw):
        if node is victim:
            return marker
    try:
        query_traversal(tree, cb)
    except Exception as e:
        return {'input': sql, 'dialect': dn, 'fires': True, 'observed': f'{type(e).__name__}: {e}', 'expected': 'replacement'}
    v = getattr(owner, field, None)
    kids = v if isinstance(v, list) else ([v] if isinstance(v, ASTNode) else (list(v.values()) if isinstance(v, dict) else []))
    if not any(k is marker for k in kids):
        return {'input': sql, 'dialect': dn, 'fires': True, 'observed': f'after the visitor returned a replacement for {C.__name__}.{field} `{victim}` the slot holds {[str(k) for k in kids][:3]}',
                'expected': 'the replacement in place of the visited child'}
    return None


# ------------------------------------------------------------------------------------------ main
def consumer_obligations(rep, tier):
    """the analyses the statement names as built on the walker (finding / filling placeholders): their visitors collect in visit order and
    consume values in that same order (contracts stated and discharged in contracts/C12.py, relayed here)"""
    from contracts import C12
    sub = type(rep)('C12', tier, C12.LEVEL)
    C12.collect_contract(sub)
    C12.fill_contract(sub)
    for o in sub.obs:
        oid = 'C13.consumer.' + o.id.split('.', 1)[1]
        kw = dict(function=o.function, clause=o.clause, seconds=o.seconds)
        if o.status == PROVED:
            rep.proved(oid, o.engine, o.detail, **kw)
        elif o.status == FAILED:
            rep.failed(oid, o.engine, o.detail, cex=o.cex, replay=o.replay, **kw)
        else:
            rep.undecided(oid, o.engine, o.detail, **kw)


def check(rep, tier):
    from vlib import statecensus
    statecensus.obligations(rep, 'C13', 'planner')
    consumer_obligations(rep, tier)
    # ... and the two other analyses the statement names: finding the tables and models of a query, rewriting identifiers
    from vlib import userdep
    userdep.obligations(rep, tier, 'C13')
    rep.dropped = 'function body read with ast.parse from $REPO_ROOT/mindsdb_sql/planner/utils.py; docstring and comments dropped'
    rep.assume('structural induction: the recursive call satisfies the contract on the (structurally smaller) child',
               'slot discovery: a child slot that no grammar production (and no test statement) ever fills is not in the spec',
               'the visitor is an arbitrary function of (node, flags) returning None, a node, or (for select targets) a list of nodes',
               'no ASTNode subclass defines __bool__/__len__ (checked by census), so replaced nodes are truthy')
    rep.trust('pysym executor (CPython cross-check in vcheck selftest)', 'hole-based derivation of textual order executes the real printers')
    classes = corpus.all_node_classes()
    from mindsdb_sql.parser.ast.base import ASTNode
    bad_truth = [c.__name__ for c in classes if any(('__bool__' in k.__dict__ or '__len__' in k.__dict__) for k in c.__mro__ if k is not object)]
    if bad_truth:
        rep.failed('C13.census.truthy', 'frames', f'classes with __bool__/__len__: {bad_truth}')
    else:
        rep.proved('C13.census.truthy', 'frames', f'{len(classes)} node classes, none defines __bool__/__len__', clause='nodes are truthy')
    cen, samples = slot_census()
    finder = make_finder(rep)
    n_slots = 0
    for C in classes:
        slots = required_slots(C, cen)
        all_fields = set()
        other_kinds = {}
        for sig, (n, sql, dn) in samples.get(C, {}).items():
            all_fields.update(vars(n))
            for k, v in vars(n).items():
                if isinstance(v, (list, dict)):
                    other_kinds.setdefault(k, set()).add(type(v))
        try:
            all_fields.update(p for p in inspect.signature(C.__init__).parameters if p not in ('self', 'args', 'kwargs'))
        except (TypeError, ValueError):
            pass
        if (not slots and not issubclass(C, query_family())) or C.__name__ in TRANSPARENT:
            continue
        if any(sh == 'mixed' for sh in slots.values()):
            rep.undecided(f'C13.class.{C.__name__}', 'pysym', f'slot with mixed shapes: {slots}')
            continue
        before, printed, errors, contra = textual_order(C, slots, samples)
        aliased = aliased_slots(C, samples, slots)
        n_slots += len(slots)
        analyse_class(rep, C, slots, before, printed, aliased, all_fields, finder, other_kinds)
        flags_passdown(rep, C, slots, all_fields, other_kinds)
    rep.census['node_classes'] = len(classes)
    rep.census['child_slots'] = n_slots
    rep.notes.append('Walker contract checked per node class by symbolic execution (all list lengths, all None-ness combinations, arbitrary visitor results).')
    rep.bounded_rule = 'only for a class whose obligations the engine leaves undecided: the real walker on every corpus / template statement containing the class (visit-once, single and list-valued replacement)'
