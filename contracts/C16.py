"""C16 — queries embedded in MindsDB commands are stored verbatim (up to whitespace and comments).

  raw.<TOKEN>      (fst / census) after the lexer action the token's value is its source text
  tts.step.*       (pysym + z3 Seq/LIA, loop invariant on the real loop body of tokens_to_string) under value == source text the
                   output is the token texts in order, separated by exactly the source gap (as blanks), a line break where the source
                   had one; no two tokens are glued, none dropped or duplicated
  collect.<rule>   (pysym) the raw_query actions return the tokens of their right-hand side in order
  alltokens        the catch-all raw_query rule covers every token kind except the parentheses
  store.<action>   (pysym) every embedding action stores tokens_to_string of its own raw_query (job: query / IF query not swapped)
Bounded: inner queries x embedding commands through parse_sql, stored text re-lexed against the inner text."""
import ast, re, itertools
import z3
from vlib import repo, lrtab, codec, pysym, frames
from vlib.core import PROVED, FAILED, UNDECIDED, Bounded, CheckerError
from vlib.fst import Fst, Dfa, FstError, regex_dfa, equivalent, validate
from vlib.pysym import SymObj, SymSeq, SymVal, Stub, Event, Unsupported, PathLimit
from vlib.pysym.executor import Executor, Env
from contracts import codecs
from contracts.codecs import ALPHABET

LEVEL = 'other'
MANIFEST = {
    'engine': 'fst+pysym',
    'level': 'other',
    'technique': 'per-token identity of lexer actions (transducer equivalence), inductive invariant of tokens_to_string checked on its real loop body with z3 sequences, symbolic execution of the raw_query and embedding actions (found through the grammar symbol raw_query); differential run against the specification of the rebuilt text when the invariant\'s state variables are not those of the code',
    'text': 'The reconstruction is proved correct (for any number of tokens, any layout) under the precondition that token values equal '
            'their source text; that precondition is decided per token kind and fails for exactly the kinds whose lexer action rewrites '
            'the value (genuine defect: known findings with embedded-query witnesses). Collection and storing actions are proved.',
    'note': 'Assumed: tokenizer contract (index strictly increasing by at least the token length, lineno non-decreasing, at least one '
            'character between tokens on different lines) — Lexer.tokenize is a generator and is not symbolically executed; sly passes '
            'p._slice = symbols of the right-hand side. Bounded: inner queries x 9 embedding commands.',
}

PARSER = 'mindsdb_sql.parser.dialects.mindsdb.parser'


def _emit(rep, oid, v, fn, clause, replay=None):
    if v.status == PROVED:
        rep.proved(oid, 'pysym', v.detail, function=fn, seconds=v.seconds, clause=clause)
    elif v.status == FAILED:
        rp = replay() if callable(replay) else replay
        if rp is not None and rp.get('fires') is False:
            rp = {'input': None, 'observed': f'stock witness does not show it: {rp.get("observed")}'}
        rep.failed(oid, 'pysym', v.detail, function=fn, seconds=v.seconds, clause=clause, cex=v.cex, replay=rp)
    else:
        rep.undecided(oid, 'pysym', v.detail, function=fn, seconds=v.seconds, clause=clause)


# ------------------------------------------------------------------ raw: token value == source text
SAMPLE_INNER = {
    'QUOTE_STRING': "select * from t where name = ''",
    'DQUOTE_STRING': 'select "a\\"b" from t',
    'VARIABLE': 'select @v from t',
    'SYSTEM_VARIABLE': 'select @@sv from t',
}


def stored_via_create_model(inner):
    from mindsdb_sql import parse_sql
    q = parse_sql(f'CREATE MODEL m FROM db ({inner}) PREDICT y', dialect='mindsdb')
    return q.query_str


def replay_inner(inner):
    d = lrtab.load('mindsdb')
    try:
        stored = stored_via_create_model(inner)
    except Exception as e:
        return {'input': f'CREATE MODEL m FROM db ({inner}) PREDICT y', 'dialect': 'mindsdb', 'fires': True, 'observed': f'{type(e).__name__}: {e}', 'expected': inner}

    def raws(text):
        return [(t.type, text[t.index:t.end]) for t in d.Lexer().tokenize(text)]
    try:
        same = raws(stored) == raws(inner)
    except Exception:
        same = False
    return {'input': f'CREATE MODEL m FROM db ({inner}) PREDICT y', 'dialect': 'mindsdb', 'fires': not same, 'observed': f'stored `{stored}`', 'expected': f'`{inner}`'}


def raw_obligations(rep):
    d = lrtab.load('mindsdb')
    n_noaction = 0
    for name, value in d.Lexer._rules:
        if name.startswith('ignore_'):
            continue
        oid = f'C16.raw.{name}'
        fn = f'{d.lexer_module}:{d.lexer_class_name}.{name}'
        f = d.Lexer._token_funcs.get(name)
        clause = 'ensures t.value == text[t.index:t.end] (the action does not rewrite the value)'
        if f is None:
            n_noaction += 1
            continue
        try:
            T, pat, _ = codecs.lexer_fst('mindsdb', name)
            L = regex_dfa(pat, re.IGNORECASE, ALPHABET)
        except FstError as e:
            rep.undecided(oid, 'fst', f'extraction: {e}', function=fn, clause=clause)
            continue
        r = equivalent(T.on_domain(L), Fst.identity(ALPHABET).on_domain(L))
        if r[0] is True:
            rep.proved(oid, 'fst', 'action is the identity on the whole token language', function=fn, clause=clause)
        elif r[0] is False:
            w = r[1]
            inner = SAMPLE_INNER.get(name)
            rp = replay_inner(inner) if inner else None
            rep.failed(oid, 'fst', f'shortest witness {w!r}: value becomes {sorted(T.apply(w))}', function=fn, clause=clause, cex={'token_text': w}, replay=rp)
        else:
            rep.undecided(oid, 'fst', r[1], function=fn, clause=clause)
    # tokens without an action: sly stores m.group() — census
    rep.proved('C16.raw.no-action-tokens', 'frames', f'{n_noaction} token kinds have no action function: value = matched text (sly.lex tokenize)', function='sly.lex:Lexer.tokenize',
               clause='tok.value = m.group() for tokens without action')
    remap = d.Lexer._remapping
    if remap:
        rep.failed('C16.raw.remapping', 'frames', f'token remapping tables present: {list(remap)[:3]}', function=fn)


# ------------------------------------------------------------------ tokens_to_string: inductive invariant on the real loop body
def tts_obligations(rep):
    mod = 'mindsdb_sql.parser.utils'
    fn = f'{mod}:tokens_to_string'
    fd = repo.find_function(mod, 'tokens_to_string')
    loops = [s for s in fd.body if isinstance(s, ast.For)] if fd else []
    if fd is None or len(loops) != 1:
        rep.undecided('C16.tts', 'pysym', 'tokens_to_string no longer has a single for-loop: contract needs review', function=fn)
        return
    loop = loops[0]
    pre = fd.body[:fd.body.index(loop)]
    post = fd.body[fd.body.index(loop) + 1:]
    m = repo.import_module(mod)
    # The inductive invariant below is stated over the function's own state variables. If the function keeps its state differently (renamed or
    # restructured accumulators) the invariant does not apply: that is "representation changed", not a violation. The function is then compared with
    # the specification of its result on generated token lists (bounded, labelled) and the lemma is reported as not established.
    assigned = {n.id for n in ast.walk(fd) if isinstance(n, ast.Name) and isinstance(n.ctx, ast.Store)}
    need = {'content', 'line', 'shift', 'last_pos', 'line_num'}
    tail_ok = len(post) >= 1 and isinstance(post[-1], ast.Return) and isinstance(post[-1].value, ast.Name) and post[-1].value.id == 'content'
    if not need <= assigned or not tail_ok or [a.arg for a in fd.args.args][:1] != ['tokens']:
        w = tts_differential()
        if w is not None:
            rep.add_bounded(Bounded('C16.bounded.tts.differential', False, w[0], w[1], w[2], bound='generated token lists'))
        rep.undecided('C16.tts', 'pysym', f'tokens_to_string keeps its state in other variables than the invariant speaks about (assigned: {sorted(assigned)}): invariant not applicable; '
                      f'result compared with its specification on generated token lists ({"mismatch found" if w else "no mismatch"})', function=fn, soft=w is None)
        return

    def token(ex, name):
        t = SymObj(None, name, prov='param')
        t.known_not_none = True
        t.fields.update(lineno=pysym.mk_int(f'{name}.lineno'), index=pysym.mk_int(f'{name}.index'), value=pysym.mk_str(f'{name}.value'))
        ex.assume(t.fields['index'].t >= 0)
        ex.assume(t.fields['lineno'].t >= 1)
        return t

    # ---- init: the prelude establishes the invariant's base case
    def run_init(ex):
        t0 = token(ex, 'tok0')
        toks = SymSeq('tokens', lambda e, l: token(e, l), prov='param')
        toks.nonempty = True
        ex.assume(toks.len > 0)
        toks.items = {0: t0}
        env = Env(m)
        env.vars['tokens'] = toks
        bind_defaults(env, fd)
        ex.exec_block([s for s in pre if not (isinstance(s, ast.Expr) and isinstance(s.value, ast.Constant))], env)
        ex.path_state.update(env=env, t0=t0)
        return None

    def post_init(ex, o):
        if o.kind != 'return':
            return f'prelude raises {o.value.__name__}'
        v = o.state['env'].vars
        t0 = o.state['t0']
        if v.get('content') != '' or v.get('line') != '':
            return 'content/line not empty initially'
        if v.get('line_num') is not t0.fields['lineno'] or v.get('shift') is not t0.fields['index'] or v.get('last_pos') != 0:
            return 'line_num/shift/last_pos not initialised from the first token'
        return None
    _run(rep, 'C16.tts.init', run_init, post_init, fn, 'establishes line_num = tokens[0].lineno, shift = tokens[0].index, last_pos = 0, content = line = ""')

    # ---- step: from any state satisfying the invariant, one iteration appends exactly gap-blanks + token text
    for case in ('first', 'same-line', 'new-line'):
        def run_step(ex, case=case):
            tok = token(ex, 'tok')
            content, line = pysym.mk_str('content'), pysym.mk_str('line')
            shift, last_pos, line_num = pysym.mk_int('shift'), pysym.mk_int('last_pos'), pysym.mk_int('line_num')
            idx, ln, val = tok.fields['index'].t, tok.fields['lineno'].t, tok.fields['value'].t
            if case == 'first':
                ex.assume(z3.And(line.t == z3.StringVal(''), shift.t == idx, last_pos.t == 0, line_num.t == ln))
            else:
                # invariant (B): the current line holds everything from column `shift` up to last_pos
                ex.assume(z3.And(z3.Length(line.t) == last_pos.t - shift.t, last_pos.t >= shift.t, shift.t >= 0))
                if case == 'same-line':
                    ex.assume(z3.And(ln == line_num.t, idx >= last_pos.t))            # tokenizer: tokens do not overlap
                else:
                    ex.assume(z3.And(ln != line_num.t, idx >= last_pos.t + 1))        # tokenizer: >= 1 character (the newline) in between
            env = Env(m)
            env.vars.update(content=content, line=line, shift=shift, last_pos=last_pos, line_num=line_num)
            bind_defaults(env, fd)
            ex.assign(loop.target, tok, env)
            ex.exec_block(loop.body, env)
            ex.path_state.update(env=env, tok=tok, pre=dict(content=content, line=line, shift=shift, last_pos=last_pos, line_num=line_num))
            return None

        def post_step(ex, o, case=case):
            if o.kind != 'return':
                return f'iteration raises {o.value.__name__}'
            v, pre, tok = o.state['env'].vars, o.state['pre'], o.state['tok']
            idx, val = tok.fields['index'].t, tok.fields['value'].t
            content2, line2 = v['content'], v['line']
            shift2, last2 = v['shift'], v['last_pos']

            def z(x):
                return x.t if isinstance(x, SymVal) else (z3.StringVal(x) if isinstance(x, str) else z3.IntVal(x))
            facts = []
            if case in ('first', 'same-line'):
                gap = idx - (z(pre['last_pos']) if case == 'same-line' else idx)
                pad = z3.String('pad_spec')
                facts.append(('content unchanged', z(content2) == z(pre['content'])))
                facts.append(('line grows by gap blanks + token text',
                              z3.Exists([pad], z3.And(z3.Length(pad) == gap, z3.InRe(pad, z3.Star(z3.Re(z3.StringVal(' ')))), z(line2) == z3.Concat(z(pre['line']), pad, val)))))
                facts.append(('shift unchanged', z(shift2) == z(pre['shift'])))
            else:
                gap = idx - z(pre['last_pos']) - 1
                pad = z3.String('pad_spec')
                facts.append(('finished line flushed with a newline', z(content2) == z3.Concat(z(pre['content']), z(pre['line']), z3.StringVal('\n'))))
                facts.append(('new line starts with gap-1 blanks + token text',
                              z3.Exists([pad], z3.And(z3.Length(pad) == gap, z3.InRe(pad, z3.Star(z3.Re(z3.StringVal(' ')))), z(line2) == z3.Concat(pad, val)))))
                facts.append(('shift is the column after the previous token', z(shift2) == z(pre['last_pos']) + 1))
            facts.append(('last_pos is the end of the token', z(last2) == idx + z3.Length(val)))
            facts.append(('invariant re-established', z3.And(z3.Length(z(line2)) == z(last2) - z(shift2), z(last2) >= z(shift2), z(shift2) >= 0)))
            for name, f in facts:
                ok, model = ex.valid(f, pc=o.pc)
                if not ok:
                    return f'{name}: not implied [{model}]'.replace('\n', ' ')[:400]
            return None
        _run(rep, f'C16.tts.step.{case}', run_step, post_step, fn,
             'requires INV and tokenizer contract; ensures output grows by (source gap as blanks | newline + gap-1 blanks) ++ token.value and INV', solver='cvc5-fallback')

    # ---- exit: the last line is appended
    def run_exit(ex):
        content, line = pysym.mk_str('content'), pysym.mk_str('line')
        env = Env(m)
        env.vars.update(content=content, line=line)
        bind_defaults(env, fd)
        from vlib.pysym.executor import ReturnSig
        try:
            ex.exec_block(post, env)
        except ReturnSig as r:
            ex.path_state.update(content=content, line=line)
            return r.v
        return None

    def post_exit(ex, o):
        if o.kind != 'return' or not isinstance(o.value, SymVal):
            return f'{o.kind} {o.value!r}'
        ok, _ = ex.valid(o.value.t == z3.Concat(o.state['content'].t, o.state['line'].t), pc=o.pc)
        return None if ok else 'result is not content ++ last line'
    _run(rep, 'C16.tts.exit', run_exit, post_exit, fn, 'ensures result == content ++ line')


def bind_defaults(env, fd):
    """parameters with a default keep their default (the property speaks about the calls the parser makes, which pass the token list only)"""
    a = fd.args
    pos = a.posonlyargs + a.args
    for arg, dflt in zip(pos[len(pos) - len(a.defaults):], a.defaults):
        try:
            env.vars.setdefault(arg.arg, ast.literal_eval(dflt))
        except Exception:
            pass
    for arg, dflt in zip(a.kwonlyargs, a.kw_defaults):
        if dflt is not None:
            try:
                env.vars.setdefault(arg.arg, ast.literal_eval(dflt))
            except Exception:
                pass


def tts_spec(toks):
    """specification of the rebuilt text: tokens in order; a token on the same line as its predecessor is preceded by as many blanks as there are
    characters between them in the source; a token on a new line starts a new output line, indented by (gap - 1) blanks (the newline itself is one
    character of the gap); the very first token starts at column 0"""
    out, line = [], ''
    last_pos, line_num = 0, toks[0].lineno
    first = True
    for t in toks:
        if first:
            gap = 0
        elif t.lineno != line_num:
            out.append(line)
            line = ''
            gap = t.index - last_pos - 1
            line_num = t.lineno
        else:
            gap = t.index - last_pos
        line += ' ' * max(gap, 0) + t.value
        last_pos = t.index + len(t.value)
        first = False
    out.append(line)
    return '\n'.join(out)


def tts_differential():
    import random
    from types import SimpleNamespace
    from mindsdb_sql.parser.utils import tokens_to_string
    rnd = random.Random(16)
    for _ in range(3000):
        n = rnd.randint(1, 7)
        pos, ln, toks = rnd.randint(0, 5), rnd.randint(1, 3), []
        for i in range(n):
            val = ''.join(rnd.choice('ab(),1') for _ in range(rnd.randint(1, 4)))
            if i:
                if rnd.random() < 0.3:
                    ln += rnd.randint(1, 2)
                    pos += rnd.randint(1, 6)
                else:
                    pos += rnd.randint(0, 3)
            toks.append(SimpleNamespace(type='ID', value=val, lineno=ln, index=pos, end=pos + len(val)))
            pos += len(val)
        try:
            got = tokens_to_string(toks)
        except Exception as e:
            got = f'{type(e).__name__}: {e}'
        want = tts_spec(toks)
        if got != want:
            return (repr([(t.value, t.lineno, t.index) for t in toks]), f'tokens_to_string gives {got!r}', f'{want!r}')
    return None


def _run(rep, oid, run, post, fn, clause, solver=None):
    import time
    t0 = time.time()
    ex = Executor(solver_timeout_ms=20000)
    try:
        outs = ex.explore(run)
        bad = None
        for o in outs:
            bad = post(ex, o)
            if bad:
                break
        v = pysym.Verdict(FAILED, bad) if bad else pysym.Verdict(PROVED, f'{len(outs)} path(s), {ex.n_queries} solver queries', ex.solver_time)
    except (Unsupported, PathLimit) as e:
        v = pysym.Verdict(UNDECIDED, f'{type(e).__name__}: {e}', time.time() - t0)
    _emit(rep, oid, v, fn, clause, replay=lambda: replay_inner("select 1 , 2"))


# ------------------------------------------------------------------ raw_query collection actions
def collect_obligations(rep):
    d = lrtab.load('mindsdb')
    fns = repo.find_functions(PARSER, 'MindsDBParser.raw_query')
    m = repo.import_module(PARSER)
    expected_rules = {'LPAREN raw_query RPAREN', 'raw_query LPAREN RPAREN', 'raw_query raw_query', '*all_tokens_list'}
    seen = set()
    for fd in fns:
        for rule in pysym.sly_rules_of(fd):
            seen.add(rule)
            oid = f'C16.collect.{rule.replace(" ", "_").replace("*", "")}'
            fn = f'{PARSER}:MindsDBParser.raw_query[{rule}]'
            syms = ['TOKEN'] if rule.startswith('*') else rule.split()

            def make_args(ex, syms=syms, rule=rule):
                pysym.pslice_stubs(ex)
                slice_syms = []
                values = []
                flat = []
                for i, s in enumerate(syms):
                    sym = SymObj(None, f'sym{i}', prov='param')
                    sym.known_not_none = True
                    if s == 'raw_query':
                        val = SymSeq(f'rq{i}', lambda e, l: SymObj(None, l), prov='param')
                        flat.append(('seq', val))
                    else:
                        val = pysym.mk_str(f'tokval{i}')
                        flat.append(('tok', sym))
                    sym.fields['value'] = val
                    slice_syms.append(sym)
                    values.append(val)
                p = pysym.make_p(ex, ' '.join(syms) if not rule.startswith('*') else 'TOKEN', values, slice_syms=ex.param_container(list(slice_syms)))
                ex.path_state.update(flat=flat, slice=slice_syms)
                return [SymObj(None, 'self'), p], {}

            def post(ex, o):
                if o.kind != 'return':
                    return f'raises {o.value.__name__}'
                got = flatten_seq(o.value)
                want = []
                for kind, x in o.state['flat']:
                    want.append(('seq', x) if kind == 'seq' else ('item', x))
                if got != want:
                    return f'returns {got!r}, expected the right-hand side tokens in order {want!r}'
                return None
            v = pysym.verify(PARSER, None, make_args, post, node=fd)
            _emit(rep, oid, v, fn, 'ensures result == tokens of the right-hand side, left to right (nested raw_query lists spliced in place)')
    if seen != expected_rules:
        rep.failed('C16.collect.rules', 'frames', f'raw_query rules are {sorted(seen)}, contract knows {sorted(expected_rules)}', function=f'{PARSER}:MindsDBParser.raw_query')
    else:
        rep.proved('C16.collect.rules', 'frames', 'raw_query has exactly the four known rules', function=f'{PARSER}:MindsDBParser.raw_query', clause='rule census')
    # catch-all covers every token kind but parentheses
    toks = set(d.Lexer.tokens)
    all_list = getattr(m, 'all_tokens_list', None)
    if all_list is not None and set(all_list) == toks - {'LPAREN', 'RPAREN'}:
        rep.proved('C16.alltokens', 'frames', f'{len(all_list)} token kinds', function=f'{PARSER}:all_tokens_list', clause='set(all_tokens_list) == MindsDBLexer.tokens - {LPAREN, RPAREN}')
    else:
        missing = sorted(toks - {'LPAREN', 'RPAREN'} - set(all_list or ()))
        inner = f'select {lrtab.load("mindsdb").lexemes().get(missing[0], "x")} from t' if missing else 'select 1'
        rep.failed('C16.alltokens', 'frames', f'token kinds not accepted inside raw queries: {missing[:5]}', function=f'{PARSER}:all_tokens_list', replay=replay_inner(inner))


def _fresh_len(ex, v):
    n = pysym.mk_int(ex.fresh_name(f'len({getattr(v, "label", "?")})'))
    ex.assume(n.t >= 0)
    return n


def flatten_seq(v):
    """normal form of a list value built by + over concrete lists and symbolic sequences: [('item', x) | ('seq', s)]"""
    out = []
    if isinstance(v, list):
        for x in v:
            out.append(('item', x))
        return out
    if isinstance(v, SymSeq):
        if getattr(v, 'concat_of', None):
            a, b = v.concat_of
            return flatten_seq(a) + flatten_seq(b)
        base = getattr(v, 'base', None)
        pre = [('item', x) for x in (getattr(v, 'prefix', None) or [])]
        if base is not None:
            core = flatten_seq(base)
            return pre + core + [('item', x) for x in v.suffix[len(base.suffix):]]
        if getattr(v, 'copy_of', None):
            return pre + flatten_seq(v.copy_of[0]) + [('item', x) for x in v.suffix[len(v.copy_of[0].suffix):]]
        return pre + [('seq', v)] + [('item', x) for x in v.suffix]
    return [('?', v)]


# ------------------------------------------------------------------ embedding actions store tts(raw_query)
def store_obligations(rep):
    m = repo.import_module(PARSER)
    cls = repo.find_class(PARSER, 'MindsDBParser')
    actions = []
    # embedding actions are found through the grammar (every action with a rule that has a `raw_query` symbol, except the collectors of raw_query itself),
    # not through what they call: an action that stops calling tokens_to_string must fail its obligation, not disappear
    for fd in cls.body:
        if isinstance(fd, ast.FunctionDef) and fd.name != 'raw_query' and any('raw_query' in r.split() for r in pysym.sly_rules_of(fd)):
            actions.append(fd)
    rep.census['embedding_actions'] = [f'{a.name}@{a.lineno}' for a in actions]
    expected_field = {'query_str', 'query', 'if_query_str'}
    counts = {}
    for fd in actions:
        k_act = counts.get(fd.name, 0)
        counts[fd.name] = k_act + 1
        for k_rule, rule in enumerate(pysym.sly_rules_of(fd)):
            syms = rule.split()
            if 'raw_query' not in syms:
                continue
            oid = f'C16.store.{fd.name}{k_act if k_act else ""}.rule{k_rule}'
            fn = f'{PARSER}:MindsDBParser.{fd.name}[{rule}]'

            def make_args(ex, syms=syms, rule=rule):
                pysym.pslice_stubs(ex)
                values = []
                rqs = []
                for i, s in enumerate(syms):
                    if s == 'raw_query':
                        val = SymSeq(f'raw_query#{len(rqs)}', lambda e, l: SymObj(None, l), prov='param')
                        rqs.append(val)
                    elif s.isupper():
                        val = s
                    elif s in ('job_schedule', 'kw_parameter_list'):
                        val = pysym.SymDictU(f'{s}@{i}', lambda e, l: pysym.mk_str(l), lambda e, l: SymObj(None, l), prov='param')
                    elif s in ('column_list', 'result_columns'):
                        val = SymSeq(f'{s}@{i}', lambda e, l: pysym.mk_str(l), prov='param')
                    else:
                        val = SymObj(None, f'{s}@{i}', prov='param')
                        val.known_not_none = True
                        val.truth_known = True
                        val.any_attr = True
                    values.append(val)
                p = pysym.make_p(ex, rule, values)
                orig = ex.field_oracle

                def oracle(ex_, obj, attr):
                    if getattr(obj, 'any_attr', False):
                        c = SymObj(None, f'{obj.label}.{attr}', prov='param')
                        c.any_attr = True
                        c.known_not_none = True
                        return c
                    return orig(ex_, obj, attr)
                ex.field_oracle = oracle
                ex.method_stubs['__len__'] = lambda ex_, v, a, k: _fresh_len(ex_, v)

                def tts(ex_, a, k, node=None):
                    r = pysym.mk_str(ex_.fresh_name('tts'))
                    ex_.log.append(Event('tts', arg=a[0], result=r))
                    return r
                ex.stubs[('mindsdb_sql.parser.utils', 'tokens_to_string')] = tts
                # every node constructor called by the action records its keyword arguments
                for n in ast.walk(fd):
                    if isinstance(n, ast.Call) and isinstance(n.func, ast.Name) and isinstance(getattr(m, n.func.id, None), type) \
                            and getattr(m, n.func.id).__module__.startswith('mindsdb_sql'):
                        K = getattr(m, n.func.id)

                        def ctor(ex_, a, k, node=None, K=K):
                            o_ = SymObj({K}, ex_.fresh_name(K.__name__), prov='fresh')
                            o_.fields.update(k)
                            o_.ctor_args = (a, k)
                            ex_.log.append(Event('ctor', cls=K, kwargs=k, obj=o_))
                            return o_
                        ex.stubs[(K.__module__, K.__qualname__)] = ctor
                ex.path_state.update(rqs=rqs)
                return [SymObj(None, 'self'), p], {}

            def post(ex, o):
                if o.kind != 'return':
                    from mindsdb_sql.exceptions import ParsingException
                    if issubclass(o.value, ParsingException):
                        return None
                    return f'raises {o.value.__name__}'
                rqs = o.state['rqs']
                tt = [e for e in o.log if e.kind == 'tts']
                if [e.arg for e in tt] != rqs and sorted(map(id, (e.arg for e in tt))) != sorted(map(id, rqs)):
                    return f'tokens_to_string is applied to {[e.arg for e in tt]!r}, expected each raw_query of the rule once'
                by_arg = {id(e.arg): e.result for e in tt}
                stored = {}
                for e in o.log:
                    if e.kind == 'ctor':
                        for k_, v_ in e.kwargs.items():
                            for j, rq in enumerate(rqs):
                                if v_ is by_arg.get(id(rq)):
                                    stored[j] = k_
                if 0 not in stored or stored[0] not in ('query_str', 'query'):
                    return f'the text of the (first) raw query is stored as {stored.get(0)!r}, expected query_str / query'
                if len(rqs) == 2 and stored.get(1) != 'if_query_str':
                    return f'the text of the IF query is stored as {stored.get(1)!r}, expected if_query_str'
                return None
            v = pysym.verify(PARSER, None, make_args, post, node=fd)
            _emit(rep, oid, v, fn, 'ensures node.query_str == tokens_to_string(p.raw_query) (job: query_str <- first, if_query_str <- second raw query)',
                  replay=lambda: replay_inner('select 1'))


# ------------------------------------------------------------------ bounded end-to-end
EMBED = {
    'create-model': ("CREATE MODEL m FROM db ({q}) PREDICT y", 'query_str'),
    'create-predictor': ("CREATE PREDICTOR m FROM db ({q}) PREDICT y", 'query_str'),
    'retrain': ("RETRAIN m FROM db ({q})", 'query_str'),
    'finetune': ("FINETUNE m FROM db ({q})", 'query_str'),
    'evaluate': ("EVALUATE acc FROM ({q})", 'query_str'),
    'create-view': ("CREATE VIEW v AS ({q})", 'query_str'),
    'create-job': ("CREATE JOB j ({q})", 'query_str'),
    'create-job-if': ("CREATE JOB j (select 1) IF ({q})", 'if_query_str'),
    'create-trigger': ("CREATE TRIGGER t ON db.tbl ({q})", 'query_str'),
    'native': ("SELECT * FROM db ({q})", None),
}
INNER = [
    "select * from t where name = ''", "select * from t where name = 'it''s'", "select @v , @@sv from t", 'select "a\\"b" from t',
    "select a,b from t", "select a\n  from t\n where b = 1", "select a -- comment\n from t", "select f(a, (b + 1)) from t", "select 1.50 , 007 from t",
    "select `my col` from t", "select a from t where s = 'x  y'", "select /* c */ a from t", "select a from t where b = '\\''",
    "(select a from t1) union (select a from t2)", "(select a from t1 where b in (1, 2)) union all (select a from t2 where c = f(1))", "(select a from t)", "((select a from t))",
    "select a from t where b in (select c from u)", "select (a + 1) * (b - 2) from t", "select a from (select a from t) as x",
    "select a\n--\n, b\nfrom t", "select a -- x\n, b from t", "select a --\n from t", "select a /* c */ , /* d\n e */ b from t",
    "select 'a\nb'||c as d from t", "select 'a\nb',c from t", "select \"a\nb\"||c as d from t", "select 'a\n\nb'=c , d from t",
    "retrain p1;\n retrain p2", "select 'a;\nb' from t", "select 'x  \ny' from t", "select now() from t", "select f( ) , g(()) from t", "select a from t ;\n",
]


def token_class(inner):
    d = lrtab.load('mindsdb')
    kinds = {t.type for t in d.Lexer().tokenize(inner)}
    for k in ('QUOTE_STRING', 'DQUOTE_STRING', 'SYSTEM_VARIABLE', 'VARIABLE'):
        if k in kinds:
            return k
    return 'other'


def bounded(rep, tier):
    from mindsdb_sql import parse_sql
    from vlib import corpus
    d = lrtab.load('mindsdb')
    inners = list(INNER)
    if tier == 'thorough':
        inners += [sql for src, sql, tree in corpus.parsed('mindsdb') if type(tree).__name__ == 'Select' and '(' not in sql][:300]
    n = 0
    fails = {}

    def raws(text):
        return [(t.type, text[t.index:t.end]) for t in d.Lexer().tokenize(text)]
    for name, (tmpl, field) in EMBED.items():
        for inner in inners:
            n += 1
            sql = tmpl.format(q=inner)
            try:
                q = parse_sql(sql, dialect='mindsdb')
            except Exception as e:
                continue
            if field is None:
                stored = q.from_table.query
            else:
                stored = getattr(q, field)
            try:
                ok = raws(stored) == raws(inner)
            except Exception:
                ok = False
            if not ok:
                fails.setdefault(f'C16.bounded.{name}.{token_class(inner)}', (sql, f'stored `{stored}`'))
    rep.bounded_evals = n
    rep.bounded_rule = ('13 inner queries (quotes, empty string, variables, comments, multi-line, numbers; + corpus SELECTs in thorough) x 10 embedding commands; stored text must '
                        're-lex to the same (kind, source text) sequence as the inner query; failures grouped by command x first rewritten token kind')
    for cid, (inp, obs) in sorted(fails.items()):
        rep.add_bounded(Bounded(cid, False, inp, obs, 'stored text = inner query up to whitespace/comments', bound='templates'))



def ignore_obligations(rep):
    """the text the lexer drops is exactly SQL's comments and white space (otherwise tokens of the statement silently disappear)"""
    from vlib import lexmodel, lrtab as _lr
    for dname in _lr.DIALECTS:
        d = _lr.load(dname)
        probs = lexmodel.ignore_rule_problems(d.Lexer)
        fn_ = f'{d.lexer_module}:{d.lexer_class_name}'
        clause = 'forall texts matched by an ignore rule: a `--`/`#` comment contains no line break, a block comment is the shortest /* ... */, anything else is white space'
        if not probs:
            rep.proved(f'C16.lex.ignore.{dname}', 'fst', 'every ignore rule matches only comments / white space', function=fn_, clause=clause)
        for name, w, text in probs:
            sql = None
            if w is not None and name != 'ignore':
                sql = f'select a {w} , b from t' if '\n' in (w or '') else None
            rep.failed(f'C16.lex.ignore.{dname}.{name}', 'fst', text, function=fn_, clause=clause,
                       replay={'input': f'select a\n{w}, b\nfrom t' if w else None, 'dialect': dname, 'fires': bool(w), 'observed': text, 'expected': 'only the comment is dropped'})

def lineno_obligations(rep):
    """tokens_to_string infers line breaks from token.lineno (C16.tts.*: a change of lineno stands for exactly the newline characters between two
    tokens). That holds only if the lexer advances its line counter for newline characters BETWEEN tokens and nowhere else: no token function that
    returns a token may write self.lineno (a multi-line string literal keeps the line number of its first line)."""
    import ast as _ast
    from vlib import lrtab as _lr
    for dname in _lr.DIALECTS:
        d = _lr.load(dname)
        L = d.Lexer
        fn_ = f'{d.lexer_module}:{d.lexer_class_name}'
        bad = []
        for name, f in sorted(L._token_funcs.items()):
            try:
                fds = repo.find_functions(f.__module__, f.__qualname__)
            except Exception:
                continue
            for fd in fds:
                returns_token = any(isinstance(n, _ast.Return) and n.value is not None for n in _ast.walk(fd))
                writes = [n for n in _ast.walk(fd) if isinstance(n, (_ast.Assign, _ast.AugAssign)) and any(
                    isinstance(t, _ast.Attribute) and t.attr == 'lineno' for t in (n.targets if isinstance(n, _ast.Assign) else [n.target]))]
                if returns_token and writes:
                    bad.append((name, _ast.unparse(writes[0])))
        oid = f'C16.lex.lineno.{dname}'
        clause = 'only rules that drop their text (newlines between tokens) advance the line counter; token functions that return a token leave lineno alone'
        if bad:
            rep.failed(oid, 'frames', f'token function {bad[0][0]} writes the line counter (`{bad[0][1]}`): the line number no longer counts the newlines BETWEEN tokens, which tokens_to_string relies on',
                       function=fn_, clause=clause, replay=replay_inner("select 'Dear customer,\nthank you'||name AS greeting, id from customers"))
        else:
            rep.proved(oid, 'frames', f'{len(L._token_funcs)} token functions; none that returns a token writes lineno', function=fn_, clause=clause)


def check(rep, tier):
    ignore_obligations(rep)
    lineno_obligations(rep)
    from vlib import statecensus
    statecensus.obligations(rep, 'C16', 'parser')
    rep.dropped = 'lexer actions extracted by vlib/codec.py; tokens_to_string loop body and parser actions read with ast.parse (decorators give the rules)'
    rep.assume('tokenizer contract: tok.index strictly increasing with index[i+1] >= index[i] + len(raw[i]); lineno non-decreasing; tokens on different lines are '
               'separated by at least one character (the newline)', 'sly: p._slice are the stack symbols of the right-hand side, p.<name> their values',
               'whitespace / comments between tokens are reproduced as blanks (allowed by the statement)')
    rep.trust('fst back end', 'pysym executor', 'z3 sequence theory')
    raw_obligations(rep)
    tts_obligations(rep)
    collect_obligations(rep)
    store_obligations(rep)
    from vlib import preproc
    preproc.obligation(rep, 'C16', tier, dialects=('mindsdb',), lead_semicolons=True)
    bounded(rep, tier)
    rep.notes.append('Reconstruction proved under value == source text; that precondition fails for the four rewriting token kinds (known findings).')
