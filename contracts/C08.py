"""C08 — executing a federated plan returns what the original query returns (PARTIAL: push-down safety lemmas only).

End-to-end multiset equality over all data is not decided (the meaning of fetched SQL lives in external engines).  Decided:
  limit.*            (pysym) check_use_limit: use_limit => SafeLimit (LIMIT present, no GROUP BY / HAVING, every data table after the
                     first joined by LEFT JOIN)
  filter.context.*   (real functions on every boolean context shape) a comparison is pushed into a table fetch only when it is a
                     top-level conjunct of WHERE (not under NOT / OR / a function)
  semijoin.<kind>    the `col IN <result>` restriction is added only for join kinds where the fetched table is not preserved
  outer.reapply      (pysym) the outer QueryStep re-applies the whole WHERE / GROUP / HAVING / ORDER / LIMIT / DISTINCT / targets
Bounded: the same lemmas monitored on the scenario family."""
import itertools, copy
import z3
from vlib import repo, pysym, plans
from vlib.core import PROVED, FAILED, UNDECIDED, Bounded
from vlib.pysym import SymObj, SymSeq, SymVal, Stub, Event, Unsupported, PathLimit

LEVEL = 'other'
MANIFEST = {
    'engine': 'pysym',
    'level': 'other',
    'technique': 'necessary-condition lemmas of push-down safety: symbolic execution of check_use_limit and of the outer re-application, exhaustive case analysis of boolean contexts and join kinds on the real decision functions; pysym lemmas on where per-table conditions come from (top-level conjuncts) and how they are combined; plan_union contract with bag-semantics soundness of changed flags; three-valued path analysis up to depth 3/4 as bounded stand-in',
    'text': 'Only necessary conditions for plan/query equivalence are decided (relational-algebra side conditions L1-L4 on LIMIT, selection and '
            'semi-join push-down); they are decided for all queries of the stated shape classes. Violations on the unchanged tree are genuine '
            'defects with replayed witness queries (known findings). End-to-end equivalence over data is NOT decided.',
    'note': 'Assumed: L1-L4 (LIMIT commutes only with left joins preserving the limited side and with no grouping; selection pushes through '
            'a join only as a top-level conjunct on the non-null-supplying side; semi-join restriction is sound only on non-preserved sides). '
            'Step meanings as in steps.py docstrings.',
}

PJ = 'mindsdb_sql.planner.plan_join'
CATALOG = dict(integrations=['int1', 'int2'], predictor_metadata=[{'name': 'pred', 'integration_name': 'mindsdb'}], default_namespace='mindsdb')


def plan(sql):
    from mindsdb_sql import parse_sql
    from mindsdb_sql.planner.query_planner import QueryPlanner
    kw = copy.deepcopy(CATALOG)
    return QueryPlanner(parse_sql(sql), **kw).from_query()


def fetches(plan_):
    from mindsdb_sql.planner.steps import FetchDataframeStep
    return [s for s in plan_.steps if isinstance(s, FetchDataframeStep)]


# ------------------------------------------------------------------ check_use_limit
def limit_obligations(rep):
    from mindsdb_sql.planner.plan_join import TableInfo
    from mindsdb_sql.parser.ast import Join
    fn = f'{PJ}:PlanJoinTablesQuery.check_use_limit'
    kinds = ['LEFT JOIN', 'JOIN', 'INNER JOIN', 'RIGHT JOIN', 'FULL JOIN']
    for n_tables in (1, 2, 3):
        for jk in itertools.product(kinds, repeat=n_tables - 1):
            for gb, hv, lim in [(g, h, True) for g in (False, True) for h in (False, True)]:
                tag = f't{n_tables}.{"+".join(k.replace(" ", "_") for k in jk) or "single"}.group{int(gb)}.having{int(hv)}.limit{int(lim)}'

                def make_args(ex, n_tables=n_tables, jk=jk, gb=gb, hv=hv, lim=lim):
                    selfo = SymObj(None, 'self', prov='param')
                    selfo.known_not_none = True
                    ctx = {}
                    selfo.fields['query_context'] = ex.param_container(ctx)
                    q = SymObj(None, 'query_in', prov='param')
                    q.known_not_none = True
                    mk = lambda name, present: (SymObj(None, name, prov='param') if present else None)
                    for name, present in (('group_by', gb), ('having', hv), ('limit', lim)):
                        v = mk(name, present)
                        if v is not None:
                            v.known_not_none = True
                        q.fields[name] = v
                    seq = []
                    for i in range(n_tables):
                        t = SymObj({TableInfo}, f'table{i}', prov='param')
                        t.fields.update(predictor_info=None, sub_select=None)
                        seq.append(t)
                        if i >= 1:
                            j = SymObj({Join}, f'join{i}', prov='param')
                            j.fields['join_type'] = jk[i - 1]
                            seq.append(j)
                    ex.path_state.update(ctx=ctx)
                    return [selfo, q, seq], {}

                def post(ex, o, jk=jk, gb=gb, hv=hv, lim=lim):
                    if o.kind != 'return':
                        return f'raises {o.value.__name__}'
                    use = o.state['ctx'].get('use_limit')
                    safe = not gb and not hv and all(k == 'LEFT JOIN' for k in jk)
                    if use and not safe:
                        why = []
                        if not lim:
                            why.append('no LIMIT')
                        if gb:
                            why.append('GROUP BY present')
                        if hv:
                            why.append('HAVING present')
                        if not all(k == 'LEFT JOIN' for k in jk):
                            why.append(f'joins {list(jk)}')
                        return f'use_limit is set although pushing LIMIT to the first table is unsafe ({", ".join(why)})'
                    return None
                v = pysym.verify(PJ, 'PlanJoinTablesQuery.check_use_limit', make_args, post)
                oid = f'C08.limit.{tag}'
                clause = 'requires LIMIT present; ensures use_limit => (no GROUP BY and no HAVING and every later data table is LEFT JOINed)'
                if v.status == PROVED:
                    rep.proved(oid, 'pysym', v.detail, function=fn, clause=clause, seconds=v.seconds)
                elif v.status == FAILED:
                    rep.failed(oid, 'pysym', v.detail, function=fn, clause=clause, replay=replay_limit(n_tables, jk, gb, hv, lim))
                else:
                    rep.undecided(oid, 'pysym', v.detail, function=fn, clause=clause)


def replay_limit(n_tables, jk, gb, hv, lim):
    """the witness query: is LIMIT (or OFFSET) really placed in the first table's fetch?"""
    tabs = ['int1.tbl1 AS t1', 'int2.tbl2 AS t2', 'int1.tbl3 AS t3']
    frm = tabs[0]
    for i, k in enumerate(jk):
        frm += f' {k} {tabs[i + 1]} ON t1.id = t{i + 2}.id'
    sql = f'SELECT t1.a FROM {frm}'
    if n_tables == 1:
        return {'input': None, 'observed': 'single-table queries do not reach the join planner'}
    if gb:
        sql += ' GROUP BY t1.a'
    if hv:
        sql += ' HAVING count(*) > 1'
    if lim:
        sql += ' LIMIT 5'
    try:
        p = plan(sql)
    except Exception as e:
        return {'input': sql, 'dialect': 'mindsdb', 'fires': False, 'observed': f'{type(e).__name__}: {e}'[:100]}
    f = fetches(p)
    pushed = bool(f) and f[0].query.limit is not None
    return {'input': sql, 'dialect': 'mindsdb', 'fires': pushed, 'observed': f'first fetch: `{f[0].query}`' if f else 'no fetch', 'expected': 'no LIMIT inside the fetch'}


# ------------------------------------------------------------------ boolean context of pushed filters
CONTEXTS = {
    'top': 't2.y = 1',
    'and': 't1.x = 2 AND t2.y = 1',
    'and-nested': 't1.x = 2 AND (t1.z = 3 AND t2.y = 1)',
    'not': 'NOT t2.y = 1',
    'not-and': 't1.x = 2 AND NOT t2.y = 1',
    'or': 't1.x = 2 OR t2.y = 1',
    'or-nested': 't1.x = 2 AND (t1.z = 3 OR t2.y = 1)',
    'function': 'coalesce(t2.y = 1, true)',
    'between-top': 't2.y BETWEEN 1 AND 2',
    'not-between': 'NOT t2.y BETWEEN 1 AND 2',
    'is-comparison': '(t2.y = 1) IS NULL',
}
TOP_CONJUNCT = {'top', 'and', 'and-nested', 'between-top'}


def context_obligations(rep):
    fn = f'{PJ}:PlanJoinTablesQuery.check_query_conditions,{PJ}:PlanJoinTablesQuery.check_node_condition,{PJ}:PlanJoinTablesQuery.process_table'
    for name, cond in CONTEXTS.items():
        sql = f'SELECT * FROM int1.tbl1 AS t1 JOIN int2.tbl2 AS t2 ON t1.id = t2.id WHERE {cond}'
        oid = f'C08.filter.context.{name}'
        clause = 'a comparison on t2 is pushed into the fetch of t2 only if it is a top-level conjunct of WHERE'
        try:
            p = plan(sql)
        except Exception as e:
            rep.undecided(oid, 'pysym', f'planner raises {type(e).__name__}: {e}'[:150], function=fn, clause=clause)
            continue
        f2 = [f for f in fetches(p) if f.integration == 'int2']
        w = str(f2[0].query.where) if f2 and f2[0].query.where is not None else ''
        pushed = 'y' in w.replace('`', '') and ('= 1' in w or 'BETWEEN' in w.upper())
        if pushed and name not in TOP_CONJUNCT:
            rep.failed(oid, 'pysym', f'the comparison inside `{cond}` is pushed into the fetch of t2 as `{w}`', function=fn, clause=clause,
                       replay={'input': sql, 'dialect': 'mindsdb', 'fires': True, 'observed': f'fetch from int2: `{f2[0].query}`', 'expected': 'no filter on y pushed'})
        else:
            rep.proved(oid, 'pysym', f'{"pushed (top-level conjunct)" if pushed else "not pushed"}: fetch where = `{w}`', function=fn, clause=clause)


# ------------------------------------------------------------------ where per-table conditions come from and how they are combined (pysym)
def conjunct_obligations(rep):
    """Sufficient-condition lemmas behind the path analysis (unbounded in the depth and shape of WHERE):
      conjuncts  check_query_conditions hands check_node_condition only nodes reached from WHERE through AND nodes (top-level conjuncts)
      combine    process_table builds fetch.where as the AND of (a subset of the table's collected conditions, the join filters)
    Together: every pushed filter is a top-level conjunct of WHERE, hence implied by it. They describe one sufficient way to satisfy the property:
    if an implementation stops satisfying them the verdict is NOT-ESTABLISHED (soft) and the decision rests on C08.filter.path.* up to its depth."""
    from mindsdb_sql.parser.ast import Identifier, BinaryOperation, BetweenOperation, UnaryOperation, Function, Constant
    from mindsdb_sql.planner.plan_join import PlanJoinTablesQuery
    fn = f'{PJ}:PlanJoinTablesQuery.process_table'

    def make_args(ex):
        selfo = SymObj(None, 'self', prov='param')
        selfo.known_not_none = True
        op1, op2 = pysym.mk_str('op1'), pysym.mk_str('op2')
        ctx = {'binary_ops': ['and', op1, op2], 'use_limit': False}
        selfo.fields['query_context'] = ex.param_container(ctx)
        c1, c2, j1 = (SymObj(None, n, prov='param') for n in ('cond1', 'cond2', 'joinfilter'))
        for c in (c1, c2, j1):
            c.known_not_none = True
            c.fields['_under_or'] = pysym.mk_bool(f'{c.label}._under_or') if hasattr(pysym, 'mk_bool') else False
        item = SymObj(None, 'item', prov='param')
        item.known_not_none = True
        tbl = SymObj({Identifier}, 'table', prov='param')
        tbl.known_not_none = True
        tbl.fields.update(alias=None, parentheses=False, parts=ex.param_container(['tbl2']))
        tbl.closed = True
        item.fields.update(table=tbl, integration='int2', conditions=ex.param_container([c1, c2]), index=0)
        selfo.fields['get_filters_from_join_conditions'] = Stub(lambda ex_, a, k: [j1], 'get_filters_from_join_conditions')
        captured = []
        planner = SymObj(None, 'planner', prov='param')
        planner.known_not_none = True
        planner.fields['get_integration_select_step'] = Stub(lambda ex_, a, k: (captured.append(a[0]), SymObj(None, 'step', prov='fresh'))[1], 'get_integration_select_step')
        selfo.fields['planner'] = planner
        selfo.fields['add_plan_step'] = Stub(lambda ex_, a, k: a[0], 'add_plan_step')
        selfo.fields['step_stack'] = ex.param_container([])
        selfo.fields['tables_fetch_step'] = ex.param_container({})
        q = SymObj(None, 'query_in', prov='param')
        q.known_not_none = True
        ex.path_state.update(captured=captured, conds=(c1, c2, j1))
        return [selfo, item, q], {}

    def post(ex, o):
        if o.kind != 'return':
            return f'raises {getattr(o.value, "__name__", o.value)}'
        cap = o.state['captured']
        if len(cap) != 1:
            return f'{len(cap)} fetch queries built'
        c1, c2, j1 = o.state['conds']
        leaves = []

        def walk(w):
            if w is None:
                return None
            if w in (c1, c2, j1):
                leaves.append(w)
                return None
            f = getattr(w, 'fields', {}) or {}
            if f.get('op') != 'and' or not isinstance(f.get('args'), list):
                return f'the fetch filter contains something that is neither a collected condition nor a join filter, or combines them by {f.get("op")!r}'
            for a in f['args']:
                r = walk(a)
                if r:
                    return r
            return None
        r = walk(cap[0].fields.get('where'))
        if r:
            return r
        if j1 not in leaves:
            return 'the join filter is dropped'
        return None
    v = pysym.verify(PJ, 'PlanJoinTablesQuery.process_table', make_args, post)
    oid = 'C08.filter.combine'
    clause = 'ensures fetch.where is the AND of (a subset of item.conditions, all join filters); nothing else enters the fetch filter'
    if v.status == PROVED:
        rep.proved(oid, 'pysym', v.detail, function=fn, clause=clause, seconds=v.seconds)
    else:
        rep.undecided(oid, 'pysym', f'sufficient condition not established ({v.detail[:200]}): the decision rests on C08.filter.path.* up to its depth', function=fn, clause=clause, soft=True)

    limit_transfer_obligations(rep)
    fn2 = f'{PJ}:PlanJoinTablesQuery.check_query_conditions'

    def make_args2(ex):
        selfo = SymObj({PlanJoinTablesQuery}, 'self', prov='param')
        selfo.known_not_none = True
        ctx = {}
        selfo.fields['query_context'] = ex.param_container(ctx)
        seen = []
        selfo.fields['check_node_condition'] = Stub(lambda ex_, a, k: seen.append(a[0]), 'check_node_condition')

        def leafcmp(name):
            n = SymObj({BinaryOperation}, name, prov='param')
            n.known_not_none = True
            n.fields.update(op=pysym.mk_str(f'{name}.op'), args=ex.param_container([SymObj({Identifier}, f'{name}.col', prov='param'), SymObj({Constant}, f'{name}.const', prov='param')]), alias=None, parentheses=False)
            return n

        def node(K, name, **fields):
            n = SymObj({K}, name, prov='param')
            n.known_not_none = True
            n.fields.update(alias=None, parentheses=False, **fields)
            return n
        top1, top2, under_or1, under_or2, under_not, under_fn, under_and_under_or = (leafcmp(x) for x in ('top1', 'top2', 'under_or1', 'under_or2', 'under_not', 'under_fn', 'under_and_under_or'))
        btw = node(BetweenOperation, 'top_between', args=ex.param_container([SymObj({Identifier}, 'b.col', prov='param'), SymObj({Constant}, 'lo', prov='param'), SymObj({Constant}, 'hi', prov='param')]))
        grp = node(BinaryOperation, 'and_under_or', op='and', args=ex.param_container([under_and_under_or, under_or2]))
        orn = node(BinaryOperation, 'or', op='or', args=ex.param_container([under_or1, grp]))
        notn = node(UnaryOperation, 'not', op='not', args=ex.param_container([under_not]))
        fnn = node(Function, 'function', op='coalesce', args=ex.param_container([under_fn, SymObj({Constant}, 'true', prov='param')]), distinct=False, from_arg=None, namespace=None)
        a3 = node(BinaryOperation, 'and3', op='and', args=ex.param_container([fnn, btw]))
        a2 = node(BinaryOperation, 'and2', op='and', args=ex.param_container([notn, a3]))
        a1 = node(BinaryOperation, 'and1', op='and', args=ex.param_container([orn, a2]))
        a0 = node(BinaryOperation, 'and0', op='AND', args=ex.param_container([top2, a1]))
        where = node(BinaryOperation, 'where', op='and', args=ex.param_container([top1, a0]))
        q = SymObj(None, 'query', prov='param')
        q.known_not_none = True
        q.fields['where'] = where
        every = [where, top1, a0, top2, a1, orn, under_or1, grp, under_and_under_or, under_or2, a2, notn, under_not, a3, fnn, under_fn, btw]

        def traversal(ex_, a, k, node_=None):
            for n in every:
                ex_.call(a[1], [n], {})
            return None
        ex.stubs[('mindsdb_sql.planner.utils', 'query_traversal')] = traversal
        ex.recursion_ok['check_query_conditions.'] = 12
        for nm in ('top1', 'top2'):
            pass
        ex.path_state.update(seen=seen, conj={id(top1): 'top1', id(top2): 'top2', id(btw): 'top_between'},
                             nonconj={id(under_or1): 'under_or1', id(under_or2): 'under_or2', id(under_not): 'under_not', id(under_fn): 'under_fn', id(under_and_under_or): 'under_and_under_or'},
                             leaf_ops=[top1.fields['op'], top2.fields['op']])
        return [selfo, q], {}

    def post2(ex, o):
        if o.kind != 'return':
            return f'raises {getattr(o.value, "__name__", o.value)}'
        st = o.state
        bad = [st['nonconj'][id(n)] for n in st['seen'] if id(n) in st['nonconj']]
        if bad:
            return f'comparisons that are not top-level conjuncts are collected as table conditions: {sorted(set(bad))}'
        return None
    try:
        v2 = pysym.verify(PJ, 'PlanJoinTablesQuery.check_query_conditions', make_args2, post2)
        status, detail, secs = v2.status, v2.detail, v2.seconds
    except Exception as e:
        status, detail, secs = UNDECIDED, f'{type(e).__name__}: {e}', None
    oid2 = 'C08.filter.conjuncts'
    clause2 = 'ensures check_node_condition is only ever given nodes reached from query.where through AND nodes (a WHERE with comparisons at the top, under OR, under an AND group under OR, under NOT and inside a function call; operators of the leaves symbolic)'
    if status == PROVED:
        rep.proved(oid2, 'pysym', detail, function=fn2, clause=clause2, seconds=secs)
    else:
        rep.undecided(oid2, 'pysym', f'sufficient condition not established ({detail[:200]}): the decision rests on C08.filter.path.* up to its depth', function=fn2, clause=clause2, soft=True)


def limit_transfer_obligations(rep):
    """process_table when the LIMIT push-down was judged safe (use_limit) or not: LIMIT stays on the outer query, OFFSET is applied exactly once
    (moved into the fetch together with LIMIT, or left on the outer query), a pushed LIMIT carries the complete ORDER BY"""
    from mindsdb_sql.parser.ast import Identifier, OrderBy
    fn = f'{PJ}:PlanJoinTablesQuery.process_table'
    for use_limit in (True, False):
        for order in ('none', 'own', 'other', 'unknown', 'own+other'):
            for has_offset in (True, False):
                def make_args(ex, use_limit=use_limit, order=order, has_offset=has_offset):
                    selfo = SymObj(None, 'self', prov='param')
                    selfo.known_not_none = True
                    selfo.fields['query_context'] = ex.param_container({'binary_ops': ['and'], 'use_limit': use_limit})
                    item = SymObj(None, 'item', prov='param')
                    item.known_not_none = True
                    tbl = SymObj({Identifier}, 'table', prov='param')
                    tbl.known_not_none = True
                    tbl.fields.update(alias=None, parentheses=False, parts=ex.param_container(['tbl1']))
                    tbl.closed = True
                    item.fields.update(table=tbl, integration='int1', conditions=ex.param_container([]), index=0)
                    other_tbl = SymObj({Identifier}, 'other_table', prov='param')
                    own_info = SymObj(None, 'own_info', prov='param')
                    own_info.known_not_none = True
                    own_info.fields['table'] = tbl
                    oth_info = SymObj(None, 'other_info', prov='param')
                    oth_info.known_not_none = True
                    oth_info.fields['table'] = other_tbl
                    cols = []
                    for i, kind in enumerate([] if order == 'none' else order.split('+')):
                        f = SymObj({Identifier}, f'order_col{i}', prov='param')
                        f.known_not_none = True
                        f.copyable = True
                        f.closed = True
                        f.fields.update(alias=None, parentheses=False, parts=ex.param_container(['t', f'c{i}']))
                        ob = SymObj({OrderBy}, f'order{i}', prov='param')
                        ob.known_not_none = True
                        ob.copyable = True
                        ob.fields.update(field=f, direction='default', nulls='default', alias=None, parentheses=False)
                        cols.append((ob, f, kind))
                    infos = {id(f): {'own': own_info, 'other': oth_info, 'unknown': None}[k] for ob, f, k in cols}
                    selfo.fields['get_table_for_column'] = Stub(lambda ex_, a, k: infos.get(id(a[0])), 'get_table_for_column')
                    selfo.fields['get_filters_from_join_conditions'] = Stub(lambda ex_, a, k: [], 'get_filters_from_join_conditions')
                    captured = []
                    planner = SymObj(None, 'planner', prov='param')
                    planner.known_not_none = True
                    planner.fields['get_integration_select_step'] = Stub(lambda ex_, a, k: (captured.append(a[0]), SymObj(None, 'step', prov='fresh'))[1], 'get_integration_select_step')
                    selfo.fields['planner'] = planner
                    selfo.fields['add_plan_step'] = Stub(lambda ex_, a, k: a[0], 'add_plan_step')
                    selfo.fields['step_stack'] = ex.param_container([])
                    selfo.fields['tables_fetch_step'] = ex.param_container({})
                    q = SymObj(None, 'query_in', prov='param')
                    q.known_not_none = True
                    L = SymObj(None, 'LIMIT', prov='param')
                    L.known_not_none = True
                    O = None
                    if has_offset:
                        O = SymObj(None, 'OFFSET', prov='param')
                        O.known_not_none = True
                    q.fields.update(limit=L, offset=O, order_by=None if order == 'none' else ex.param_container([ob for ob, f, k in cols]))
                    ex.path_state.update(captured=captured, q=q, L=L, O=O, cols=cols)
                    return [selfo, item, q], {}

                def post(ex, o, use_limit=use_limit, order=order, has_offset=has_offset):
                    if o.kind != 'return':
                        return f'raises {getattr(o.value, "__name__", o.value)}'
                    st = o.state
                    cap = st['captured']
                    if len(cap) != 1:
                        return f'{len(cap)} fetch queries built'
                    q2, q, L, O = cap[0], st['q'], st['L'], st['O']
                    f2 = q2.fields
                    l2, o2, ob2 = f2.get('limit'), f2.get('offset'), f2.get('order_by')
                    if q.fields.get('limit') is not L:
                        return 'the LIMIT of the outer query is removed or replaced'
                    pushed = l2 is not None
                    if pushed and l2 is not L:
                        return f'the fetch gets a LIMIT {l2!r} that is not the LIMIT of the query'
                    if not use_limit and (pushed or o2 is not None):
                        return 'LIMIT / OFFSET is pushed into the fetch although the push-down was not judged safe'
                    if pushed:
                        if not (o2 is O and q.fields.get('offset') is None):
                            return f'LIMIT is pushed into the fetch but OFFSET is not moved with it (fetch offset {o2!r}, outer offset {q.fields.get("offset")!r}, written {O!r})'
                        n_written = 0 if order == 'none' else len(order.split('+'))
                        if n_written and not (isinstance(ob2, list) and len(ob2) == n_written):
                            return f'LIMIT is pushed into the fetch without the complete ORDER BY of the query ({ob2!r})'
                        if order != 'none' and any(k != 'own' for _, _, k in st['cols']):
                            return 'LIMIT is pushed into the fetch although the query orders by a column that is not a column of this table'
                    else:
                        if o2 is not None:
                            return 'OFFSET is pushed into the fetch without LIMIT'
                        if q.fields.get('offset') is not O:
                            return f'LIMIT is not pushed into the fetch but the OFFSET of the outer query is dropped: no step applies OFFSET any more (outer offset {q.fields.get("offset")!r}, written {O!r})'
                        if ob2:
                            pass
                    return None
                exl = pysym.Executor()
                # assumed contract of ASTNode.__eq__ on the two table identifiers of this scenario: equal iff the same table (C18 decides __eq__ itself)
                exl.stubs[('mindsdb_sql.parser.ast.base', 'ASTNode.__eq__')] = lambda ex_, a, k, node_=None: a[0] is a[1]
                v = pysym.verify(PJ, 'PlanJoinTablesQuery.process_table', make_args, post, ex=exl)
                oid = f'C08.limit.transfer.{"safe" if use_limit else "unsafe"}.order-{order}.{"offset" if has_offset else "nooffset"}'
                clause = ('ensures the outer LIMIT stays; OFFSET is applied exactly once (in the fetch iff LIMIT is pushed there, else on the outer query); '
                          'a pushed LIMIT carries the whole ORDER BY and only when every ordering column belongs to this table; nothing is pushed when use_limit is off')
                rp = (lambda: replay_offset()) if has_offset else None
                if v.status == PROVED:
                    rep.proved(oid, 'pysym', v.detail, function=fn, clause=clause, seconds=v.seconds)
                elif v.status == FAILED:
                    rep.failed(oid, 'pysym', v.detail, function=fn, clause=clause, cex=v.cex, replay=rp() if rp else None)
                else:
                    rep.undecided(oid, 'pysym', v.detail, function=fn, clause=clause)


def replay_offset():
    """LIMIT/OFFSET queries over a left join: OFFSET must be applied by exactly one step"""
    from mindsdb_sql.planner.steps import QueryStep, LimitOffsetStep
    for sql in ('SELECT * FROM int1.tbl1 AS t1 LEFT JOIN int2.tbl2 AS t2 ON t1.id = t2.id ORDER BY t2.y LIMIT 2 OFFSET 1',
                'SELECT * FROM int1.tbl1 AS t1 LEFT JOIN int2.tbl2 AS t2 ON t1.id = t2.id ORDER BY t1.x LIMIT 2 OFFSET 1',
                'SELECT * FROM int1.tbl1 AS t1 LEFT JOIN int2.tbl2 AS t2 ON t1.id = t2.id LIMIT 2 OFFSET 1',
                'SELECT * FROM int1.tbl1 AS t1 LEFT JOIN int2.tbl2 AS t2 ON t1.id = t2.id ORDER BY y LIMIT 2 OFFSET 1'):
        try:
            p = plan(sql)
        except Exception:
            continue
        n = 0
        for s_ in p.steps:
            qq = getattr(s_, 'query', None)
            if qq is not None and getattr(qq, 'offset', None) is not None:
                n += 1
            if isinstance(s_, LimitOffsetStep) and getattr(s_, 'offset', None) is not None:
                n += 1
        if n != 1:
            return {'input': sql, 'dialect': 'mindsdb', 'fires': True, 'observed': f'{n} steps apply OFFSET: {[str(getattr(s_, "query", type(s_).__name__))[:90] for s_ in p.steps]}', 'expected': 'exactly one step applies OFFSET 1'}
    return {'input': 'left joins with LIMIT 2 OFFSET 1', 'dialect': 'mindsdb', 'fires': False, 'observed': 'OFFSET applied once'}


def api_obligations(rep):
    """plan_api_db_select (integrations of class `api`): WHERE / ORDER BY / LIMIT go into the fetch, the rest is applied by an outer step. Pushing
    LIMIT below the outer step is sound only if that step does not group, filter groups, remove duplicates or skip rows (L1); finite case analysis
    on the real planner over the clause combinations"""
    from mindsdb_sql import parse_sql
    from mindsdb_sql.planner import plan_query
    from mindsdb_sql.planner.steps import FetchDataframeStep
    fn = 'mindsdb_sql.planner.query_planner:QueryPlanner.plan_api_db_select'
    ints = [{'name': 'api1', 'class_type': 'api', 'type': 'data'}, {'name': 'int2', 'class_type': 'sql', 'type': 'data'}]
    for g, h, d, o, ob in itertools.product((0, 1), (0, 1), (0, 1), (0, 1), (0, 1)):
        if h and not g:
            continue
        tg = 'a, count(*)' if g else 'a, b'
        sql = (f'SELECT {"DISTINCT " if d else ""}{tg} FROM api1.t WHERE c = 1' + (' GROUP BY a' if g else '') + (' HAVING count(*) > 1' if h else '') +
               (' ORDER BY a' if ob else '') + ' LIMIT 5' + (' OFFSET 2' if o else ''))
        oid = f'C08.api.limit.group{g}.having{h}.distinct{d}.offset{o}.order{ob}'
        clause = 'LIMIT reaches the fetch from an api integration only if the outer step neither groups, filters groups, removes duplicates nor skips rows; the outer step keeps LIMIT otherwise'
        try:
            p = plan_query(parse_sql(sql), integrations=copy.deepcopy(ints), default_namespace='mindsdb')
        except Exception as e:
            rep.undecided(oid, 'pysym', f'{type(e).__name__}: {e}'[:120], function=fn, clause=clause)
            continue
        f = [s_ for s_ in p.steps if isinstance(s_, FetchDataframeStep)]
        inner_limit = bool(f) and f[0].query.limit is not None
        outer = [s_ for s_ in p.steps if not isinstance(s_, FetchDataframeStep)]
        outer_limit = any(getattr(getattr(s_, 'query', None), 'limit', None) is not None for s_ in outer)
        safe = not (g or h or d or o)
        if inner_limit and ob and not f[0].query.order_by:
            rep.failed(oid, 'pysym', f'LIMIT is pushed into the fetch `{f[0].query}` without the ORDER BY of the query: the integration returns an arbitrary 5 rows', function=fn, clause=clause,
                       replay={'input': sql, 'dialect': 'mindsdb', 'fires': True, 'observed': f'plan: {[str(getattr(s_, "query", type(s_).__name__)) for s_ in p.steps]}', 'expected': 'ORDER BY together with LIMIT'})
            continue
        if inner_limit and not safe:
            why = [n for n, x in (('GROUP BY', g), ('HAVING', h), ('DISTINCT', d), ('OFFSET', o)) if x]
            rep.failed(oid, 'pysym', f'LIMIT is pushed into the fetch `{f[0].query}` although the outer step applies {", ".join(why)}: the limit then counts rows before that step', function=fn, clause=clause,
                       replay={'input': sql, 'dialect': 'mindsdb', 'fires': True, 'observed': f'plan: {[str(getattr(s_, "query", type(s_).__name__)) for s_ in p.steps]}', 'expected': 'LIMIT applied after ' + ", ".join(why)})
        elif not inner_limit and not outer_limit:
            rep.failed(oid, 'pysym', 'LIMIT is applied by no step', function=fn, clause=clause,
                       replay={'input': sql, 'dialect': 'mindsdb', 'fires': True, 'observed': f'plan: {[str(getattr(s_, "query", type(s_).__name__)) for s_ in p.steps]}', 'expected': 'LIMIT 5 somewhere'})
        else:
            rep.proved(oid, 'pysym', f'limit {"in the fetch" if inner_limit else "on the outer step"}', function=fn, clause=clause)


def udf_obligations(rep):
    """plan_integration_select_with_functions (a user-defined function `ns.f(...)` in the query): comparisons on the function cannot be evaluated by
    the integration and are applied by an outer step. Finite case analysis on the real planner:
      where.<context>   the filter sent to the integration is implied by the original WHERE (three-valued truth table; the UDF comparison is an
                        unknown leaf) - replacing the comparison by a tautology is sound only in a monotone position
      limit.<shape>     LIMIT / OFFSET reach the fetch only if the outer step applies no filter, grouping or DISTINCT; OFFSET is applied exactly once"""
    from mindsdb_sql import parse_sql
    from mindsdb_sql.planner import plan_query
    from mindsdb_sql.planner.steps import FetchDataframeStep
    fn = 'mindsdb_sql.planner.query_planner:QueryPlanner.plan_integration_select_with_functions'
    ints = [{'name': 'int1', 'class_type': 'sql', 'type': 'data'}]

    def run(sql):
        p = plan_query(parse_sql(sql), integrations=copy.deepcopy(ints), default_namespace='mindsdb')
        f = [s_ for s_ in p.steps if isinstance(s_, FetchDataframeStep)]
        outer = [s_ for s_ in p.steps if not isinstance(s_, FetchDataframeStep)]
        return p, (f[0].query if f else None), outer
    # ---- WHERE contexts: evaluate the fetch filter for every valuation with the UDF leaf unknown
    from mindsdb_sql.parser import ast as A

    def ev(node, val):
        if node is None:
            return T
        if isinstance(node, A.BinaryOperation):
            op = node.op.lower()
            if op == 'and':
                return _and(ev(node.args[0], val), ev(node.args[1], val))
            if op == 'or':
                return _or(ev(node.args[0], val), ev(node.args[1], val))
            txt = ' '.join(node.get_string().replace('`', '').split())
            if txt in val:
                return val[txt]
            if all(isinstance(a, A.Constant) for a in node.args):
                return T if (node.args[0].value == node.args[1].value) == (op == '=') else F
            raise KeyError(txt)
        if isinstance(node, A.UnaryOperation) and node.op.lower() == 'not':
            return _not(ev(node.args[0], val))
        raise KeyError(str(node))
    LEAF, OTHER = 'ns.f(a) > 1', 'b = 2'
    contexts = {'top': LEAF, 'and': f'{OTHER} AND {LEAF}', 'or': f'{OTHER} OR {LEAF}', 'not': f'NOT ({LEAF})', 'not-or': f'NOT ({OTHER} OR {LEAF})',
                'and-not': f'{OTHER} AND NOT ({LEAF})', 'or-and': f'{OTHER} OR ({OTHER} AND {LEAF})', 'mirrored': '1 < ns.f(a)'}
    for cname, cond in contexts.items():
        sql = f'SELECT a FROM int1.t WHERE {cond}'
        oid = f'C08.udf.where.{cname}'
        clause = 'the filter sent to the integration is implied by the original WHERE for every value (true / false / unknown) of the UDF comparison'
        try:
            p, fq, outer = run(sql)
            orig = parse_sql(sql).where
            bad = None
            leaf_txt = ' '.join(parse_sql(f'select 1 from t where {LEAF if cname != "mirrored" else "1 < ns.f(a)"}').where.get_string().replace('`', '').split())
            for lv, ov in itertools.product((T, F, U), (T, F, U)):
                val = {leaf_txt: lv, OTHER: ov}
                if ev(orig, val) == T and ev(fq.where, val) != T:
                    bad = (lv, ov, str(fq.where))
                    break
        except Exception as e:
            rep.undecided(oid, 'pysym', f'{type(e).__name__}: {e}'[:160], function=fn, clause=clause)
            continue
        if bad:
            rep.failed(oid, 'pysym', f'`{sql}`: the fetch is filtered by `{bad[2]}`, which is not true when the UDF comparison is {bad[0]} and `{OTHER}` is {bad[1]} although WHERE is true: rows are lost before the function is evaluated',
                       function=fn, clause=clause, replay={'input': sql, 'dialect': 'mindsdb', 'fires': True, 'observed': f'fetch `{fq}`', 'expected': 'a filter implied by WHERE'})
        else:
            rep.proved(oid, 'pysym', f'fetch filter `{fq.where}`', function=fn, clause=clause)
    # ---- LIMIT / OFFSET
    for udf_in, grp, dist, off, ordr in itertools.product(('where', 'target'), (0, 1), (0, 1), (0, 1), (0, 1)):
        tg = ('ns.f(a)' if udf_in == 'target' else 'a') + (', count(*)' if grp else '')
        sql = (f'SELECT {"DISTINCT " if dist else ""}{tg} FROM int1.t WHERE b = 2' + (' AND ns.f(a) > 1' if udf_in == 'where' else '') + (' GROUP BY a' if grp else '') +
               (' ORDER BY a' if ordr else '') + ' LIMIT 5' + (' OFFSET 2' if off else ''))
        oid = f'C08.udf.limit.{udf_in}.group{grp}.distinct{dist}.offset{off}.order{ordr}'
        clause = 'LIMIT / OFFSET reach the fetch only if the outer step neither filters, groups nor removes duplicates; LIMIT and OFFSET are each applied exactly once'
        try:
            p, fq, outer = run(sql)
        except Exception as e:
            rep.undecided(oid, 'pysym', f'{type(e).__name__}: {e}'[:160], function=fn, clause=clause)
            continue
        oq = [getattr(s_, 'query', None) for s_ in outer]
        n_lim = (fq.limit is not None) + sum(1 for q_ in oq if getattr(q_, 'limit', None) is not None)
        n_off = (fq.offset is not None) + sum(1 for q_ in oq if getattr(q_, 'offset', None) is not None)
        outer_filters = any(getattr(q_, 'where', None) is not None for q_ in oq)
        problems = []
        if n_lim != 1:
            problems.append(f'LIMIT is applied by {n_lim} steps')
        if n_off != (1 if off else 0):
            problems.append(f'OFFSET is applied by {n_off} steps')
        if (fq.limit is not None or fq.offset is not None) and (outer_filters or grp or dist):
            problems.append('LIMIT / OFFSET is pushed into the fetch although the outer step ' + ', '.join(w for w, x in (('filters', outer_filters), ('groups', grp), ('removes duplicates', dist)) if x))
        if problems:
            rep.failed(oid, 'pysym', f'`{sql}`: ' + '; '.join(problems), function=fn, clause=clause,
                       replay={'input': sql, 'dialect': 'mindsdb', 'fires': True, 'observed': f'plan: {[str(getattr(s_, "query", type(s_).__name__)) for s_ in p.steps]}', 'expected': 'limit / offset applied once, after filtering'})
        else:
            rep.proved(oid, 'pysym', f'limit {"in the fetch" if fq.limit is not None else "on the outer step"}', function=fn, clause=clause)


def subselect_obligations(rep):
    """plan_sub_select (the shared tail of api selects, nested selects, native queries and injected data): the outer select may be skipped only
    if it is a bare `SELECT *`; any clause - GROUP BY, ORDER BY, HAVING, DISTINCT, WHERE, LIMIT, OFFSET, a real select list - needs the step"""
    from mindsdb_sql.parser.ast import Select, Star, Identifier
    from mindsdb_sql.planner.steps import SubSelectStep
    from mindsdb_sql.planner.query_planner import QueryPlanner
    QP = 'mindsdb_sql.planner.query_planner'
    fn = f'{QP}:QueryPlanner.plan_sub_select'
    for clause_name in ('none', 'group_by', 'order_by', 'having', 'distinct', 'where', 'limit', 'offset', 'two-targets', 'column-target'):
        def make_args(ex, clause_name=clause_name):
            planner = SymObj({QueryPlanner}, 'planner', prov='param')
            planner.known_not_none = True
            pl = SymObj(None, 'plan', prov='param')
            pl.known_not_none = True
            added = []
            pl.fields['add_step'] = Stub(lambda ex_, a, k: (added.append(a[0]), a[0])[1], 'add_step')
            planner.fields['plan'] = pl
            prev = SymObj(None, 'prev_step', prov='param')
            prev.known_not_none = True
            prev.fields['result'] = SymObj(None, 'prev_result', prov='param')
            t = SymObj({Identifier}, 'from_table', prov='param')
            t.known_not_none = True
            t.closed = True
            t.fields.update(alias=None, parentheses=False, parts=ex.param_container(['t']))
            q = SymObj({Select}, 'query', prov='param')
            q.known_not_none = True
            q.copyable = True
            star = SymObj({Star}, 'star', prov='param')
            star.known_not_none = True
            col = SymObj({Identifier}, 'col', prov='param')
            col.known_not_none = True
            col.copyable = True
            col.closed = True
            col.fields.update(alias=None, parentheses=False, parts=ex.param_container(['c']))
            targets = [star]
            if clause_name == 'two-targets':
                targets = [star, col]
            if clause_name == 'column-target':
                targets = [col]
            fields = dict(group_by=None, order_by=None, having=None, distinct=False, where=None, limit=None, offset=None, targets=ex.param_container(targets), from_table=t,
                          alias=None, parentheses=False, using=None, cte=None, mode=None, modifiers=ex.param_container([]))
            if clause_name == 'distinct':
                fields['distinct'] = True
            elif clause_name in fields and clause_name not in ('targets',):
                v = SymObj(None, f'query.{clause_name}', prov='param')
                v.known_not_none = True
                fields[clause_name] = ex.param_container([v]) if clause_name in ('group_by', 'order_by') else v
            q.fields.update(fields)
            ex.path_state.update(added=added, prev=prev, q=q)
            return [planner, q, prev], {}

        def post(ex, o, clause_name=clause_name):
            if o.kind != 'return':
                return f'raises {getattr(o.value, "__name__", o.value)}'
            st = o.state
            if clause_name == 'none':
                if o.value is not st['prev'] or st['added']:
                    return 'a bare SELECT * over the previous result adds a step / does not return the previous step'
                return None
            if o.value is st['prev'] or not st['added']:
                return f'the outer select has {clause_name.replace("_", " ").upper()} but no step applies it: the previous result is returned as the answer'
            step = st['added'][0]
            if not (isinstance(step, SymObj) and step.cls is SubSelectStep and o.value is step and len(st['added']) == 1):
                return f'the result {o.value!r} is not the one SubSelectStep added'
            if step.fields.get('dataframe') is not st['prev'].fields['result']:
                return 'the sub-select does not read the previous result'
            q2 = step.fields.get('query')
            if getattr(q2, 'copy_of', None) is not st['q'] or q2.fields.get('from_table') is not None:
                return 'the sub-select is not a copy of the outer select without its FROM'
            return None
        v = pysym.verify(QP, 'QueryPlanner.plan_sub_select', make_args, post)
        oid = f'C08.subselect.{clause_name}'
        clause = 'ensures: previous step returned unchanged iff the outer select is a bare SELECT *; otherwise exactly one SubSelectStep(copy of the select without FROM, previous result)'
        rp = {'distinct': 'select distinct * from api1.t', 'offset': 'select * from api1.t limit 5 offset 2'}.get(clause_name)
        if v.status == PROVED:
            rep.proved(oid, 'pysym', v.detail, function=fn, clause=clause, seconds=v.seconds)
        elif v.status == FAILED:
            rep.failed(oid, 'pysym', v.detail, function=fn, clause=clause, cex=v.cex, replay=replay_subselect(rp or 'select distinct * from api1.t'))
        else:
            rep.undecided(oid, 'pysym', v.detail, function=fn, clause=clause)


def replay_subselect(sql):
    from mindsdb_sql import parse_sql
    from mindsdb_sql.planner import plan_query
    ints = [{'name': 'api1', 'class_type': 'api', 'type': 'data'}]
    try:
        p = plan_query(parse_sql(sql), integrations=ints, default_namespace='mindsdb')
    except Exception as e:
        return {'input': sql, 'dialect': 'mindsdb', 'fires': False, 'observed': f'{type(e).__name__}: {e}'[:120]}
    texts = [str(getattr(s_, 'query', type(s_).__name__)) for s_ in p.steps]
    ok = any('DISTINCT' in t.upper() for t in texts) if 'distinct' in sql else any('OFFSET' in t.upper() for t in texts)
    return {'input': sql, 'dialect': 'mindsdb', 'fires': not ok, 'observed': f'plan: {texts}', 'expected': 'a step that applies the clause'}


def cte_lookup_obligations(rep):
    """get_integration_select_step: the result of a CTE is read only for a table reference that is not qualified by another database;
    a table of an integration that happens to carry the name of a CTE is fetched from that integration"""
    from mindsdb_sql.parser.ast import Identifier, Select
    from mindsdb_sql.planner.query_planner import QueryPlanner
    from mindsdb_sql.planner.steps import FetchDataframeStep, SubSelectStep
    QP = 'mindsdb_sql.planner.query_planner'
    fn = f'{QP}:QueryPlanner.get_integration_select_step'
    cases = {'bare-cte-name': (['b'], 'cte'), 'bare-other-name': (['c'], ('fetch', 'mindsdb')), 'integration-qualified-cte-name': (['int2', 'b'], ('fetch', 'int2')),
             'integration-qualified-upper': (['INT2', 'b'], ('fetch', 'int2')), 'integration-qualified-other': (['int2', 'c'], ('fetch', 'int2')),
             'schema-qualified-cte-name': (['int2', 'sch', 'b'], ('fetch', 'int2'))}
    for cname, (parts, want) in cases.items():
        def make_args(ex, parts=parts):
            planner = SymObj({QueryPlanner}, 'planner', prov='param')
            planner.known_not_none = True
            R = SymObj(None, 'cte_result', prov='param')
            planner.fields.update(default_namespace='mindsdb', databases=['int1', 'int2', 'mindsdb'], cte_results=ex.param_container({'b': R}),
                                  integrations={'int1': {}, 'int2': {}}, projects=['mindsdb'])
            prepared = []
            planner.fields['prepare_integration_select'] = Stub(lambda ex_, a, k: prepared.append((a[0], a[1])), 'prepare_integration_select')
            t = SymObj({Identifier}, 'from_table', prov='param')
            t.known_not_none = True
            t.closed = True
            t.fields.update(alias=None, parentheses=False, parts=ex.param_container(list(parts)))
            sel = SymObj({Select}, 'select', prov='param')
            sel.known_not_none = True
            sel.copyable = True
            sel.fields.update(from_table=t, using=None, alias=None, parentheses=False)
            ex.path_state.update(R=R, sel=sel, prepared=prepared)
            return [planner, sel], {}

        def post(ex, o, want=want, parts=parts):
            if o.kind != 'return':
                return f'raises {getattr(o.value, "__name__", o.value)}'
            st = o.value
            if not isinstance(st, SymObj):
                return f'returns {st!r}'
            # frame: the select handed over belongs to the caller (the time-series planner derives several selects from it and goes on editing it): nothing
            # of it is written, and the step carries a copy
            sel_ = o.state['sel']
            wr = [(w_[1]) for w_ in o.writes if w_[0] is sel_]
            if wr:
                return f'the caller\'s select is written (attribute {wr[0]!r}): later edits of the caller change the step, and the caller loses its FROM clause'
            q_ = st.fields.get('query')
            if q_ is sel_:
                return 'the step carries the caller\'s select itself, not a copy'
            if want == 'cte':
                if st.cls is not SubSelectStep or st.fields.get('dataframe') is not o.state['R']:
                    return f'a bare reference to the CTE is not answered from the result of the CTE ({st!r})'
                return None
            if st.cls is SubSelectStep:
                return f'table {".".join(parts)} is read from the result of the CTE named {parts[-1]!r} although it is qualified by integration {parts[0]!r}'
            if st.cls is not FetchDataframeStep or st.fields.get('integration') != want[1]:
                return f'table {".".join(parts)} is not fetched from {want[1]!r}: {st!r} integration={st.fields.get("integration")!r}'
            return None
        v = pysym.verify(QP, 'QueryPlanner.get_integration_select_step', make_args, post)
        oid = f'C08.cte.lookup.{cname}'
        clause = 'ensures a CTE result is read iff the table reference carries no other database qualifier and names a CTE; otherwise FetchDataframeStep(integration = resolved database)'
        if v.status == PROVED:
            rep.proved(oid, 'pysym', v.detail, function=fn, clause=clause, seconds=v.seconds)
        elif v.status == FAILED:
            rep.failed(oid, 'pysym', v.detail, function=fn, clause=clause, cex=v.cex, replay=replay_cte_lookup())
        else:
            rep.undecided(oid, 'pysym', v.detail, function=fn, clause=clause)


def plan_cte_obligations(rep):
    """plan_cte: every CTE of the WITH clause is planned, in order, and its name is bound to the result of the step planned FOR IT - also when the name is
    already bound (a WITH clause of another select of the statement, an earlier CTE of the same name): the latest definition is the visible one"""
    from mindsdb_sql.parser.ast import Identifier, Select, CommonTableExpression
    from mindsdb_sql.planner.query_planner import QueryPlanner
    QP = 'mindsdb_sql.planner.query_planner'
    fn = f'{QP}:QueryPlanner.plan_cte'
    for cname, pre_bound in (('fresh-name', False), ('name-already-bound', True)):
        def make_args(ex, pre_bound=pre_bound):
            planner = SymObj({QueryPlanner}, 'planner', prov='param')
            planner.known_not_none = True
            old = SymObj(None, 'old_result', prov='param')
            results = ex.param_container({'c': old} if pre_bound else {})
            planner.fields['cte_results'] = results
            planned = []

            def plan_select(ex_, a, k):
                st_ = SymObj(None, f'step{len(planned)}', prov='fresh')
                st_.known_not_none = True
                st_.fields['result'] = SymObj(None, f'result{len(planned)}', prov='fresh')
                planned.append((a[0], st_))
                return st_
            planner.fields['plan_select'] = Stub(plan_select, 'plan_select')
            ctes = []
            for nm in ('c', 'd'):
                cte = SymObj({CommonTableExpression}, f'cte_{nm}', prov='param')
                cte.known_not_none = True
                name = SymObj({Identifier}, f'name_{nm}', prov='param')
                name.known_not_none = True
                name.fields.update(parts=ex.param_container([nm]), alias=None, parentheses=False)
                cte.fields.update(name=name, query=SymObj({Select}, f'query_{nm}', prov='param'), columns=None, alias=None, parentheses=False)
                ctes.append(cte)
            q = SymObj({Select}, 'query', prov='param')
            q.known_not_none = True
            q.fields['cte'] = ex.param_container(ctes)
            ex.path_state.update(results=results, planned=planned, ctes=ctes, old=old)
            return [planner, q], {}

        def post(ex, o):
            if o.kind != 'return':
                return f'raises {getattr(o.value, "__name__", o.value)}'
            st = o.state
            if [p_[0] for p_ in st['planned']] != [c.fields['query'] for c in st['ctes']]:
                return 'the CTE bodies are not planned once each, in order'
            for (qq, step), nm in zip(st['planned'], ('c', 'd')):
                if st['results'].get(nm) is not step.fields['result']:
                    return f'after plan_cte the name {nm!r} is not bound to the result of the step planned for it ({st["results"].get(nm)!r})'
            return None
        v = pysym.verify(QP, 'QueryPlanner.plan_cte', make_args, post)
        oid = f'C08.cte.bind.{cname}'
        clause = 'ensures forall CTEs (name, body) of the clause: cte_results[name] == result of the step planned for body (the latest definition shadows an earlier one)'
        if v.status == PROVED:
            rep.proved(oid, 'pysym', v.detail, function=fn, clause=clause, seconds=v.seconds)
        elif v.status == FAILED:
            rep.failed(oid, 'pysym', v.detail, function=fn, clause=clause, cex=v.cex)
        else:
            rep.undecided(oid, 'pysym', v.detail, function=fn, clause=clause)


def nested_select_obligations(rep):
    """get_nested_selects_plan_fnc: a nested SELECT stays inside the text sent to `main_integration` only if every table it reads belongs to that
    integration and it touches no mindsdb object; otherwise (or when forced) it is planned on its own and replaced by a reference to its result"""
    from mindsdb_sql.parser.ast import Select, Parameter
    from mindsdb_sql.planner.query_planner import QueryPlanner
    QP = 'mindsdb_sql.planner.query_planner'
    fn = f'{QP}:QueryPlanner.get_nested_selects_plan_fnc'
    cases = {'none': set(), 'main': {'int1'}, 'other': {'int2'}, 'main+other': {'int1', 'int2'}, 'two-others': {'int2', 'int3'}}
    for iname, integrations in cases.items():
        for has_mdb in (False, True):
            for force in (False, True):
                def run(ex, integrations=integrations, has_mdb=has_mdb, force=force):
                    planner = SymObj({QueryPlanner}, 'planner', prov='param')
                    planner.known_not_none = True
                    node = SymObj({Select}, 'nested', prov='param')
                    node.known_not_none = True
                    node.fields.update(parentheses=True, alias=None)
                    info = {'integrations': set(integrations), 'mdb_entities': ([SymObj(None, 'model', prov='param')] if has_mdb else []), 'predictors': [], 'user_functions': []}
                    planner.fields['get_query_info'] = Stub(lambda ex_, a, k: info, 'get_query_info')
                    step = SymObj(None, 'step', prov='fresh')
                    step.known_not_none = True
                    step.fields['result'] = SymObj(None, 'step.result', prov='fresh')
                    planned = []
                    planner.fields['plan_select'] = Stub(lambda ex_, a, k: (planned.append(a[0]), step)[1], 'plan_select')
                    clo = pysym.closure_of(QP, 'QueryPlanner.get_nested_selects_plan_fnc')
                    clo.no_stub = True
                    visitor = ex.call_closure(clo, [planner, 'int1'], {'force': force})
                    r = ex.call(visitor, [node], {'is_table': False, 'is_target': False, 'parent_query': None})
                    ex.path_state.update(planned=planned, node=node, step=step)
                    return r

                def post(ex, o, integrations=integrations, has_mdb=has_mdb, force=force):
                    if o.kind != 'return':
                        return f'raises {getattr(o.value, "__name__", o.value)}'
                    must_plan = force or has_mdb or not integrations <= {'int1'}
                    planned = bool(o.state['planned'])
                    r = o.value
                    if must_plan and not planned:
                        return f'a nested select reading {sorted(integrations)}' + (' and a mindsdb object' if has_mdb else '') + ' stays inside the text sent to int1'
                    if planned:
                        if not (isinstance(r, SymObj) and r.cls is Parameter and (r.fields.get('value') is o.state['step'].fields['result'])):
                            return f'the planned nested select is not replaced by a reference to its result: {r!r}'
                        if o.state['planned'][0] is not o.state['node']:
                            return 'another query than the nested select is planned'
                    elif r is not None:
                        return f'an inline nested select is replaced by {r!r}'
                    return None
                ex = pysym.Executor()
                import time as _t
                t0 = _t.time()
                try:
                    outs = ex.explore(run)
                    bad = next((m for m in (post(ex, o) for o in outs) if m), None)
                    v = pysym.Verdict(FAILED, bad) if bad else (pysym.Verdict(PROVED, f'{len(outs)} path(s)') if outs else pysym.Verdict(UNDECIDED, 'no feasible path'))
                except (Unsupported, PathLimit) as e:
                    v = pysym.Verdict(UNDECIDED, f'{type(e).__name__}: {e}')
                oid = f'C08.nested.{iname}.mdb{int(has_mdb)}.force{int(force)}'
                clause = 'ensures planned separately (and replaced by Parameter(result)) if forced, or it reads a table outside main_integration, or a mindsdb object; inline nested selects are left alone'
                if v.status == PROVED:
                    rep.proved(oid, 'pysym', v.detail, function=fn, clause=clause, seconds=_t.time() - t0)
                elif v.status == FAILED:
                    rep.failed(oid, 'pysym', v.detail, function=fn, clause=clause, replay=replay_nested_two_integrations())
                else:
                    rep.undecided(oid, 'pysym', v.detail, function=fn, clause=clause)


def replay_nested_two_integrations():
    from mindsdb_sql import parse_sql
    from mindsdb_sql.planner import plan_query
    from mindsdb_sql.planner.steps import FetchDataframeStep
    sql = 'SELECT * FROM int1.a WHERE x IN (SELECT b.y FROM int1.b JOIN int2.c ON b.k = c.k)'
    try:
        plan = plan_query(parse_sql(sql), integrations=['int1', 'int2'], default_namespace='mindsdb')
    except Exception as e:
        return {'input': sql, 'dialect': 'mindsdb', 'fires': False, 'observed': f'{type(e).__name__}: {e}'[:150]}
    bad = [str(s.query) for s in plan.steps if isinstance(s, FetchDataframeStep) and s.integration == 'int1' and 'int2' in str(s.query)]
    return {'input': sql, 'dialect': 'mindsdb', 'fires': bool(bad), 'observed': f'fetch from int1: `{bad[0][:160]}`' if bad else 'the nested select is planned on its own',
            'expected': 'no table of int2 inside a query sent to int1'}


def replay_cte_lookup():
    from mindsdb_sql.planner.steps import FetchDataframeStep
    sql = 'WITH b AS (SELECT id FROM int1.a) SELECT id FROM b UNION ALL SELECT id FROM int2.b'
    try:
        p = plan(sql)
    except Exception as e:
        return {'input': sql, 'dialect': 'mindsdb', 'fires': False, 'observed': f'{type(e).__name__}: {e}'[:120]}
    ints = [s_.integration for s_ in p.steps if isinstance(s_, FetchDataframeStep)]
    if 'int2' not in ints:
        return {'input': sql, 'dialect': 'mindsdb', 'fires': True, 'observed': f'fetches from {ints}: {[type(s_).__name__ for s_ in p.steps]}', 'expected': 'one fetch from int2 for int2.b'}
    # frame witness: a caller that derives several selects from one (the time-series planner) with the data coming from a CTE: each derived select keeps its own filter
    try:
        from mindsdb_sql import parse_sql
        from mindsdb_sql.planner import plan_query
        preds = [{'name': 'pr', 'integration_name': 'mindsdb', 'timeseries': True, 'window': 3, 'horizon': 2, 'order_by_column': 't', 'group_by_columns': ['g']}]
        sql2 = 'WITH tbl AS (SELECT * FROM int1.data) SELECT * FROM tbl ta JOIN mindsdb.pr tb WHERE ta.t > 5 AND ta.g = 1 AND ta.g IN (1, 2)'
        p2 = plan_query(parse_sql(sql2), integrations=['int1'], predictor_metadata=preds, default_namespace='mindsdb')
        texts = []

        def walk(steps):
            for s_ in steps:
                if getattr(s_, 'query', None) is not None:
                    texts.append(str(s_.query))
                sub = getattr(s_, 'steps', None) if type(s_).__name__ == 'MultipleSteps' else (getattr(s_, 'step', None) if type(s_).__name__ == 'MapReduceStep' else None)
                if sub is not None:
                    walk(sub if isinstance(sub, list) else [sub])
        walk(p2.steps)
        if not any('t > 5' in t_.replace('`', '') for t_ in texts):
            return {'input': sql2, 'dialect': 'mindsdb', 'fires': True, 'observed': f'no step of the plan selects the rows with t > 5: {texts[:5]}', 'expected': 'a select of the CTE result with t > 5 (the rows the statement asks for)'}
    except Exception:
        pass
    return {'input': sql, 'dialect': 'mindsdb', 'fires': False, 'observed': f'fetches from {ints}: {[type(s_).__name__ for s_ in p.steps]}', 'expected': 'one fetch from int2 for int2.b'}


# ------------------------------------------------------------------ set operations across integrations
def union_obligations(rep):
    """plan_union: both operands are planned as they are written (no flag of an operand is changed) and the step carries the operation and the
    DISTINCT/ALL flag of this node. From the property: (a EXCEPT b) UNION c must evaluate a EXCEPT b with its own duplicate handling."""
    from mindsdb_sql.parser.ast import Union, Except, Intersect, Select
    from mindsdb_sql.planner.steps import UnionStep
    QP = 'mindsdb_sql.planner.query_planner'
    fn = f'{QP}:QueryPlanner.plan_union'
    for K, opname in ((Union, 'union'), (Except, 'except'), (Intersect, 'intersect')):
        for inner in (Union, Except, Intersect, Select):
            def make_args(ex, K=K, inner=inner):
                from mindsdb_sql.planner.query_planner import QueryPlanner
                selfo = SymObj({QueryPlanner}, 'self', prov='param')
                selfo.known_not_none = True
                planned = []

                def plan_select(ex_, a, k):
                    st_ = SymObj(None, f'step{len(planned)}', prov='fresh')
                    st_.known_not_none = True
                    st_.fields['result'] = SymObj(None, f'result{len(planned)}', prov='fresh')
                    planned.append((a[0], dict(getattr(a[0], 'fields', {}) or {}), st_))
                    return st_
                selfo.fields['plan_select'] = Stub(plan_select, 'plan_select')
                added = []
                pl = SymObj(None, 'plan', prov='param')
                pl.known_not_none = True
                pl.fields['add_step'] = Stub(lambda ex_, a, k: (added.append(a[0]), a[0])[1], 'add_step')
                selfo.fields['plan'] = pl

                def operand(name, cls):
                    o = SymObj({cls}, name, prov='param')
                    o.known_not_none = True
                    o.copyable = True
                    o.closed = True
                    if cls is Select:
                        o.fields.update(alias=None, parentheses=False, targets=ex.param_container([]), from_table=None, where=None, distinct=False)
                    else:
                        o.fields.update(alias=None, parentheses=False, unique=pysym.mk_bool(f'{name}.unique'), left=SymObj({Select}, f'{name}.left', prov='param'), right=SymObj({Select}, f'{name}.right', prov='param'))
                    return o
                q = SymObj({K}, 'query', prov='param')
                q.known_not_none = True
                l, r = operand('left', inner), operand('right', Select)
                uq = pysym.mk_bool('query.unique')
                q.fields.update(alias=None, parentheses=False, unique=uq, left=l, right=r)
                ex.path_state.update(planned=planned, added=added, l=l, r=r, uq=uq, lfields=dict(l.fields), rfields=dict(r.fields))
                return [selfo, q], {}

            def post(ex, o, opname=opname):
                if o.kind != 'return':
                    return f'raises {getattr(o.value, "__name__", o.value)}'
                st = o.state
                planned, added = st['planned'], st['added']
                if len(planned) != 2:
                    return f'{len(planned)} operands planned'
                for (got, gfields, _st), want, wfields, side in ((planned[0], st['l'], st['lfields'], 'left'), (planned[1], st['r'], st['rfields'], 'right')):
                    if got is not want:
                        if not isinstance(got, SymObj) or got.cls is not want.cls:
                            return f'the {side} operand is replaced by {got!r}'
                        diff = [k for k in wfields if gfields.get(k) is not wfields[k] and gfields.get(k) != wfields[k]]
                        if diff == ['unique'] and side == 'left' and want.cls is not Select:
                            # a changed DISTINCT/ALL flag of an operand is accepted iff it cannot change the result: bag semantics over all small bags,
                            # for every valuation of the two flags that this path allows
                            bad = _flag_change_unsound(ex, o, opname, want.cls.__name__.lower(), st['uq'], wfields['unique'], gfields.get('unique'))
                            if bad:
                                return bad
                            continue
                        if diff:
                            return f'the {side} operand is planned with changed {diff}: a different query is evaluated'
                    else:
                        diff = [k for k in wfields if want.fields.get(k) is not wfields[k] and want.fields.get(k) != wfields[k]]
                        if diff:
                            return f'the {side} operand of the caller\'s tree is modified: {diff}'
                if len(added) != 1 or not isinstance(added[0], SymObj) or added[0].cls is not UnionStep:
                    return f'steps added: {added!r}'
                f = added[0].fields
                if f.get('left') is not planned[0][2].fields['result'] or f.get('right') is not planned[1][2].fields['result']:
                    return 'the step does not combine the results of its two operands in order'
                if f.get('operation') != opname:
                    return f'operation {f.get("operation")!r}, expected {opname!r}'
                u = f.get('unique')
                if not (u is st['uq'] or (isinstance(u, SymVal) and u == st['uq'])):
                    return f'unique flag of the step is {u!r}, not the flag of the node'
                return None
            v = pysym.verify(QP, 'QueryPlanner.plan_union', make_args, post)
            oid = f'C08.union.{opname}.{inner.__name__.lower()}-operand'
            clause = 'ensures both operands are planned unchanged, in order; UnionStep(left, right) = their results; operation = node class; unique = node.unique'
            if v.status == PROVED:
                rep.proved(oid, 'pysym', v.detail, function=fn, clause=clause, seconds=v.seconds)
            elif v.status == FAILED:
                rep.failed(oid, 'pysym', v.detail, function=fn, clause=clause, replay=replay_union())
            else:
                rep.undecided(oid, 'pysym', v.detail, function=fn, clause=clause)


def union_trailing_obligations(rep):
    """`A <setop> B ORDER BY .. LIMIT ..`: in SQL the trailing ORDER BY / LIMIT / OFFSET belong to the result of the set operation, not to its last operand.  Obligation on the
    plan of a two-integration statement: the fetch of the last operand carries none of the trailing clauses, and a later step applies them to the result of the set operation."""
    from mindsdb_sql.planner.steps import FetchDataframeStep
    fn = 'mindsdb_sql.planner.query_planner:QueryPlanner.plan_union,mindsdb_sql.parser.dialects.mindsdb.parser:MindsDBParser.union'
    clause = 'trailing ORDER BY / LIMIT / OFFSET of a set operation are applied to its result (no operand fetch carries them)'
    for opname, optext in (('union', 'UNION'), ('union-all', 'UNION ALL'), ('intersect', 'INTERSECT'), ('except', 'EXCEPT')):
        for cname, ctext in (('order', 'ORDER BY a'), ('limit', 'LIMIT 2'), ('order-limit', 'ORDER BY a LIMIT 2'), ('limit-offset', 'LIMIT 2 OFFSET 1')):
            sql = f'SELECT a FROM int1.t {optext} SELECT a FROM int2.u {ctext}'
            oid = f'C08.union.trailing.{opname}.{cname}'
            try:
                p = plan(sql)
            except Exception as e:
                if type(e).__name__ in ('ParsingException', 'PlanningException', 'NotImplementedError'):
                    rep.proved(oid, 'pysym', f'refused ({type(e).__name__})', function=fn, clause=clause)
                else:
                    rep.failed(oid, 'pysym', f'planning raises {type(e).__name__}: {e}'[:150], function=fn, clause=clause, replay={'input': sql, 'dialect': 'mindsdb', 'fires': True, 'observed': f'{type(e).__name__}', 'expected': 'a plan'})
                continue
            f2 = [f for f in fetches(p) if str(f.integration).lower() == 'int2']
            leaked = []
            for f in f2:
                q_ = f.query
                if getattr(q_, 'order_by', None):
                    leaked.append('ORDER BY')
                if getattr(q_, 'limit', None) is not None:
                    leaked.append('LIMIT')
                if getattr(q_, 'offset', None) is not None:
                    leaked.append('OFFSET')
            later = [type(s_).__name__ for s_ in p.steps[-1:] if type(s_).__name__ in ('LimitOffsetStep', 'QueryStep', 'SubSelectStep', 'OrderByStep')]
            if leaked or not later:
                rep.failed(oid, 'pysym', f'`{sql}`: the fetch of the last operand carries {sorted(set(leaked))} and the plan ends with {type(p.steps[-1]).__name__}: the clause limits / orders one operand, not the result', function=fn, clause=clause,
                           replay={'input': sql, 'dialect': 'mindsdb', 'fires': True, 'observed': f'steps {[type(s_).__name__ + ":" + str(getattr(s_, "query", "") or "") for s_ in p.steps]}'[:300], 'expected': 'operands fetched whole, clause applied to the set operation'})
            else:
                rep.proved(oid, 'pysym', f'clause applied after the set operation ({later})', function=fn, clause=clause)


def _bag(op, unique, A, B):
    from collections import Counter
    A, B = Counter(A), Counter(B)
    if op == 'union':
        r = A + B
    elif op == 'intersect':
        r = A & B
    else:
        r = A - B if not unique else Counter({k: 1 for k in A if k not in B})
    if unique:
        r = Counter({k: 1 for k in r if r[k] > 0})
    return +r


def _flag_change_unsound(ex, o, outer, inner, uq, lu, new):
    import z3
    vals = []
    for a in (True, False):
        for b in (True, False):
            cond = z3.And(uq.t == z3.BoolVal(a), lu.t == z3.BoolVal(b))
            impossible, _ = ex.valid(z3.Not(cond), pc=o.pc)
            if not impossible:
                vals.append((a, b))
    bags = [(), (1,), (1, 1), (2,), (1, 2), (1, 1, 2), (1, 2, 2)]
    for a, b in vals:
        if isinstance(new, SymVal):
            nv = a if new == uq else (b if new == lu else None)
            if nv is None:
                return 'the DISTINCT/ALL flag of the left operand is replaced by an unrelated value'
        else:
            nv = bool(new)
        if nv == b:
            continue
        for A in bags:
            for B in bags:
                for C in bags:
                    if _bag(outer, a, _bag(inner, b, A, B), C) != _bag(outer, a, _bag(inner, nv, A, B), C):
                        return (f'the left operand ({inner.upper()}{"" if b else " ALL"}) is planned as {inner.upper()}{"" if nv else " ALL"} under {outer.upper()}{"" if a else " ALL"}: '
                                f'with a={list(A)}, b={list(B)}, c={list(C)} the results differ')
    return None


def replay_union():
    """witness: chains of set operations over three integrations; each UnionStep must carry the flag/operation of the node it was planned from"""
    from mindsdb_sql import parse_sql
    from mindsdb_sql.parser.ast import Union, Except, Intersect
    from mindsdb_sql.planner.query_planner import QueryPlanner
    from mindsdb_sql.planner.steps import UnionStep
    for sql in ('SELECT x FROM int1.a EXCEPT SELECT x FROM int2.b UNION SELECT x FROM int3.c', 'SELECT x FROM int1.a UNION SELECT x FROM int2.b UNION ALL SELECT x FROM int3.c',
                'SELECT x FROM int1.a EXCEPT SELECT x FROM int2.b EXCEPT SELECT x FROM int3.c', 'SELECT x FROM int1.a UNION ALL SELECT x FROM int2.b INTERSECT SELECT x FROM int3.c'):
        try:
            q = parse_sql(sql)
            want = []

            def walk(n):
                if isinstance(n, (Union, Except, Intersect)):
                    walk(n.left)
                    walk(n.right)
                    want.append((type(n).__name__.lower(), bool(n.unique)))
            walk(q)
            p = QueryPlanner(q, integrations=['int1', 'int2', 'int3'], predictor_metadata=[], default_namespace='mindsdb').from_query()
            got = [(s_.operation, bool(s_.unique)) for s_ in p.steps if isinstance(s_, UnionStep)]
            if got != want:
                return {'input': sql, 'dialect': 'mindsdb', 'fires': True, 'observed': f'set-operation steps {got}', 'expected': f'{want}'}
        except Exception as e:
            return {'input': sql, 'dialect': 'mindsdb', 'fires': False, 'observed': f'{type(e).__name__}: {e}'[:120]}
    return {'input': 'set-operation chains', 'dialect': 'mindsdb', 'fires': False, 'observed': 'every UnionStep carries the flag and operation of its node'}


# ------------------------------------------------------------------ systematic boolean paths above the pushed comparison (bounded by depth)
T, F, U = 'T', 'F', 'U'


def _and(a, b):
    return F if F in (a, b) else (U if U in (a, b) else T)


def _or(a, b):
    return T if T in (a, b) else (U if U in (a, b) else F)


def _not(a):
    return {T: F, F: T, U: U}[a]


STEPS = {
    'andL': (lambda x, o: f'{x} AND {o}', lambda x, o: _and(x, o)),
    'andR': (lambda x, o: f'{o} AND {x}', lambda x, o: _and(o, x)),
    'orL': (lambda x, o: f'({x} OR {o})', lambda x, o: _or(x, o)),
    'orR': (lambda x, o: f'({o} OR {x})', lambda x, o: _or(o, x)),
    'not': (lambda x, o: f'NOT ({x})', lambda x, o: _not(x)),
    'func': (lambda x, o: f'coalesce(({x}), true)', lambda x, o: (T if x == U else x)),
    'is': (lambda x, o: f'(({x}) IS NULL)', lambda x, o: (T if x == U else F)),
}
OTHERS = ['t1.x = 2', 't1.z = 3', 't1.w = 4', 't1.v = 5', 't1.u = 6']


def path_cases(depth):
    for k in range(0, depth + 1):
        for path in itertools.product(STEPS, repeat=k):
            yield path


def path_sql_and_soundness(path, leaf='t2.y = 1'):
    expr = leaf
    for i, st in enumerate(path):
        expr = STEPS[st][0](f'({expr})' if st.startswith('and') and i > 0 else expr, OTHERS[i])
    # pushing `leaf` into the fetch of t2 is sound iff WHERE = true implies leaf = true (Kleene logic over the leaves)
    sound = True
    for x in (T, F, U):
        for os_ in itertools.product((T, F, U), repeat=len(path)):
            v = x
            for i, st in enumerate(path):
                v = STEPS[st][1](v, os_[i])
            if v == T and x != T:
                sound = False
    return expr, sound


def path_analysis(rep, tier):
    depth = 3 if tier == 'quick' else 4
    fails = {}
    n = 0
    for leaf, tag in (('t2.y = 1', 'eq'), ('t2.y BETWEEN 1 AND 2', 'between')):
        for path in path_cases(depth if tag == 'eq' else 2):
            cond, sound = path_sql_and_soundness(path, leaf)
            sql = f'SELECT * FROM int1.tbl1 AS t1 JOIN int2.tbl2 AS t2 ON t1.id = t2.id WHERE {cond}'
            n += 1
            try:
                p = plan(sql)
            except Exception:
                continue
            f2 = [f for f in fetches(p) if f.integration == 'int2']
            w = str(f2[0].query.where) if f2 and f2[0].query.where is not None else ''
            pushed = 'y' in w.replace('`', '') and ('= 1' in w or 'BETWEEN' in w.upper())
            if pushed and not sound:
                kinds = sorted({st.rstrip('LR') for st in path if not st.startswith('and')})
                fails.setdefault(f'C08.filter.path.{tag}.{"+".join(kinds)}', (sql, f'fetch from int2 is filtered by `{w}` although WHERE = true does not imply it (path {"/".join(path)})'))
    # what is pushed must keep every row the condition accepts, whatever the operand order and the operator: the pushed text is evaluated against
    # the written condition on a small table (sqlite3) - constant on the left / on the right, all comparison operators, BETWEEN, IN
    import sqlite3
    con = sqlite3.connect(':memory:')
    con.execute('create table tbl2 (id, y)')
    con.executemany('insert into tbl2 values (?, ?)', [(i, v) for i, v in enumerate([0, 1, 2, 3, 4, None])])
    leaves = [f'{a} {op} {b}' for op in ('<', '<=', '>', '>=', '=', '!=', '<>') for a, b in (('t2.y', '2'), ('2', 't2.y'))]
    leaves += ['t2.y BETWEEN 1 AND 2', 't2.y NOT BETWEEN 1 AND 2', 't2.y IN (1, 3)', 't2.y NOT IN (1, 3)', '2 + 1 > t2.y', 't2.y - 1 < 2', '-t2.y < -2', 't2.y IS NULL', 't2.y IS NOT NULL']
    for leaf in leaves:
        for tmpl in ('{l}', '{l} AND t1.x = 2', 't1.x = 2 AND {l}', 't1.x = 2 AND {l} AND t1.z = 3'):
            sql = f'SELECT * FROM int1.tbl1 AS t1 JOIN int2.tbl2 AS t2 ON t1.id = t2.id WHERE {tmpl.format(l=leaf)}'
            n += 1
            try:
                p = plan(sql)
            except Exception:
                continue
            f2 = [f for f in fetches(p) if f.integration == 'int2']
            if not f2 or f2[0].query.where is None:
                continue
            try:
                w = f2[0].query.where.to_string()
                want = {r[0] for r in con.execute(f'select id from tbl2 as t2 where {leaf}')}
                got = {r[0] for r in con.execute(f'select id from tbl2 as t2 where {w}')} if ' IN :' not in w and ':Result' not in w else None
                if got is None:
                    # the semi-join restriction on the key is a separate obligation: evaluate the other conjuncts only
                    from mindsdb_sql.parser.ast import BinaryOperation as _BO
                    def conj(x):
                        return conj(x.args[0]) + conj(x.args[1]) if isinstance(x, _BO) and x.op.lower() == 'and' else [x]
                    parts = [c for c in conj(f2[0].query.where) if 'Result' not in c.to_string()]
                    w = ' AND '.join(c.to_string() for c in parts) or '1 = 1'
                    got = {r[0] for r in con.execute(f'select id from tbl2 as t2 where {w}')}
            except Exception:
                continue
            if not want <= got:
                opn = {'<': 'lt', '<=': 'le', '>': 'gt', '>=': 'ge', '=': 'eq', '!=': 'ne', '<>': 'ne'}
                tagk = next((opn[o] for o in ('<=', '>=', '<>', '!=', '<', '>', '=') if f' {o} ' in leaf), 'pred')
                side = 'const-left' if leaf[0].isdigit() or leaf.startswith('-') else 'col-left'
                fails.setdefault(f'C08.filter.meaning.{tagk}.{side}', (sql, f'the fetch from int2 is filtered by `{w}`, which drops rows that `{leaf}` accepts (ids {sorted(want - got)} of the rows y = 0, 1, 2, 3, 4, NULL)'))
    return n, fails


def on_path_analysis(tier, prefix='C08', right='int2.tbl2 AS t2', kinds=('JOIN', 'LEFT JOIN'), depth=None, tail=''):
    """the same truth-table analysis for a comparison on the joined table placed in the ON clause of an inner / left join:
    restricting the fetch of t2 by it is sound only if ON = true implies it"""
    depth = depth or (2 if tier == 'quick' else 3)
    fails = {}
    n = 0
    for kind in kinds:
        for path in path_cases(depth):
            for key_first in (True, False):
                cond, sound = path_sql_and_soundness(path, 't2.y = 1')
                on = f't1.id = t2.id AND ({cond})' if key_first else cond
                sql = f'SELECT * FROM int1.tbl1 AS t1 {kind} {right} ON {on}{tail}'
                n += 1
                try:
                    p = plan(sql)
                except Exception:
                    continue
                f2 = [f for f in fetches(p) if f.integration == 'int2']
                w = str(f2[0].query.where) if f2 and f2[0].query.where is not None else ''
                pushed = 'y = 1' in w.replace('`', '')
                if pushed and not sound:
                    ks = sorted({st.rstrip('LR') for st in path if not st.startswith('and')})
                    fails.setdefault(f'{prefix}.filter.on-path.{kind.replace(" ", "_")}.{"+".join(ks)}',
                                     (sql, f'fetch from int2 is filtered by `{w}` although ON = true does not imply it (path {"/".join(path)})'))
    return n, fails


# ------------------------------------------------------------------ semi-join restriction by join kind
def semijoin_obligations(rep):
    fn = f'{PJ}:PlanJoinTablesQuery.get_filters_from_join_conditions'
    allowed = {'JOIN', 'INNER JOIN', 'LEFT JOIN', 'LEFT OUTER JOIN'}          # second table is not preserved: restricting it to matching keys is sound
    for kind in ('JOIN', 'INNER JOIN', 'LEFT JOIN', 'LEFT OUTER JOIN', 'RIGHT JOIN', 'RIGHT OUTER JOIN', 'FULL JOIN', 'FULL OUTER JOIN'):
        sql = f'SELECT * FROM int1.tbl1 AS t1 {kind} int2.tbl2 AS t2 ON t1.id = t2.id'
        oid = f'C08.semijoin.{kind.replace(" ", "_")}'
        clause = 'the `col IN <distinct keys of the other table>` restriction is added only when the fetched table is not on a preserved side'
        try:
            p = plan(sql)
        except Exception as e:
            if type(e).__name__ == 'ParsingException':
                continue                      # this spelling is not in the dialect
            rep.undecided(oid, 'pysym', f'{type(e).__name__}: {e}'[:100], function=fn, clause=clause)
            continue
        f2 = [f for f in fetches(p) if f.integration == 'int2']
        w = str(f2[0].query.where) if f2 and f2[0].query.where is not None else ''
        restricted = ' IN ' in w.upper()
        if restricted and kind not in allowed:
            rep.failed(oid, 'pysym', f'{kind}: the fetch of the preserved table t2 is restricted to the keys of t1: `{w}`', function=fn, clause=clause,
                       replay={'input': sql, 'dialect': 'mindsdb', 'fires': True, 'observed': f'fetch from int2: `{f2[0].query}`', 'expected': 'unrestricted fetch of t2'})
        else:
            rep.proved(oid, 'pysym', f'{kind}: {"restricted" if restricted else "unrestricted"}', function=fn, clause=clause)


# ------------------------------------------------------------------ outer step re-applies everything
def outer_obligation(rep):
    from mindsdb_sql.parser.ast import Select, Star
    from mindsdb_sql.planner.steps import QueryStep
    fn = f'{PJ}:PlanJoinTablesQuery.plan'

    def make_args(ex):
        selfo = SymObj(None, 'self', prov='param')
        selfo.known_not_none = True
        planner = SymObj(None, 'planner', prov='param')
        planner.known_not_none = True
        pl = SymObj(None, 'plan', prov='param')
        pl.known_not_none = True
        added = []
        pl.fields['add_step'] = Stub(lambda ex_, a, k: (added.append(a[0]), a[0])[1], 'add_step')
        planner.fields['plan'] = pl
        selfo.fields['planner'] = planner
        join_step = SymObj(None, 'join_step', prov='fresh')
        join_step.known_not_none = True
        join_step.fields['result'] = SymObj(None, 'join_result', prov='fresh')
        selfo.fields['plan_join_tables'] = Stub(lambda ex_, a, k: join_step, 'plan_join_tables')
        q = SymObj({Select}, 'query', prov='param')
        q.copyable = True
        fields = {}
        for f in ('where', 'group_by', 'having', 'order_by', 'limit', 'offset'):
            v = SymObj(None, f'query.{f}', prov='param')
            fields[f] = v
        fields['distinct'] = pysym.mk_bool('query.distinct')
        tg = SymObj(None, 'query.targets', prov='param')
        tg.known_not_none = True
        fields['targets'] = tg
        fields.update(from_table=SymObj(None, 'query.from_table', prov='param'), using=SymObj(None, 'query.using', prov='param'), cte=SymObj(None, 'query.cte', prov='param'),
                      alias=None, parentheses=False, mode=None, modifiers=ex.param_container([]))
        q.fields.update(fields)
        ex.method_stubs['__len__'] = lambda ex_, v_, a, k: pysym.mk_int('len(targets)')
        t0 = SymObj(None, 'targets[0]', prov='param')
        t0.known_not_none = True
        ex.method_stubs['__getitem__'] = lambda ex_, v_, a, k: t0
        ex.path_state.update(q=q, added=added, join_step=join_step, fields=fields, t0=t0)
        return [selfo, q], {}

    def post(ex, o):
        if o.kind != 'return':
            return f'raises {o.value.__name__}'
        st = o.state
        if o.value is st['join_step']:
            # allowed only when the query is a bare `SELECT *` without any clause
            for f in ('where', 'group_by', 'having', 'order_by', 'limit', 'offset'):
                v = st['fields'][f]
                if not (v.cls_set == frozenset({type(None)})):
                    return f'the join result is returned as the answer although the query has a {f} clause'
            # ... and whose select list is exactly `*`
            ok1, _ = ex.valid(z3.Int('len(targets)') == 1, pc=o.pc)
            if not ok1:
                return 'the join result is returned as the answer although the select list may have more than one item'
            if st['t0'].cls_set != frozenset({Star}):
                return 'the join result is returned as the answer although the select list is not known to be `*`'
            return None
        step = o.value
        if not (isinstance(step, SymObj) and step.cls is QueryStep) or st['added'] != [step]:
            return f'result {step!r} is not a QueryStep added to the plan'
        q2 = step.fields.get('query')
        if step.fields.get('from_table') is not st['join_step'].fields['result']:
            return 'the outer step does not read the join result'
        for f in ('where', 'group_by', 'having', 'order_by', 'limit', 'offset', 'targets'):
            got = q2.fields.get(f)
            orig = st['fields'][f]
            if orig.cls_set == frozenset({type(None)}):
                if got is not None:
                    return f'{f} invented'
            elif getattr(got, 'copy_of', None) is not orig:
                return f'the outer step does not carry a copy of the query\'s {f} ({got!r})'
        if q2.fields.get('distinct') is not st['fields']['distinct']:
            return 'DISTINCT not carried over'
        if q2.fields.get('from_table') is not None:
            return 'the outer query still has a FROM clause'
        return None
    v = pysym.verify(PJ, 'PlanJoinTablesQuery.plan', make_args, post)
    clause = 'ensures result == QueryStep(copy of query without FROM/USING/CTE, from_table = join result) whenever the query has any clause or is not a bare SELECT *'
    if v.status == PROVED:
        rep.proved('C08.outer.reapply', 'pysym', v.detail, function=fn, clause=clause, seconds=v.seconds)
    elif v.status == FAILED:
        rep.failed('C08.outer.reapply', 'pysym', v.detail, function=fn, clause=clause)
    else:
        rep.undecided('C08.outer.reapply', 'pysym', v.detail, function=fn, clause=clause)


# ------------------------------------------------------------------ bounded monitor
def bounded(rep, tier):
    from mindsdb_sql.planner.steps import FetchDataframeStep, QueryStep
    n = 0
    fails = {}
    for sc in plans.generated_scenarios(tier):
        if not sc['source'].split(':')[2].startswith(('join2', 'join3')) or sc['catalog'] != 'names':
            continue
        n += 1
        try:
            q, pl, plan_, e, kw = plans.run_scenario(sc)
        except Exception:
            continue
        if e is not None:
            continue
        sql = sc['sql']
        fs = [s for s in plan_.steps if isinstance(s, FetchDataframeStep)]
        kinds = [k for k in ('LEFT JOIN', 'RIGHT JOIN', 'FULL JOIN', 'INNER JOIN') if k in sql] or ['JOIN']
        for f in fs:
            if f.query.limit is not None:
                wh = sql.split('WHERE')[1] if 'WHERE' in sql else ''
                safe = ('GROUP BY' not in sql) and all(k == 'LEFT JOIN' for k in kinds) and ('t2.' not in wh and ' OR ' not in wh and 'NOT' not in wh)
                if not safe:
                    fails.setdefault(f'C08.bounded.limit-pushed.{kinds[0].replace(" ", "_")}.{"group" if "GROUP BY" in sql else "nogroup"}', (sql, f'LIMIT inside fetch `{f.query}`'))
        qs = [s for s in plan_.steps if isinstance(s, QueryStep)]
        if ('WHERE' in sql or 'GROUP BY' in sql or 'ORDER BY' in sql or 'LIMIT' in sql) and not qs:
            fails.setdefault('C08.bounded.no-outer-step', (sql, 'no QueryStep re-applies the clauses'))
    n_paths, path_fails = path_analysis(rep, tier)
    fails.update(path_fails)
    n += n_paths
    n_paths, path_fails = on_path_analysis(tier)
    fails.update(path_fails)
    n += n_paths
    rep.bounded_evals = n
    rep.bounded_rule = 'every path of connectives (AND/OR left+right, NOT, function, IS NULL) of depth <= 3 (thorough: 4) above a comparison on the second table: it may be pushed into that table\'s fetch only if WHERE = true implies it in three-valued logic (truth table); the same for a comparison in the ON clause of an inner / left join (depth <= 2, thorough 3; with and without a key equality in front); generated 2- and 3-table joins (5 join kinds x 9 WHERE shapes x 7 tails): LIMIT inside a fetch only for safe shapes; an outer QueryStep exists whenever the query has clauses'
    for cid, (inp, obs) in sorted(fails.items()):
        rep.add_bounded(Bounded(cid, False, inp, obs, 'push-down only when safe', bound='scenario family'))


def check(rep, tier):
    from vlib import statecensus
    statecensus.obligations(rep, 'C08', 'planner')
    from vlib import resolverdep
    resolverdep.obligations(rep, tier, 'C08')
    from vlib import walkerdep
    walkerdep.obligations(rep, tier, 'C08')
    from vlib import userdep
    userdep.obligations(rep, tier, 'C08')
    rep.dropped = 'check_use_limit and PlanJoinTablesQuery.plan read with ast.parse and executed symbolically; context/semi-join lemmas run the real planner on every shape of a finite case analysis'
    rep.assume('L1-L4 relational-algebra side conditions (see MANIFEST note)', 'end-to-end equivalence over table contents is NOT decided by this check',
               'the boolean-context case analysis is uniform in depth by the walker contract (C13): a comparison is visited regardless of its context')
    rep.trust('pysym executor')
    limit_obligations(rep)
    context_obligations(rep)
    conjunct_obligations(rep)
    union_obligations(rep)
    union_trailing_obligations(rep)
    cte_lookup_obligations(rep)
    plan_cte_obligations(rep)
    nested_select_obligations(rep)
    api_obligations(rep)
    subselect_obligations(rep)
    udf_obligations(rep)
    semijoin_obligations(rep)
    outer_obligation(rep)
    bounded(rep, tier)
    rep.notes.append('Necessary conditions of push-down safety decided; end-to-end multiset equality not decided.')
