"""C14 — in a table-model join the model gets the right rows and arguments, only those (lemmas).

  predictor.*   (pysym) process_predictor: exactly one ApplyPredictorStep, fed by the result on top of the step stack; row_dict = the
                `col = constant` conditions attributed to the model (target column excluded), each consumed condition neutralised in
                the original WHERE, nothing else; USING keys lower-cased / alias-filtered / partition_size removed
  attr.*        (pysym) check_node_condition attributes a comparison to the table its column's qualifier names, and to no other
  colmap.*      (pysym) join_condition_to_columns_map: model-column = table-column equalities become the mapping and are neutralised
  context.*     (real functions, every boolean context shape) a comparison becomes a model argument only as a top-level conjunct
Bounded: plans of model-join scenarios (one apply step per model reference, model conditions in no fetch)."""
import copy, itertools
from vlib import repo, pysym, plans
from vlib.core import PROVED, FAILED, UNDECIDED, Bounded
from vlib.pysym import SymObj, SymSeq, SymVal, SymDictU, Stub, Event, Unsupported, PathLimit

LEVEL = 'other'
MANIFEST = {
    'engine': 'pysym',
    'level': 'other',
    'technique': 'contracts on process_predictor / check_node_condition / join_condition_to_columns_map discharged by symbolic execution; exhaustive boolean-context case analysis on the real planner',
    'text': 'The splitting of WHERE into model arguments, table filters and residual conditions is proved per function for all condition lists; '
            'the boolean context in which a comparison may be consumed is decided by case analysis (NOT / OR / function contexts are genuine '
            'defects: known findings). End-to-end execution semantics are not decided.',
    'note': 'Assumed: the walker shows every comparison of WHERE to the collecting visitor regardless of context (C13 contract), so the '
            'context analysis at depth 1 is representative; USING values are passed by reference (unchanged).',
}

PJ = 'mindsdb_sql.planner.plan_join'
CATALOG = dict(integrations=['int1', 'int2'], predictor_metadata=[{'name': 'pred', 'integration_name': 'mindsdb', 'to_predict': 'p'}], default_namespace='mindsdb')


def plan(sql):
    from mindsdb_sql import parse_sql
    from mindsdb_sql.planner.query_planner import QueryPlanner
    return QueryPlanner(parse_sql(sql), **copy.deepcopy(CATALOG)).from_query()


def _emit(rep, oid, v, fn, clause, replay=None):
    if v.status == PROVED:
        rep.proved(oid, 'pysym', v.detail, function=fn, seconds=v.seconds, clause=clause)
    elif v.status == FAILED:
        rep.failed(oid, 'pysym', v.detail, function=fn, seconds=v.seconds, clause=clause, cex=v.cex, replay=replay() if callable(replay) else replay)
    else:
        rep.undecided(oid, 'pysym', v.detail, function=fn, seconds=v.seconds, clause=clause)


def predictor_obligations(rep):
    from mindsdb_sql.parser.ast import BinaryOperation, Identifier, Constant, Parameter
    from mindsdb_sql.planner.plan_join import TableInfo
    from mindsdb_sql.planner.steps import ApplyPredictorStep
    fn = f'{PJ}:PlanJoinTablesQuery.process_predictor'
    shapes = ['eq-const', 'eq-param', 'eq-target', 'gt-const']
    # the target is 'price' (written 'Price' in the query); the other model columns are a substring, a superstring and an infix of that name
    COLS = ['ice', 'pricey', 'ric', 'x3']

    def cond(ex, shape, i):
        orig = SymObj({BinaryOperation}, f'orig{i}', prov='param')
        orig.fields['args'] = ex.param_container(['orig_a', 'orig_b'])
        n = SymObj({BinaryOperation}, f'cond{i}', prov='param')
        col = SymObj({Identifier}, f'cond{i}.col', prov='param')
        col.fields.update(parts=ex.param_container(['Price' if shape == 'eq-target' else COLS[i]]), alias=None, parentheses=False)
        if shape == 'eq-param':
            val = SymObj({Parameter}, f'cond{i}.param', prov='param')
        else:
            val = SymObj({Constant}, f'cond{i}.const', prov='param')
        val.fields.update(value=SymObj(None, f'value{i}', prov='param'), alias=None, parentheses=False)
        n.fields.update(op='>' if shape == 'gt-const' else '=', args=ex.param_container([col, val]), _orig_node=orig, alias=None, parentheses=False)
        return n, orig, val

    for combo in [(a,) for a in shapes] + [('eq-const', 'gt-const'), ('eq-const', 'eq-target', 'eq-param'), ()]:
        for using, tp in (('none', 'price'), ('params', 'price'), ('none', ['price']), ('none', None)):
            tag = ('+'.join(combo) or 'no-conditions') + f'.using-{using}' + ('' if tp == 'price' else ('.target-list' if tp else '.target-none'))
            if tp is None and 'eq-target' in combo:
                continue

            def make_args(ex, combo=combo, using=using, tp=tp):
                selfo = SymObj(None, 'self', prov='param')
                selfo.known_not_none = True
                prev = SymObj(None, 'data_step', prov='param')
                prev.known_not_none = True
                prev.fields['result'] = SymObj(None, 'data_result', prov='param')
                older = SymObj(None, 'older_step', prov='param')
                older.known_not_none = True
                older.fields['result'] = SymObj(None, 'older_result', prov='param')
                stack = ex.param_container([older, prev])
                selfo.fields['step_stack'] = stack
                added = []

                def add_plan_step(ex_, a, k):
                    added.append((a[0], k.get('partition_size')))
                    return a[0]
                selfo.fields['add_plan_step'] = Stub(add_plan_step, 'add_plan_step')
                item = SymObj({TableInfo}, 'item', prov='param')
                conds, origs, vals = [], [], []
                for i, sh in enumerate(combo):
                    c, o_, v_ = cond(ex, sh, i)
                    conds.append(c)
                    origs.append(o_)
                    vals.append(v_)
                item.fields.update(predictor_info=({'to_predict': tp} if tp is not None else {}), join_condition=None, conditions=ex.param_container(conds),
                                   integration='mindsdb', table=SymObj(None, 'model_ident', prov='param'), aliases=[('m',)])
                q = SymObj(None, 'query_in', prov='param')
                q.known_not_none = True
                uv = [SymObj(None, f'using_value{i}', prov='param') for i in range(7)]
                q.fields['using'] = None if using == 'none' else {'Foo': uv[0], 'm.Bar': uv[1], 'other.Baz': uv[2], 'partition_size': uv[3],
                                                                   'm.Engine.Temperature': uv[4], 'm.Engine.Top_p': uv[5], 'other.Engine.Top_p': uv[6]}
                ex.path_state.update(stack=stack, prev=prev, older=older, added=added, combo=combo, conds=conds, origs=origs, vals=vals, uv=uv, item=item)
                return [selfo, item, q], {}

            def post(ex, o, combo=combo, using=using):
                st = o.state
                if o.kind != 'return':
                    return f'raises {o.value.__name__}'
                if len(st['added']) != 1:
                    return f'{len(st["added"])} plan steps added for one model reference'
                step, psize = st['added'][0]
                if not (isinstance(step, SymObj) and step.cls is ApplyPredictorStep):
                    return f'added step is {step!r}'
                if list(st['stack']) != [st['older'], st['prev'], step]:
                    return 'the apply step is not pushed on top of the data step'
                f = step.fields
                if f.get('dataframe') is not st['prev'].fields['result']:
                    return 'the model is not fed by the result of the step on top of the stack'
                if f.get('namespace') != 'mindsdb' or f.get('predictor') is not st['item'].fields['table']:
                    return 'namespace / predictor of the apply step are not those of the model reference'
                want = {}
                consumed = []
                for i, sh in enumerate(combo):
                    if sh in ('eq-const', 'eq-param'):
                        want[COLS[i]] = st['vals'][i].fields['value']
                        consumed.append(i)
                rd = f.get('row_dict')
                if not combo:
                    if rd is not None:
                        return f'row_dict {rd!r} without model conditions'
                else:
                    if not isinstance(rd, dict) or set(rd) != set(want) or any(rd[k] is not want[k] for k in want):
                        return f'row_dict is {rd!r}, expected exactly the col = constant conditions {sorted(want)}'
                for i, orig in enumerate(st['origs']):
                    args = orig.fields['args']
                    neutral = isinstance(args, list) and len(args) == 2 and all(isinstance(a, SymObj) and a.cls is Constant and a.fields.get('value') == 0 for a in args)
                    if i in consumed and not neutral:
                        return f'consumed condition #{i} is still active in the outer WHERE'
                    if i not in consumed and args != ['orig_a', 'orig_b']:
                        return f'condition #{i} ({combo[i]}) is not a model argument but was removed from the outer WHERE'
                params = f.get('params')
                if using == 'none':
                    if params is not None or psize is not None:
                        return 'params invented'
                else:
                    uv = st['uv']
                    exp = {'foo': uv[0], 'bar': uv[1], 'engine.temperature': uv[4], 'engine.top_p': uv[5]}
                    if not isinstance(params, dict) or set(params) != set(exp) or any(params[k_] is not exp[k_] for k_ in exp):
                        return f'USING options reach the model as {params!r}, expected lower-cased keys of this model only (alias prefix removed, rest of a dotted name kept), values unchanged'
                    if psize is not uv[3]:
                        return 'partition_size is not taken out of the params and passed to the partitioning'
                return None
            v = pysym.verify(PJ, 'PlanJoinTablesQuery.process_predictor', make_args, post)
            _emit(rep, f'C14.predictor.{tag}', v, fn,
                  'ensures one ApplyPredictorStep(dataframe = top of stack); row_dict = {col: const | `col = const` conditions, col != target}; exactly those neutralised; USING keys lower-cased/filtered',
                  replay=lambda: replay_model("SELECT * FROM int1.tbl1 AS t JOIN mindsdb.pred AS m WHERE m.x = 2 AND t.a = 1"))

    # empty stack / time-series model: refused with NotImplementedError
    def make_args_e(ex):
        selfo = SymObj(None, 'self', prov='param')
        selfo.known_not_none = True
        selfo.fields['step_stack'] = ex.param_container([])
        item = SymObj({TableInfo}, 'item', prov='param')
        item.fields.update(predictor_info={}, join_condition=None, conditions=[], integration='mindsdb', table=None, aliases=[])
        return [selfo, item, SymObj(None, 'q')], {}
    v = pysym.verify(PJ, 'PlanJoinTablesQuery.process_predictor', make_args_e, lambda ex, o: None if (o.kind == 'raise' and o.value is NotImplementedError) else f'{o.kind} {o.value!r}')
    _emit(rep, 'C14.predictor.first-in-join', v, fn, 'a model without data to its left raises NotImplementedError')


def attribution_obligations(rep):
    from mindsdb_sql.parser.ast import BinaryOperation, Identifier, Constant
    from mindsdb_sql.planner.plan_join import TableInfo
    fn = f'{PJ}:PlanJoinTablesQuery.check_node_condition'
    for case, opname in (('table2', '='), ('unqualified', '='), ('unknown-table', '='), ('col-vs-col', '='), ('const-first', '='), ('const-first-lt', '<'), ('const-first-ge', '>='), ('table2-lt', '<')):
        def make_args(ex, case=case.split('-lt')[0].split('-ge')[0], opname=opname):
            from mindsdb_sql.planner.plan_join import PlanJoinTablesQuery
            selfo = SymObj({PlanJoinTablesQuery}, 'self', prov='param')      # helper methods resolve on the real class
            t1 = SymObj({TableInfo}, 'table_info1', prov='param')
            t2 = SymObj({TableInfo}, 'table_info2', prov='param')
            for t in (t1, t2):
                t.fields['conditions'] = ex.param_container([])
            selfo.fields['tables_idx'] = {('t1',): t1, ('t2',): t2}
            col = SymObj({Identifier}, 'col', prov='param')
            parts = {'table2': ['T2', 'y'], 'unqualified': ['y'], 'unknown-table': ['zz', 'y'], 'col-vs-col': ['t2', 'y'], 'const-first': ['t2', 'y']}[case]
            col.fields.update(parts=ex.param_container(list(parts)), alias=None, parentheses=False)
            col.copyable = True
            col.closed = True
            other = SymObj({Identifier if case == 'col-vs-col' else Constant}, 'other', prov='param')
            other.fields.update(alias=None, parentheses=False, **({'parts': ex.param_container(['t1', 'x'])} if case == 'col-vs-col' else {'value': 1}))
            other.copyable = True
            other.closed = True
            node = SymObj({BinaryOperation}, 'node', prov='param')
            node.copyable = True
            args = [other, col] if case == 'const-first' else [col, other]
            node.fields.update(op=opname, args=ex.param_container(args), alias=None, parentheses=False)
            ex.stubs[('mindsdb_sql.parser.ast.base', 'ASTNode.to_string')] = lambda ex_, a, k, node_=None: 'ident'
            ex.path_state.update(t1=t1, t2=t2, node=node)
            return [selfo, node], {}

        def post(ex, o, case=case.split('-lt')[0].split('-ge')[0], opname=opname):
            from mindsdb_sql.exceptions import PlanningException
            st = o.state
            c1, c2 = st['t1'].fields['conditions'], st['t2'].fields['conditions']
            if case == 'unknown-table':
                return None if (o.kind == 'raise' and issubclass(o.value, PlanningException)) else f'unknown table qualifier: {o.kind} {o.value!r}'
            if o.kind != 'return':
                return f'raises {o.value.__name__}'
            if case in ('unqualified', 'col-vs-col'):
                return None if (not c1 and not c2) else 'a condition that is not `qualified column <op> constant` was attributed to a table'
            if c1:
                return 'condition attributed to the wrong table'
            if len(c2) != 1:
                return f'condition attributed {len(c2)} times'
            cp = c2[0]
            if cp is st['node'] or getattr(cp, 'copy_of', None) is not st['node']:
                return 'the stored condition is not a copy of the WHERE node'
            if cp.fields.get('_orig_node') is not st['node']:
                return 'link to the original node missing'
            ci = 1 if case == 'const-first' else 0
            # the stored comparison must denote the WHERE conjunct: same operator with the operands in the same order, or the mirrored operator with swapped operands
            sargs = cp.fields.get('args')
            if not isinstance(sargs, list) or len(sargs) != 2:
                return f'stored condition has operands {sargs!r}'
            col_at = [i for i, a in enumerate(sargs) if isinstance(a, SymObj) and 'parts' in (a.fields or {})]
            if len(col_at) != 1:
                return 'stored condition is not column <op> constant'
            mirror = {'=': '=', '<': '>', '>': '<', '<=': '>=', '>=': '<=', '!=': '!=', '<>': '<>'}
            sop = cp.fields.get('op')
            want = opname if col_at[0] == ci else mirror.get(opname)
            if sop != want:
                return f'the conjunct `{"const " + opname + " col" if ci else "col " + opname + " const"}` is stored as `{"const " + str(sop) + " col" if col_at[0] else "col " + str(sop) + " const"}`, which is a different predicate'
            if sargs[col_at[0]].fields['parts'] != ['y']:
                return f'table qualifier not removed in the stored copy: {sargs[col_at[0]].fields["parts"]}'
            if sargs[1 - col_at[0]].fields.get('value') != 1:
                return 'the constant of the stored condition differs'
            if st['node'].fields['args'][ci].fields['parts'] not in (['T2', 'y'], ['t2', 'y']) or st['node'].fields.get('op') != opname:
                return 'the original WHERE node was modified'
            return None
        v = pysym.verify(PJ, 'PlanJoinTablesQuery.check_node_condition', make_args, post)
        _emit(rep, f'C14.attr.{case}', v, fn, 'a `qualified column <op> constant` comparison is copied (qualifier removed, original linked, same predicate) into the conditions of exactly the table its qualifier names',
              replay=(lambda case=case, opname=opname: replay_attr(case.startswith('const-first'), opname)))


def colmap_obligations(rep):
    from mindsdb_sql.parser.ast import BinaryOperation, Identifier, Constant
    from mindsdb_sql.planner.plan_join import TableInfo
    fn = f'{PJ}:PlanJoinTablesQuery.join_condition_to_columns_map'
    for side in ('model-left', 'model-right', 'neither', 'const', 'model-left-samename', 'model-right-samename', 'model-left-unqualified', 'model-right-unqualified'):
        samename = side.endswith('-samename')
        unq = side.endswith('-unqualified')           # the data column is written without its table: no table is known for it, it is still the column the model column maps to
        side = side.replace('-samename', '').replace('-unqualified', '')

        def run(ex, side=side, samename=samename, unq=unq):
            selfo = SymObj(None, 'self', prov='param')
            selfo.known_not_none = True
            model, table = SymObj({TableInfo}, 'model_table', prov='param'), SymObj({TableInfo}, 'data_table', prov='param')
            a1 = SymObj({Identifier}, 'arg1', prov='param')
            a2 = SymObj({Identifier if side != 'const' else Constant}, 'arg2', prov='param')
            a1.fields.update(parts=ex.param_container(['m', 'mc']), alias=None, parentheses=False)
            if side != 'const':
                a2.fields.update(parts=ex.param_container((['t'] if not unq else []) + ['mc' if samename else 'tc']), alias=None, parentheses=False)
            owner = {'model-left': (model, table), 'model-right': (table, model), 'neither': (table, table), 'const': (model, None)}[side]
            if unq:
                owner = tuple(None if o_ is table else o_ for o_ in owner)
            selfo.fields['get_table_for_column'] = Stub(lambda ex_, a, k: owner[0] if a[0] is a1 else owner[1], 'get_table_for_column')
            node = SymObj({BinaryOperation}, 'cond', prov='param')
            node.fields.update(op='=', args=ex.param_container([a1, a2]), alias=None, parentheses=False)
            model.fields['join_condition'] = node
            captured = {}
            ex.stubs[('mindsdb_sql.planner.utils', 'query_traversal')] = lambda ex_, a, k, node_=None: captured.update(cb=a[1], root=a[0])
            clo = pysym.closure_of(PJ, 'PlanJoinTablesQuery.join_condition_to_columns_map')
            clo.no_stub = True
            res = ex.call_closure(clo, [selfo, model], {})
            ex.call(captured['cb'], [node], {'is_table': False})
            ex.path_state.update(res=res, node=node, a1=a1, a2=a2, root=captured.get('root'))
            return res

        def post(ex, o, side=side, samename=samename):
            if o.kind != 'return':
                return f'raises {o.value.__name__}'
            st = o.state
            if st['root'] is not st['node']:
                return 'the ON condition of the model is not the tree that is walked'
            res, args = st['res'], st['node'].fields['args']
            neutral = len(args) == 2 and all(isinstance(a, SymObj) and a.cls is Constant and a.fields.get('value') == 0 for a in args)
            if side == 'model-left':
                ok = res == {'mc': st['a2']} and res['mc'] is st['a2'] and neutral
            elif side == 'model-right':
                ok = set(res) == {'mc' if samename else 'tc'} and res['mc' if samename else 'tc'] is st['a1'] and neutral
            else:
                ok = res == {} and not neutral
            return None if ok else f'{side}: mapping {res!r}, condition {"neutralised" if neutral else "kept"}'
        ex = pysym.Executor()
        try:
            outs = ex.explore(run)
            bad = next((r for r in (post(ex, o) for o in outs) if r), None)
            v = pysym.Verdict(FAILED, bad) if bad else pysym.Verdict(PROVED, f'{len(outs)} path(s)')
        except (Unsupported, PathLimit) as e:
            v = pysym.Verdict(UNDECIDED, f'{type(e).__name__}: {e}')
        _emit(rep, f'C14.colmap.{side}' + ('.same-name' if samename else '') + ('.unqualified' if unq else ''), v, fn, 'an ON equality between a model column and a table column becomes {model column: table identifier} and is neutralised; other conditions are kept')


CONTEXTS = {
    'top': 'm.x = 2',
    'and': 't.a = 1 AND m.x = 2',
    'not': 'NOT m.x = 2',
    'and-not': 't.a = 1 AND NOT m.x = 2',
    'or': 't.a = 1 OR m.x = 2',
    'function': 'coalesce(m.x = 2, true)',
    'is-null': '(m.x = 2) IS NULL',
    # top-level conjuncts next to other shapes of conditions: still model arguments
    'and-or-elsewhere': 'm.x = 2 AND (t.a = 1 OR t.b = 3)',
    'and-not-elsewhere': 'm.x = 2 AND NOT t.a = 1',
    'and-function-elsewhere': 'm.x = 2 AND coalesce(t.a, 0) = 1',
    'and-between-elsewhere': 't.a BETWEEN 1 AND 5 AND m.x = 2',
    'and-in-elsewhere': 't.a IN (1, 3) AND m.x = 2',
    'nested-and': 't.a = 1 AND (t.b = 3 AND m.x = 2)',
    'mirrored': '2 = m.x AND t.a = 1',
}
TOP = {'top', 'and', 'and-or-elsewhere', 'and-not-elsewhere', 'and-function-elsewhere', 'and-between-elsewhere', 'and-in-elsewhere', 'nested-and', 'mirrored'}


def replay_attr(const_first, opname):
    """plans a model join whose WHERE is `10 <op> t.a` / `t.a <op> 10` and evaluates the filter placed in the table fetch against the conjunct for a = 5, 10, 15"""
    import operator
    from mindsdb_sql.planner.steps import FetchDataframeStep
    from mindsdb_sql.parser.ast import BinaryOperation, Identifier, Constant
    cond = f'10 {opname} t.a' if const_first else f't.a {opname} 10'
    sql = f'SELECT * FROM int1.tbl1 AS t JOIN mindsdb.pred AS m WHERE {cond}'
    ops = {'=': operator.eq, '<': operator.lt, '>': operator.gt, '<=': operator.le, '>=': operator.ge, '!=': operator.ne, '<>': operator.ne}
    try:
        p = plan(sql)
        f = [s_ for s_ in p.steps if isinstance(s_, FetchDataframeStep)][0]
        w = f.query.where
        if not isinstance(w, BinaryOperation) or w.op not in ops:
            return {'input': sql, 'dialect': 'mindsdb', 'fires': False, 'observed': f'fetch where = `{w}`'}
        diff = []
        for a in (5, 10, 15):
            vals = [a if isinstance(x, Identifier) else x.value for x in w.args]
            got = ops[w.op](*vals)
            want = ops[opname](10, a) if const_first else ops[opname](a, 10)
            if got != want:
                diff.append(a)
        return {'input': sql, 'dialect': 'mindsdb', 'fires': bool(diff), 'observed': f'the fetch of tbl1 is filtered by `{w}`, which differs from `{cond}` for a in {diff}', 'expected': f'a filter equivalent to `{cond}`'}
    except Exception as e:
        return {'input': sql, 'dialect': 'mindsdb', 'fires': False, 'observed': f'{type(e).__name__}: {e}'[:120]}


def replay_model(sql):
    from mindsdb_sql.planner.steps import ApplyPredictorStep
    # first: a model whose target name contains the names of other model columns (string and list form of to_predict)
    from mindsdb_sql import parse_sql
    from mindsdb_sql.planner.query_planner import QueryPlanner
    # USING options: own-alias prefix removed, the rest of a dotted name kept, keys lower-cased, foreign-alias options dropped
    sql3 = "SELECT * FROM int1.tbl1 AS t JOIN mindsdb.pred AS m USING m.Engine.Temperature = 5, m.engine.top_p = 9, m.Bar = 2, Foo = 1, other.baz = 3"
    try:
        p3 = plan(sql3)
        ap3 = [s_ for s_ in p3.steps if isinstance(s_, ApplyPredictorStep)]
        want3 = {'engine.temperature': 5, 'engine.top_p': 9, 'bar': 2, 'foo': 1}
        if not (len(ap3) == 1 and ap3[0].params == want3):
            return {'input': sql3, 'dialect': 'mindsdb', 'fires': True, 'observed': f'params={ap3[0].params if ap3 else None}', 'expected': repr(want3)}
    except Exception:
        pass
    for tp in ('price', ['price']):
        sql2 = "SELECT * FROM int1.tbl1 AS t JOIN mindsdb.pred AS m WHERE m.ice = 1 AND m.pricey = 3 AND m.Price = 10 AND t.a = 2"
        try:
            p2 = QueryPlanner(parse_sql(sql2), integrations=['int1'], predictor_metadata=[{'name': 'pred', 'integration_name': 'mindsdb', 'to_predict': tp}], default_namespace='mindsdb').from_query()
            ap2 = [s_ for s_ in p2.steps if isinstance(s_, ApplyPredictorStep)]
            if not (len(ap2) == 1 and ap2[0].row_dict == {'ice': 1, 'pricey': 3}):
                return {'input': sql2, 'dialect': 'mindsdb', 'fires': True, 'observed': f'to_predict={tp!r}: row_dict={ap2[0].row_dict if ap2 else None}', 'expected': "{'ice': 1, 'pricey': 3}"}
        except Exception as e:
            pass
    try:
        p = plan(sql)
    except Exception as e:
        return {'input': sql, 'dialect': 'mindsdb', 'fires': False, 'observed': f'{type(e).__name__}: {e}'[:120]}
    ap = [s for s in p.steps if isinstance(s, ApplyPredictorStep)]
    ok = len(ap) == 1 and ap[0].row_dict == {'x': 2}
    return {'input': sql, 'dialect': 'mindsdb', 'fires': not ok, 'observed': f'row_dict={ap[0].row_dict if ap else None}', 'expected': "{'x': 2}"}


def context_obligations(rep):
    from mindsdb_sql.planner.steps import ApplyPredictorStep, FetchDataframeStep
    fn = f'{PJ}:PlanJoinTablesQuery.check_query_conditions,{PJ}:PlanJoinTablesQuery.process_predictor'
    for name, cond in CONTEXTS.items():
        sql = f'SELECT * FROM int1.tbl1 AS t JOIN mindsdb.pred AS m WHERE {cond}'
        oid = f'C14.context.{name}'
        clause = 'a `model column = constant` comparison becomes a model argument only if it is a top-level conjunct of WHERE'
        try:
            p = plan(sql)
        except Exception as e:
            rep.undecided(oid, 'pysym', f'{type(e).__name__}: {e}'[:120], function=fn, clause=clause)
            continue
        ap = [s for s in p.steps if isinstance(s, ApplyPredictorStep)]
        rd = ap[0].row_dict if ap else None
        consumed = bool(rd) and 'x' in rd
        outer = [s_ for s_ in p.steps if type(s_).__name__ == 'QueryStep']
        outer_where = ' '.join(str(getattr(outer[-1].query, 'where', '')).replace('`', '').split()) if outer else ''
        if consumed and name not in TOP:
            rep.failed(oid, 'pysym', f'the comparison inside `{cond}` becomes the model argument {rd}', function=fn, clause=clause,
                       replay={'input': sql, 'dialect': 'mindsdb', 'fires': True, 'observed': f'row_dict={rd}', 'expected': 'no model argument'})
        elif name in TOP and not (consumed and rd.get('x') == 2):
            rep.failed(oid, 'pysym', f'the top-level conjunct `m.x = 2` of `{cond}` does not become a model argument (row_dict={rd})', function=fn,
                       clause='a `model column = constant` comparison that is a top-level conjunct of WHERE becomes a model argument and no longer filters the outer result',
                       replay={'input': sql, 'dialect': 'mindsdb', 'fires': True, 'observed': f'row_dict={rd}', 'expected': "{'x': 2}"})
        elif name in TOP and ('m.x = 2' in outer_where or '2 = m.x' in outer_where):
            rep.failed(oid, 'pysym', f'`m.x = 2` was handed to the model but still filters the outer result: `{outer_where}`', function=fn, clause=clause,
                       replay={'input': sql, 'dialect': 'mindsdb', 'fires': True, 'observed': f'outer WHERE `{outer_where}`', 'expected': 'the condition neutralised'})
        else:
            rep.proved(oid, 'pysym', f'row_dict={rd}', function=fn, clause=clause)


def bounded(rep, tier):
    from mindsdb_sql.planner.steps import ApplyPredictorStep, FetchDataframeStep, ApplyPredictorRowStep
    n = 0
    fails = {}
    for sc in plans.generated_scenarios(tier):
        name = sc['source'].split(':')[2]
        if not name.startswith(('model-join', 'two-models', 'model-version', 'model-project')):
            continue
        n += 1
        try:
            q, pl, plan_, e, kw = plans.run_scenario(sc)
        except Exception:
            continue
        if e is not None:
            continue
        sql = sc['sql']
        n_models = sql.count('mindsdb.pred') + sql.count('proj.pred2')
        ap = [s for s in plan_.steps if isinstance(s, ApplyPredictorStep)]
        from mindsdb_sql.planner.steps import MapReduceStep
        for s in plan_.steps:
            if isinstance(s, MapReduceStep):
                sub = s.step if isinstance(s.step, list) else [s.step]
                ap += [x for x in sub if isinstance(x, ApplyPredictorStep)]
        if len(ap) != n_models:
            fails.setdefault(f'C14.bounded.apply-count.{name}', (sql, f'[{sc["catalog"]}] {len(ap)} apply-predictor steps for {n_models} model references'))
        for f in [s for s in plan_.steps if isinstance(s, FetchDataframeStep)]:
            w = str(f.query.where) if f.query.where is not None else ''
            if 'x' in [tok.strip('`') for tok in w.replace('(', ' ').replace(')', ' ').split()]:
                fails.setdefault(f'C14.bounded.model-arg-in-fetch.{name}', (sql, f'model condition appears in fetch `{f.query}`'))
        for a in ap:
            if a.row_dict and 'a' in a.row_dict:
                fails.setdefault(f'C14.bounded.table-filter-as-arg.{name}', (sql, f'table condition became model argument: {a.row_dict}'))
    # whatever is pushed into the fetch of one table mentions only that table: no identifier of the fetch is qualified by another table / model alias
    from mindsdb_sql.parser.ast import Identifier, Select
    from vlib import corpus
    for sc in plans.generated_scenarios(tier):
        name = sc['source'].split(':')[2]
        if sc['catalog'] != 'names' and not name.startswith('nonconst'):
            continue
        try:
            q, pl, plan_, e, kw = plans.run_scenario(sc)
        except Exception:
            continue
        if e is not None or plan_ is None:
            continue
        n += 1
        aliases = set()
        for p_, x in corpus.walk_nodes(q):
            if isinstance(x, Identifier) and x.alias is not None and len(x.alias.parts) == 1:
                aliases.add(str(x.alias.parts[0]).lower())
        for f in [s_ for s_ in plans.all_fetches(plan_)] if hasattr(plans, 'all_fetches') else [s_ for s_ in plan_.steps if isinstance(s_, FetchDataframeStep)]:
            fq = f.query
            if not isinstance(fq, Select) or not isinstance(fq.from_table, Identifier):
                continue
            own = {str(fq.from_table.parts[-1]).lower()} | ({str(fq.from_table.alias.parts[0]).lower()} if fq.from_table.alias is not None else set())
            inner = set()
            for p_, x in (corpus.walk_nodes(fq.where) if fq.where is not None else []):
                if isinstance(x, Select):
                    inner.update(id(y) for p2, y in corpus.walk_nodes(x))       # a nested query has its own scope
            for p_, x in corpus.walk_nodes(fq.where) if fq.where is not None else []:
                if id(x) in inner:
                    continue
                if isinstance(x, Identifier) and len(x.parts) >= 2 and isinstance(x.parts[0], str):
                    qual = x.parts[-2].lower() if isinstance(x.parts[-2], str) else None
                    if qual in aliases and qual not in own:
                        fails.setdefault(f'C14.bounded.foreign-column-in-fetch.{name}', (sc['sql'], f'[{sc["catalog"]}] fetch `{fq}` is filtered by `{x}`, a column of another table / model'))
    # a comparison in the ON clause of two data tables joined to a model: pushed into the fetch only as a top-level conjunct
    from contracts import C08
    n_on, on_fails = C08.on_path_analysis(tier, prefix='C14', tail=' JOIN mindsdb.pred AS m')
    n += n_on
    fails.update(on_fails)
    rep.bounded_evals = n
    rep.bounded_rule = ('model-join scenarios x 5 catalogs: one ApplyPredictorStep per model reference; model-argument column never in a fetch; table-column conditions never in row_dict; '
                        'every path of connectives (AND/OR, NOT, function, IS NULL; depth <= 2, thorough 3) above a comparison in the ON clause of an inner / left join of two tables '
                        'followed by a model: pushed into the fetch only if ON = true implies it (three-valued truth table)')
    for cid, (inp, obs) in sorted(fails.items()):
        rep.add_bounded(Bounded(cid, False, inp, obs, 'model gets its arguments only', bound='scenario family'))


def check(rep, tier):
    from vlib import statecensus
    statecensus.obligations(rep, 'C14', 'planner')
    from vlib import resolverdep
    resolverdep.obligations(rep, tier, 'C14')
    from vlib import walkerdep
    walkerdep.obligations(rep, tier, 'C14')
    from vlib import userdep
    userdep.obligations(rep, tier, 'C14', which=('info',))
    from vlib import fetchdep
    fetchdep.obligations(rep, tier, 'C14')
    # the rows a model is applied to are the rows of the joins before it: the preserved side of an outer join is fetched unrestricted (C08.semijoin.*)
    from contracts import C08 as _C08
    sub_ = type(rep)('C08', tier, _C08.LEVEL)
    _C08.semijoin_obligations(sub_)
    for x_ in sub_.unlisted_failures():
        if hasattr(x_, 'status'):
            rep.failed('C14.semijoin.' + x_.id.split('.', 2)[2], x_.engine, x_.detail, function=x_.function, clause=x_.clause, replay=x_.replay)
    rep.dropped = 'method bodies read with ast.parse; nested visitor closures executed by pysym'
    rep.assume('C13 walker contract (every comparison is shown to the collecting visitor)', 'execution semantics of ApplyPredictorStep as documented in steps.py')
    rep.trust('pysym executor')
    predictor_obligations(rep)
    attribution_obligations(rep)
    colmap_obligations(rep)
    context_obligations(rep)
    bounded(rep, tier)
    rep.notes.append('Per-function lemmas proved; boolean-context defects are known findings.')
