"""C04 — string, number and identifier tokens keep exactly the value the SQL text denotes (and print back to it).

decode obligations  C04.dec.<dialect>.<TOKEN>.<region>:  forall token texts w in the region: (parser action . lexer action)(w) == Den(w)
encode obligations  C04.enc.<dialect>.<Class>.<region>:  forall values v in the region: the printed text is matched as exactly one
                    token of the right kind (no shorter / longer prefix is a token of that kind) and Den(text) == v
Den is the explicit denotation written in contracts/codecs.py from the property statement; which escape forms a dialect has
is read off its token regex.  Engine: fst (all strings); the extracted transducers are validated against CPython running the
real functions on every run."""
import sys
import ast, re, itertools
import z3
from vlib import pike
from vlib import repo, lrtab, codec, pysym, lexmodel
from vlib.core import PROVED, FAILED, UNDECIDED, Bounded, CheckerError
from vlib.fst import Fst, Dfa, FstError, regex_dfa, equivalent, validate
from contracts import codecs
from contracts.codecs import ALPHABET, Q, DQ, BS, BT

LEVEL = 'other'
MANIFEST = {
    'engine': 'fst+pysym',
    'level': 'other',
    'technique': 'real lexer/parser/printer string functions extracted from the AST into finite-state transducers; equivalence with an explicit denotation decided for all strings (product + delay; helpers inlined, constant tables unrolled, type tests decided under the stated assumption); quoting decision of identifiers read off the real printer by symbolic execution and checked against a token-level model of the real master regex; integers by symbolic execution',
    'text': 'Every decode/encode obligation is decided for all strings of its region by transducer equivalence / regular inclusion on the '
            'minterm alphabet; extraction is mechanical and cross-checked against CPython on all strings up to length 4 on every run. '
            'The unchanged tree fails many regions (genuine defects with shortest witnesses replayed through parse_sql/to_string), so '
            'the level is other.',
    'note': 'Trusted: the fst back end (own code, validated per run), the denotation spec, minterm abstraction (completeness checked over '
            'ASCII + sample Unicode). Assumed: re.finditer splitting in path_str_to_parts (validated by enumeration to length 5, labelled '
            'bounded). Floats: bounded grid only.',
}


def _v(status, detail, cex=None):
    return pysym.Verdict(status, detail, 0, cex)


def bad_inputs(E, bad_lang):
    """shortest input whose image under E lies in bad_lang (or None)"""
    return E.then(Fst.restrict(ALPHABET, bad_lang)).domain().witness()


def body_regions(delim, other):
    """regions of token texts  delim body delim"""
    bs = codecs.containing(BS)
    three = codecs.star().concat(Dfa.literal(ALPHABET, delim)).concat(codecs.star()).concat(Dfa.literal(ALPHABET, delim)).concat(codecs.star()).concat(Dfa.literal(ALPHABET, delim)).concat(codecs.star())
    oth = codecs.containing(other)
    return {
        'backslash': bs,
        'doubled': three.minus(bs),
        'otherquote': oth.minus(bs).minus(three),
        'plain': bs.complement().minus(three).minus(oth),
    }


def value_regions():
    bs = codecs.containing(BS)
    q = codecs.containing(Q)
    dq = codecs.containing(DQ)
    return {
        'backslash': bs,
        'squote': q.minus(bs),
        'dquote': dq.minus(bs).minus(q),
        'plain': bs.complement().minus(q).minus(dq),
    }


# ------------------------------------------------------------------ replay helpers (through the real API)
def replay_decode(dname, text, want):
    from mindsdb_sql import parse_sql
    sql = f'select {text}'
    try:
        q = parse_sql(sql, dialect=dname)
        got = q.targets[0].value if hasattr(q.targets[0], 'value') else repr(q.targets[0])
    except Exception as e:
        got = f'{type(e).__name__}: {str(e)[:80]}'
    return {'input': sql, 'dialect': dname, 'fires': got != want, 'observed': f'value {got!r}', 'expected': f'{want!r}'}


def replay_encode(dname, node_factory, v, expect_kind, follow_text=None):
    """print the node as the first target of a SELECT and parse the text again; with follow_text the verifier's continuation is realised by
    a second target (a string constant holding the characters of the continuation that matter)"""
    from mindsdb_sql import parse_sql
    from mindsdb_sql.parser.ast import Select, Constant
    node = node_factory(v)
    targets = [node]
    if follow_text:
        targets.append(Constant('x'))
    try:
        text = Select(targets=targets).to_string()
    except Exception as e:
        return {'input': repr(v), 'dialect': dname, 'fires': True, 'observed': f'printing raises {type(e).__name__}', 'expected': 'text'}
    try:
        q = parse_sql(text, dialect=dname)
        t = q.targets[0]
        got = getattr(t, 'value', None) if expect_kind != 'ident' else getattr(t, 'parts', None)
        ok = (type(t).__name__ == type(node).__name__) and (got == (v if expect_kind != 'ident' else [v])) and len(q.targets) == len(targets)
        obs = f'`{text}` parses to {type(t).__name__} {got!r}' + (f' ({len(q.targets)} targets)' if len(q.targets) != len(targets) else '')
    except Exception as e:
        ok = False
        obs = f'`{text}` -> {type(e).__name__}: {str(e)[:60]}'
    return {'input': repr(v), 'dialect': dname, 'fires': not ok, 'observed': obs, 'expected': f'same value {v!r}'}


# ------------------------------------------------------------------ decode: string literals
def decode_strings(rep, dname):
    for tok, delim, other, par in (('QUOTE_STRING', Q, DQ, 'quote_string'), ('DQUOTE_STRING', DQ, Q, 'dquote_string')):
        fn = f'{dname}:{tok} lexer action,{dname}:{par} parser action'
        try:
            T_lex, pat, f = codecs.lexer_fst(dname, tok)
            T_par = codecs.parser_fst(dname, par, tok)
        except FstError as e:
            fallback_decode(rep, dname, tok, delim, other, par, fn, str(e))
            continue
        L = regex_dfa(pat, re.IGNORECASE, ALPHABET)
        # engine validation against the real functions
        d = lrtab.load(dname)
        K, pfd = codecs.parser_action(dname, par, tok)
        real_par = getattr(d.Parser, par)

        class P:
            def __init__(self, v):
                self.v = v

            def __getitem__(self, i):
                return self.v

        def real(w, f=f, real_par=real_par):
            class Tk:
                pass
            t = Tk()
            t.value = w
            if f is not None:
                f(d.Lexer(), t)
            return real_par(None, P(t.value))
        Dec = T_lex.then(T_par)
        bad = validate(Dec, real, ALPHABET[:8], 4, domain=L)
        if bad:
            raise CheckerError(f'fst model of {dname}.{tok} disagrees with CPython on {bad}')
        doubling = L.accepts(delim + 'a' + delim + delim + 'a' + delim)
        backslash = L.accepts(delim + 'a' + BS + delim + 'a' + delim)
        Den = codecs.den_quoted(delim, doubling, backslash)
        rep.census[f'{dname}.{tok}.syntax'] = {'doubling': doubling, 'backslash': backslash, 'regex': pat}
        dom_den = Den.domain()
        for rname, R in body_regions(delim, other).items():
            oid = f'C04.dec.{dname}.{tok}.{rname}'
            D = L.intersect(R)
            if D.is_empty():
                continue
            if rname != 'backslash':
                w = D.minus(dom_den).witness()
                if w is not None:
                    rep.failed(oid, 'fst', f'token text {w!r} has no denotation under the spec (spec/regex mismatch)', function=fn)
                    continue
            D = D.intersect(dom_den)
            if D.is_empty():
                continue
            r = equivalent(Dec.on_domain(D), Den.on_domain(D))
            clause = f'forall w in L({tok}) & {rname}: strip(replace*(w)) == Den(w)'
            if r[0] is True:
                rep.proved(oid, 'fst', f'equivalent on the whole region (domain DFA {len(D.trans)} states)', function=fn, clause=clause)
            elif r[0] is False:
                w = r[1]
                want = next(iter(Den.apply(w)))
                rep.failed(oid, 'fst', f'shortest witness {w!r}: decoded {sorted(Dec.apply(w))} but denotes {want!r} ({r[2]})', function=fn, clause=clause,
                           cex={'token_text': w}, replay=replay_decode(dname, w, want))
            else:
                rep.undecided(oid, 'fst', r[1], function=fn, clause=clause)
            if rname == 'backslash' and backslash and r[0] is False:
                # the region fails as a whole for ONE listed reason (a doubled backslash is not collapsed).  So that this listed finding does not hide any other
                # change of the region, the decoder is also compared with the denotation modulo exactly that deviation: everything else must still agree
                Den2 = codecs.den_quoted(delim, doubling, backslash, keep_pairs=True)
                D2 = D.intersect(Den2.domain())
                r2 = equivalent(Dec.on_domain(D2), Den2.on_domain(D2))
                oid2 = oid + '.modulo-pairs'
                clause2 = f'forall w in L({tok}) & backslash: decode(w) == Den(w) with doubled backslashes left as they are (the listed deviation); every other escape is decoded as the spec says'
                if r2[0] is True:
                    rep.proved(oid2, 'fst', f'equivalent on the whole region modulo the listed deviation (domain DFA {len(D2.trans)} states)', function=fn, clause=clause2)
                elif r2[0] is False:
                    w2 = r2[1]
                    want2 = next(iter(Den2.apply(w2)))
                    rep.failed(oid2, 'fst', f'shortest witness {w2!r}: decoded {sorted(Dec.apply(w2))}, expected {want2!r} even with doubled backslashes kept ({r2[2]})', function=fn, clause=clause2,
                               cex={'token_text': w2}, replay=replay_decode(dname, w2, want2))
                else:
                    rep.undecided(oid2, 'fst', r2[1], function=fn, clause=clause2)


def fallback_decode(rep, dname, tok, delim, other, par, fn, why):
    """the string functions left the extractable subset: compare the REAL functions with the denotation on all token texts up to
    length 5 (bounded); a mismatch is a violation with a witness, otherwise the obligation is undecided"""
    d = lrtab.load(dname)
    f, fd, pat = codecs.lexer_action(dname, tok)
    L = regex_dfa(pat, re.IGNORECASE, ALPHABET)
    doubling = L.accepts(delim + 'a' + delim + delim + 'a' + delim)
    backslash = L.accepts(delim + 'a' + BS + delim + 'a' + delim)
    Den = codecs.den_quoted(delim, doubling, backslash)
    real_par = getattr(d.Parser, par)

    class P:
        def __init__(self, v):
            self.v = v

        def __getitem__(self, i):
            return self.v

    def real(w):
        class Tk:
            pass
        t = Tk()
        t.value = w
        if f is not None:
            f(d.Lexer(), t)
        return real_par(None, P(t.value))
    regs = body_regions(delim, other)
    for rname, R in regs.items():
        oid = f'C04.dec.{dname}.{tok}.{rname}'
        D = L.intersect(R).intersect(Den.domain())
        if D.is_empty():
            continue
        wit = None
        for k in range(2, 6):
            for tup in itertools.product([delim, other, BS, 'a', 'A', ' '], repeat=k):
                w = ''.join(tup)
                if D.accepts(w):
                    want = next(iter(Den.apply(w)))
                    try:
                        got = real(w)
                    except Exception as e:
                        got = f'{type(e).__name__}'
                    if got != want:
                        wit = (w, got, want)
                        break
            if wit:
                break
        if wit:
            rep.failed(oid, 'bounded-fallback', f'(extraction failed: {why}) token text {wit[0]!r} decodes to {wit[1]!r}, denotes {wit[2]!r}', function=fn,
                       replay=replay_decode(dname, wit[0], wit[2]))
        else:
            rep.undecided(oid, 'fst', f'extraction failed: {why}; no mismatch among token texts up to length 5', function=fn)


# ------------------------------------------------------------------ encode: Constant.get_string (str branch)
def branch_function(fd, needle):
    """synthetic function: body of the first `if` whose test source contains `needle`, followed by the function's last return"""
    for st in fd.body:
        if isinstance(st, ast.If) and needle in ast.unparse(st.test):
            tail = [s for s in fd.body if isinstance(s, ast.Return)]
            new = ast.FunctionDef(name=fd.name, args=fd.args, body=list(st.body) + tail[-1:], decorator_list=[], returns=None, type_comment=None)
            return ast.fix_missing_locations(new)
    return None


def encode_constant(rep, dname):
    from mindsdb_sql.parser.ast import Constant
    fn = 'mindsdb_sql.parser.ast.select.constant:Constant.get_string[str]'
    fd = repo.find_function('mindsdb_sql.parser.ast.select.constant', 'Constant.get_string')
    if fd is None:
        rep.undecided(f'C04.enc.{dname}.Constant', 'fst', 'Constant.get_string not found', function=fn)
        return
    try:
        # the whole method under the assumptions "self.value is a str, self.with_quotes is true" (tests on the value's type are decided statically)
        Enc = codec.function_transducer(fd, ALPHABET, ['self.value'], result='return', module='mindsdb_sql.parser.ast.select.constant',
                                        static=codec.str_value_assumptions(('with_quotes',)))
    except FstError as e:
        br = branch_function(fd, 'isinstance(self.value, str)')
        try:
            if br is None:
                raise FstError(f'{e}; no `if isinstance(self.value, str)` branch either')
            Enc = codec.function_transducer(br, ALPHABET, ['self.value'], result='return', module='mindsdb_sql.parser.ast.select.constant')
        except FstError as e2:
            rep.undecided(f'C04.enc.{dname}.Constant', 'fst', f'extraction: {e2}', function=fn)
            return
    bad = validate(Enc, lambda v: Constant(v).get_string(), ALPHABET[:8], 4)
    if bad:
        raise CheckerError(f'fst model of Constant.get_string disagrees with CPython on {bad}')
    _, _, pat = codecs.lexer_action(dname, 'QUOTE_STRING')
    L = regex_dfa(pat, re.IGNORECASE, ALPHABET)
    doubling = L.accepts("'a''a'")
    backslash = L.accepts("'a\\'a'")
    Den = codecs.den_quoted(Q, doubling, backslash)
    follow = Dfa.chars(ALPHABET, [c for c in ALPHABET if c != Q]).concat(codecs.star())
    pk = pike.Pike(pat, re.IGNORECASE)
    badpk = pk.validate(list("'\"\\a "), 6)
    if badpk:
        raise CheckerError(f'ordered-thread model of the {dname} QUOTE_STRING pattern disagrees with re.match on {badpk}')
    for rname, R in value_regions().items():
        oid = f'C04.enc.{dname}.Constant.{rname}'
        E = Enc.on_domain(R)
        follow_text = None
        clause = ('forall v in region, forall follow not starting with a quote: the match re prefers for the QUOTE_STRING pattern on get_string(v).follow '
                  'is exactly get_string(v), and Den(get_string(v)) == v')
        # (a) image inside the token language
        v = bad_inputs(E, L.complement())
        why = None
        if v is not None:
            why = f'printed text {next(iter(Enc.apply(v)))!r} is not a QUOTE_STRING token of the {dname} dialect'
        else:
            # (b) the match `re` prefers on  text . follow  is exactly text (ordered-thread automaton of the real token pattern, vlib/pike.py)
            r = pike.preferred_not_exact(pk, ALPHABET, E.image(), follow)
            if r is not None:
                text, f, end = r
                v = bad_inputs(E, Dfa.literal(ALPHABET, text))
                why = (f'printed text {text!r} followed by {f!r} is not read back as one literal: the token pattern prefers a match ending at '
                       f'offset {end} (the text has {len(text)} characters)')
                follow_text = f
            else:
                r = equivalent(E.then(Den), Fst.identity(ALPHABET).on_domain(R))
                if r[0] is False:
                    v = r[1]
                    why = f'printed text {next(iter(Enc.apply(v)))!r} denotes {sorted(E.then(Den).apply(v))} ({r[2]})'
                elif r[0] is None:
                    rep.undecided(oid, 'fst', r[1], function=fn, clause=clause)
                    continue
        if why is None:
            rep.proved(oid, 'fst', 'image within the token language, preferred match is the whole text whatever follows, Den(enc(v)) == v for the whole region', function=fn, clause=clause)
        else:
            rp = replay_encode(dname, lambda x: Constant(x), v, 'const', follow_text) if v is not None else None
            rep.failed(oid, 'fst', f'shortest witness value {v!r}: {why}', function=fn, clause=clause, cex={'value': v}, replay=rp)


# ------------------------------------------------------------------ variables
def variables(rep, dname):
    d = lrtab.load(dname)
    from mindsdb_sql.parser.ast import Variable
    for tok, sig in (('VARIABLE', 1), ('SYSTEM_VARIABLE', 2)):
        if tok not in d.Lexer.tokens:
            continue
        fn = f'{dname}:{tok} lexer action,mindsdb_sql.parser.ast.variable:Variable.get_string'
        try:
            T_lex, pat, f = codecs.lexer_fst(dname, tok)
        except FstError as e:
            rep.undecided(f'C04.dec.{dname}.{tok}', 'fst', f'extraction: {e}', function=fn)
            continue
        L = regex_dfa(pat, re.IGNORECASE, ALPHABET)

        def real(w, f=f):
            class Tk:
                pass
            t = Tk()
            t.value = w
            f(d.Lexer(), t)
            return t.value
        bad = validate(T_lex, real, ALPHABET[:9], 4, domain=L)
        if bad:
            raise CheckerError(f'fst model of {dname}.{tok} disagrees with CPython on {bad}')
        # the grammar action that builds the Variable node may decode as well (`variable : VARIABLE`): lexer action, then the action's
        # `value` argument; validated against the real parser below (replay) and on every token text up to length 4
        K, fd_p = codecs.parser_action(dname, 'variable', tok)
        if fd_p is not None:
            fn = f'{dname}:{tok} lexer action,{dname}:variable grammar action,mindsdb_sql.parser.ast.variable:Variable.get_string'
            try:
                T_par = codec.function_transducer(fd_p, ALPHABET, ['p[0]', f'p.{tok}'], result='return', module=K.__module__)
            except FstError as e:
                rep.undecided(f'C04.dec.{dname}.{tok}', 'fst', f'extraction of the variable action: {e}', function=fn)
                continue

            def real_p(w, f=f):
                r = [x for x in d.Lexer().tokenize(w)]
                if len(r) != 1 or r[0].type != tok:
                    return None
                from mindsdb_sql import parse_sql
                return parse_sql('select ' + w, dname).targets[0].value
            T_lex = T_lex.then(T_par)
            bad = validate(T_lex, real_p, ALPHABET[:9], 4, domain=L)
            if bad:
                raise CheckerError(f'fst model of {dname}.{tok} + variable action disagrees with CPython on {bad}')
        Den = codecs.den_variable(sig)
        w = L.minus(Den.domain()).witness()
        oid = f'C04.dec.{dname}.{tok}'
        if w is not None:
            rep.failed(oid, 'fst', f'token text {w!r} outside the denotation domain', function=fn)
        else:
            r = equivalent(T_lex.on_domain(L), Den.on_domain(L))
            clause = f'forall w in L({tok}): action(w) == Den(w)  (sigils and one pair of quotes removed, nothing else)'
            if r[0] is True:
                rep.proved(oid, 'fst', 'equivalent on the whole token language', function=fn, clause=clause)
            elif r[0] is False:
                want = next(iter(Den.apply(r[1])))
                rep.failed(oid, 'fst', f'shortest witness {r[1]!r}: {sorted(T_lex.apply(r[1]))} vs {want!r}', function=fn, clause=clause,
                           replay=replay_decode(dname, r[1], want))
            else:
                rep.undecided(oid, 'fst', r[1], function=fn)
        # encoder
        fd = repo.find_function('mindsdb_sql.parser.ast.variable', 'Variable.get_string')
        try:
            Enc = _variable_encoder(fd, sig == 2)
        except FstError as e:
            rep.undecided(f'C04.enc.{dname}.Variable.{tok}', 'fst', f'extraction: {e}', function=fn)
            continue
        bad = validate(Enc, lambda v: Variable(v, is_system_var=(sig == 2)).get_string(), ALPHABET[:9], 3)
        if bad:
            raise CheckerError(f'fst model of Variable.get_string disagrees with CPython on {bad}')
        word = regex_dfa(r'[a-zA-Z_.$]+', 0, ALPHABET)
        follow_bad = regex_dfa(r'[a-zA-Z_.$]', 0, ALPHABET).concat(codecs.star())
        for rname, R in (('word', word), ('needs-quotes', word.complement().intersect(Dfa.plus_any(ALPHABET)))):
            oid = f'C04.enc.{dname}.Variable.{tok}.{rname}'
            E = Enc.on_domain(R)
            clause = 'forall v in region: get_string(v) is exactly one variable token and denotes v'
            v = bad_inputs(E, L.complement())
            why = None
            if v is not None:
                why = f'printed text {next(iter(Enc.apply(v)))!r} is not a {tok} token'
            else:
                r = equivalent(E.then(Den), Fst.identity(ALPHABET).on_domain(R))
                if r[0] is False:
                    v = r[1]
                    why = f'printed text {next(iter(Enc.apply(v)))!r} denotes {sorted(E.then(Den).apply(v))}'
                elif r[0] is None:
                    rep.undecided(oid, 'fst', r[1], function=fn)
                    continue
            if why is None:
                rep.proved(oid, 'fst', 'whole region', function=fn, clause=clause)
            else:
                rep.failed(oid, 'fst', f'shortest witness value {v!r}: {why}', function=fn, clause=clause,
                           replay=replay_encode(dname, lambda x: Variable(x, is_system_var=(sig == 2)), v, 'var'))


def _variable_encoder(fd, system):
    """Variable.get_string: ('@@' if self.is_system_var else '@') + f'{str(self.value)}' -> specialise the conditional"""
    class Spec(ast.NodeTransformer):
        def visit_IfExp(self, n):
            if 'is_system_var' in ast.unparse(n.test):
                return n.body if system else n.orelse
            return n
    import copy
    fd2 = Spec().visit(copy.deepcopy(fd))
    ast.fix_missing_locations(fd2)
    return codec.function_transducer(fd2, ALPHABET, ['self.value'], result='return', module='mindsdb_sql.parser.ast.variable')


# ------------------------------------------------------------------ identifiers
def identifiers(rep, dname):
    from mindsdb_sql.parser.ast import Identifier
    from mindsdb_sql.parser.ast.select import identifier as idmod
    d = lrtab.load(dname)
    _, _, pat = codecs.lexer_action(dname, 'ID')
    fn = 'mindsdb_sql.parser.ast.select.identifier:path_str_to_parts,Identifier.parts_to_str'
    L = regex_dfa(pat, re.IGNORECASE, ALPHABET)
    Den = codecs.den_ident()
    quoted = Dfa.literal(ALPHABET, BT).concat(codecs.star())
    # decode: the only string operation on the value path is .strip('`') of each regex match
    fd = repo.find_function('mindsdb_sql.parser.ast.select.identifier', 'path_str_to_parts')
    strips = [n for n in ast.walk(fd) if isinstance(n, ast.Call) and isinstance(n.func, ast.Attribute) and n.func.attr in ('strip', 'lower', 'upper', 'replace', 'lstrip', 'rstrip', 'title')] if fd else []
    ok_shape = fd is not None and len(strips) == 1 and strips[0].func.attr == 'strip' and [getattr(a, 'value', None) for a in strips[0].args] == ['`']
    Strip = Fst.lstrip(ALPHABET, BT).then(Fst.rstrip(ALPHABET, BT))
    for rname, R in (('plain', L.minus(quoted)), ('quoted', L.intersect(quoted))):
        oid = f'C04.ident.dec.{dname}.{rname}'
        clause = 'forall w in L(ID) & region: the single part produced for w is Den(w) (case preserved, back-quotes removed, dots inside back-quotes kept)'
        if not ok_shape:
            # the function is organised differently (helper, generator, capture groups ...): that alone says nothing about the property. The transducer
            # argument needs the recognised shape, so the obligation is left open (soft) and the real function is compared with the denotation on every
            # word of the region up to length 6 over the small alphabet - a difference is a violation with its input
            badw = None
            for k in range(1, 7):
                for tup in itertools.product(ALPHABET[:10], repeat=k):
                    w = ''.join(tup)
                    if R.accepts(w):
                        try:
                            got = idmod.path_str_to_parts(w)
                        except Exception as e_:
                            got = f'{type(e_).__name__}: {e_}'
                        if got != [next(iter(Den.apply(w)))]:
                            badw = (w, got)
                            break
                if badw:
                    break
            if badw:
                rep.failed(oid, 'fst', f'{badw[0]!r} is decoded as {badw[1]!r}', function=fn, clause=clause, replay=replay_ident_decode(dname, badw[0]))
            else:
                rep.undecided(oid, 'fst', 'path_str_to_parts is not of the shape [m[0].strip("`") for m in finditer] the transducer argument reads; the real function agrees with the '
                              'denotation on every word of the region up to length 6 (bounded stand-in)', function=fn, clause=clause, soft=True)
            continue
        r = equivalent(Strip.on_domain(R), Den.on_domain(R))
        if r[0] is True:
            # finditer yields the whole token as its single match on this region: bounded validation of that assumption
            badw = None
            for k in range(1, 6):
                for tup in itertools.product(ALPHABET[:10], repeat=k):
                    w = ''.join(tup)
                    if R.accepts(w) and idmod.path_str_to_parts(w) != [next(iter(Den.apply(w)))]:
                        badw = w
                        break
                if badw:
                    break
            if badw:
                rep.failed(oid, 'fst', f'{badw!r} splits into {idmod.path_str_to_parts(badw)}', function=fn, clause=clause, replay=replay_ident_decode(dname, badw))
            else:
                rep.proved(oid, 'fst', 'strip equals the denotation on the whole region; single-match assumption validated to length 5', function=fn, clause=clause)
        elif r[0] is False:
            rep.failed(oid, 'fst', f'witness {r[1]!r}', function=fn, clause=clause, replay=replay_ident_decode(dname, r[1]))
        else:
            rep.undecided(oid, 'fst', r[1], function=fn)
    # encode: a single part. The quoting decision is read off the AST of parts_to_str (guard fragment of vlib/lexmodel.guard_dfa)
    Wrap = Fst.wrap(ALPHABET, BT, BT)
    fdp = repo.find_function('mindsdb_sql.parser.ast.select.identifier', 'Identifier.parts_to_str')
    # which parts are printed bare / quoted: read off the real printer by symbolic execution (robust to helper extraction, inverted conditions, early
    # returns); the syntactic reading of the guard is the fall-back
    def _recv(ex_, part_):
        node_ = pysym.SymObj({Identifier}, 'self', prov='param')
        node_.known_not_none = True
        node_.fields.update(parts=ex_.param_container([part_]), alias=None, parentheses=False)
        return [node_], {}
    try:
        small = lexmodel.symbolic_quoting('mindsdb_sql.parser.ast.select.identifier', 'Identifier.parts_to_str', _recv, ALPHABET)
        big = lexmodel.symbolic_quoting('mindsdb_sql.parser.ast.select.identifier', 'Identifier.parts_to_str', _recv, lexmodel.ALPHABET)
        other = big['other'].intersect(Dfa.plus_any(lexmodel.ALPHABET)).witness()
        if other is not None:
            rep.failed(f'C04.ident.enc.{dname}.other', 'fst', f'the part {other!r} is printed neither as it is nor between back-quotes', function=fn,
                       clause='a part is printed bare or back-quoted', replay=replay_encode(dname, lambda x: Identifier(parts=[x]), other, 'ident'))
        quoted_lang, quoted_big = small['quoted'], big['bare'].complement()
    except FstError as e1:
        guard, why_not = quoting_guard(fdp)
        if guard is None:
            rep.undecided(f'C04.ident.enc.{dname}', 'fst', f'parts_to_str is outside both the symbolic reach ({e1}) and the quoting-guard fragment ({why_not}): contract needs review', function=fn)
            return
        try:
            quoted_lang = lexmodel.guard_dfa(guard, 'part', _resolver(fdp), ALPHABET)
            quoted_big = lexmodel.guard_dfa(guard, 'part', _resolver(fdp), lexmodel.ALPHABET)
        except FstError as e:
            rep.undecided(f'C04.ident.enc.{dname}', 'fst', f'quoting guard of parts_to_str is outside the fragment ({e}): contract needs review', function=fn)
            return
    regions = {
        'needs-quotes': quoted_lang.minus(codecs.containing(BT)).intersect(Dfa.plus_any(ALPHABET)),
        'contains-backquote': quoted_lang.intersect(codecs.containing(BT)),
    }
    for rname, R in regions.items():
        oid = f'C04.ident.enc.{dname}.{rname}'
        clause = 'forall parts in region (quoted by the guard of parts_to_str): `part` is exactly one ID token denoting part'
        E = Wrap.on_domain(R)
        v = bad_inputs(E, L.complement())
        why = None
        if v is not None:
            why = f'printed `{v}` is not an ID token'
        else:
            r = equivalent(E.then(Den), Fst.identity(ALPHABET).on_domain(R))
            if r[0] is False:
                v, why = r[1], f'printed text denotes {sorted(E.then(Den).apply(r[1]))}'
        if why is None:
            rep.proved(oid, 'fst', 'whole region', function=fn, clause=clause)
        else:
            rep.failed(oid, 'fst', f'shortest witness part {v!r}: {why}', function=fn, clause=clause, replay=replay_encode(dname, lambda x: Identifier(parts=[x]), v, 'ident'))
    # parts the guard leaves bare: token-level model of the real lexer class (first matching alternative of the master regex, \\b exact)
    M = lexmodel.token_model(d.Lexer)
    BA = lexmodel.ALPHABET
    bare = quoted_big.complement().intersect(Dfa.plus_any(BA))
    id_alts = {p.prod[0] for p in d.prods[1:] if p.name == 'id' and len(p.prod) == 1}
    classes = M.region_report(bare)
    bq = bare.intersect(Dfa.star_any(BA).concat(Dfa.literal(BA, BT)).concat(Dfa.star_any(BA))).witness()
    clause = 'forall parts the guard prints bare: the dialect lexer reads the text as exactly one token, ID or a keyword the `id` rule accepts, spanning the whole text'
    if M.unmodelled:
        rep.undecided(f'C04.ident.enc.{dname}.bare', 'fst', f'token rules outside the regex fragment: {M.unmodelled[:3]}', function=fn)
        return
    # the model against the real master regex: all short words over a probe alphabet + every class witness and its neighbours
    probe = [''.join(t) for k in range(1, 4) for t in itertools.product("aS0_$`. -'é@(", repeat=k)]
    for (tok, how), w in classes.items():
        probe += [w, w + '$', w + 'a', w + ' ', w.upper(), w.lower()]
    dis = M.validate(probe)
    if dis:
        raise CheckerError(f'token model disagrees with {d.lexer_class_name}._master_re on {dis[:3]}')
    short = [w for w in probe if bare.accepts(w) and M.classify(w) == ('ID', True) and M.real(w) != ('ID', True)]
    if bq is not None:
        rep.failed(f'C04.ident.enc.{dname}.bare.backquote', 'fst', f'the part {bq!r} contains a back-quote and is printed bare', function=fn, clause=clause,
                   replay=replay_encode(dname, lambda x: Identifier(parts=[x]), bq, 'ident'))
    for (tok, how), w in sorted(classes.items()):
        oid = f'C04.ident.enc.{dname}.bare.{tok}' + ('' if how == 'whole' else '.prefix')
        if how == 'whole' and (tok == 'ID' or tok in id_alts):
            rep.proved(oid, 'fst', f'bare parts first matched by {tok} over their whole text (e.g. {w!r}) are one name token' + (f'; preferred match is the whole text on {len(probe)} probe words' if tok == 'ID' else ''),
                       function=fn, clause=clause)
        else:
            what = f'is read as token {tok}' + ('' if how == 'whole' else ' followed by more tokens') if not tok.startswith('<') else ('matches no token rule' if tok == '<none>' else 'starts with an ignored character')
            rep.failed(oid, 'fst', f'the part {w!r} is printed bare and {what}', function=fn, clause=clause,
                       replay=replay_encode(dname, lambda x: Identifier(parts=[x]), w, 'ident'))
    if short:
        rep.failed(f'C04.ident.enc.{dname}.bare.ID.preferred', 'fst', f'{short[0]!r}: the ID rule can span the text but its preferred match is shorter', function=fn, clause=clause,
                   replay=replay_encode(dname, lambda x: Identifier(parts=[x]), short[0], 'ident'))


def quoting_guard(fdp):
    """the test of the single `if <test>: part = f'`{part}`'` of parts_to_str, or (None, reason)"""
    if fdp is None:
        return None, 'function not found'
    hits = []
    for n in ast.walk(fdp):
        if isinstance(n, ast.If):
            for st in n.body:
                if isinstance(st, ast.Assign) and isinstance(st.value, ast.JoinedStr) and any(isinstance(v, ast.Constant) and BT in str(v.value) for v in st.value.values):
                    hits.append((n, st))
    if len(hits) != 1:
        return None, f'{len(hits)} quoting statements'
    n, st = hits[0]
    if ast.unparse(st) != "part = f'`{part}`'" or len(n.body) != 1 or n.orelse:
        return None, f'quoting statement is `{ast.unparse(st)[:50]}` / has other branches'
    # no other rewriting of `part` on the non-Star path
    others = [x for x in ast.walk(fdp) if isinstance(x, ast.Assign) and any(isinstance(t, ast.Name) and t.id == 'part' for t in x.targets) and x is not st]
    if [ast.unparse(x) for x in others] != ['part = str(part)']:
        return None, f'other assignments to part: {[ast.unparse(x)[:40] for x in others]}'
    return n.test, None


def _resolver(fdp):
    from mindsdb_sql.parser.ast.select import identifier as idmod
    local_calls = {}
    for x in ast.walk(fdp):
        if isinstance(x, ast.Assign) and len(x.targets) == 1 and isinstance(x.targets[0], ast.Name) and isinstance(x.value, ast.Call) \
                and isinstance(x.value.func, ast.Name) and not x.value.args and not x.value.keywords:
            local_calls[x.targets[0].id] = x.value.func.id

    def resolve(node):
        if isinstance(node, ast.Name):
            if node.id in local_calls:
                return getattr(idmod, local_calls[node.id])()
            if hasattr(idmod, node.id):
                return getattr(idmod, node.id)
        raise FstError(f'cannot resolve {ast.unparse(node)[:40]}')
    return resolve


def replay_ident_decode(dname, w='`a.B`'):
    from mindsdb_sql import parse_sql
    try:
        q = parse_sql(f'select {w}', dialect=dname)
        got = q.targets[0].parts
    except Exception as e:
        got = f'{type(e).__name__}'
    want = [w.strip('`')] if w.startswith('`') else [w]
    return {'input': f'select {w}', 'dialect': dname, 'fires': got != want, 'observed': f'parts {got!r}', 'expected': f'{want!r}'}


# ------------------------------------------------------------------ integers (pysym)
def integers(rep, dname):
    d = lrtab.load(dname)
    K, fd = codecs.parser_action(dname, 'integer', 'INTEGER')
    fn = f'{d.parser_module}:{d.parser_class_name}.integer'
    _, _, pat = codecs.lexer_action(dname, 'INTEGER')
    if fd is None or pat not in (r'\d+', r'(\d+)'):
        rep.undecided(f'C04.int.{dname}', 'pysym', f'integer action / INTEGER regex changed ({pat!r}): contract needs review', function=fn)
        return

    def make_args(ex):
        pysym.pslice_stubs(ex)
        txt = pysym.mk_str('text')
        ex.assume(z3.InRe(txt.t, z3.Plus(z3.Range('0', '9'))))       # token regex \d+ (ASCII digits; see note)
        p = pysym.make_p(ex, 'INTEGER', [txt])
        ex.path_state['txt'] = txt
        return [pysym.SymObj(None, 'self'), p], {}

    def post(ex, o):
        if o.kind != 'return':
            return f'raises {o.value.__name__}'
        v = o.value
        if not (isinstance(v, pysym.SymVal) and v.sort == 'int'):
            return f'returns {v!r}'
        ok, _ = ex.valid(v.t == z3.StrToInt(o.state['txt'].t), pc=o.pc)
        return None if ok else 'value differs from the decimal value of the text'
    v = pysym.verify(K.__module__, None, make_args, post, node=fd)
    clause = 'requires text in \\d+ ; ensures result == decimal value of text'
    if v.status == PROVED:
        rep.proved(f'C04.int.{dname}', 'pysym', v.detail, function=fn, clause=clause, seconds=v.seconds)
    elif v.status == FAILED:
        rp = {'input': None, 'observed': 'no small digit string shows it'}
        for txt in ['0', '7', '12', '007'] + ['9' * k for k in range(3, 40)] + ['1' + '0' * k for k in range(3, 40)]:
            r = replay_decode(dname, txt, int(txt))
            if r['fires']:
                rp = r
                break
        rep.failed(f'C04.int.{dname}', 'pysym', v.detail, function=fn, clause=clause, replay=rp)
    else:
        rep.undecided(f'C04.int.{dname}', 'pysym', v.detail, function=fn)


# ------------------------------------------------------------------ bounded stand-in
def bounded(rep, tier):
    from mindsdb_sql import parse_sql
    from mindsdb_sql.parser.ast import Constant, Select, Identifier
    n = 0
    fails = {}
    chars = ["'", '"', '\\', '`', 'a', ' ', '.', '@', 'é', '\n']
    maxlen = 3 if tier == 'quick' else 5
    for dname in lrtab.DIALECTS:
        for k in range(0, maxlen + 1):
            for tup in itertools.product(chars, repeat=k):
                v = ''.join(tup)
                n += 1
                r = replay_encode(dname, lambda x: Constant(x), v, 'const')
                if r['fires']:
                    reg = 'backslash' if '\\' in v else ('squote' if "'" in v else ('dquote' if '"' in v else 'plain'))
                    fails.setdefault(f'C04.bounded.{dname}.Constant.{reg}', (repr(v), r['observed']))
        # floats (outside every engine): grid of magnitudes
        for e in range(-7, 18):
            for m in (1.0, 1.5, 123.456):
                x = m * (10.0 ** e)
                n += 1
                try:
                    text = Select(targets=[Constant(x)]).to_string()
                    q = parse_sql(text, dialect=dname)
                    got = getattr(q.targets[0], 'value', None)
                    ok = isinstance(got, float) and got == x or (isinstance(got, int) and got == x)
                    obs = f'`{text}` parses to {q.targets[0]!r}'
                except Exception as ex_:
                    ok, obs = False, f'{type(ex_).__name__}'
                if not ok:
                    fails.setdefault(f'C04.bounded.{dname}.float.{"exponent" if "e" in repr(x) else "decimal"}', (repr(x), obs))
        for v in (0, 7, -5, 10 ** 30, True, False, None):
            n += 1
    # identifiers in every grammatical position: one sentence per production with each plain name written as a quoted name; wherever the
    # parser stores the name in an Identifier, the parts must be the denoted names (no delimiter left in them)
    from vlib import corpus
    from mindsdb_sql.parser.ast.base import ASTNode

    def idents(node, seen):
        if id(node) in seen:
            return
        seen.add(id(node))
        if isinstance(node, Identifier):
            yield node
        if isinstance(node, ASTNode):
            for v_ in vars(node).values():
                yield from idents(v_, seen)
        elif isinstance(node, (list, tuple)):
            for v_ in node:
                yield from idents(v_, seen)
        elif isinstance(node, dict):
            for v_ in node.values():
                yield from idents(v_, seen)
    for dname in lrtab.DIALECTS:
        d = lrtab.load(dname)
        for num, sql in corpus.production_sentences(dname):
            toks = sql.split()
            if 'abc' not in toks:
                continue
            sql2 = ' '.join('`A b`' if t == 'abc' else t for t in toks)
            n += 1
            try:
                tree = parse_sql(sql2, dialect=dname)
            except Exception:
                continue
            for idn in idents(tree, set()):
                bad = [p_ for p_ in idn.parts if isinstance(p_, str) and '`' in p_]
                if bad:
                    pr = d.prods[num]
                    fails.setdefault(f'C04.bounded.{dname}.ident-position.{pr.name}', (sql2, f'an Identifier of the tree has the part {bad[0]!r}: the delimiters were not removed (production {pr.name}: {" ".join(pr.prod)})'))
            # a quoted name that contains a dot is ONE name: written back-quoted or double-quoted, alone or as the second part of a path
            for form in ('`A.b`', '"A.b"', 'abc.`A.b`', 'abc."A.b"'):
                sql3 = ' '.join(form if t == 'abc' else t for t in toks)
                n += 1
                try:
                    tree = parse_sql(sql3, dialect=dname)
                except Exception:
                    continue
                for idn in idents(tree, set()):
                    if any(isinstance(p_, str) and p_ in ('A', 'b', '`A', 'b`', '"A', 'b"') for p_ in idn.parts):
                        pr = d.prods[num]
                        fails.setdefault(f'C04.bounded.{dname}.ident-dot.{pr.name}', (sql3, f'an Identifier of the tree has the parts {idn.parts!r}: the quoted name A.b was split at its dot (production {pr.name}: {" ".join(pr.prod)})'))
    # names the grammar actions treat specially (string constants they compare a lower()/upper()-cased name with, e.g. 'last'): as the last part of a
    # qualified name they are ordinary column names - the identifier path keeps all its parts and their case, exactly as it does for any other name
    import ast as _ast
    magic = set()
    for dname in lrtab.DIALECTS:
        d = lrtab.load(dname)
        try:
            tree_ = _ast.parse(open(sys.modules[d.Parser.__module__].__file__).read())
        except Exception:
            continue
        for cmp_ in _ast.walk(tree_):
            if not isinstance(cmp_, _ast.Compare):
                continue
            sides = [cmp_.left] + list(cmp_.comparators)
            if not any(isinstance(c_, _ast.Call) and isinstance(c_.func, _ast.Attribute) and c_.func.attr in ('lower', 'upper') for x_ in sides for c_ in _ast.walk(x_)):
                continue
            for x_ in sides:
                for c_ in _ast.walk(x_):
                    if isinstance(c_, _ast.Constant) and isinstance(c_.value, str) and c_.value.isidentifier() and 2 <= len(c_.value) <= 12:
                        magic.add(c_.value.lower())
    rep.census['magic_names'] = sorted(magic)
    for dname in lrtab.DIALECTS:
        d = lrtab.load(dname)
        for num, sql in corpus.production_sentences(dname):
            toks = sql.split()
            if 'abc' not in toks:
                continue

            def count_with(name):
                sqlq = ' '.join(f'xq.{name}' if t == 'abc' else t for t in toks)
                try:
                    tr = parse_sql(sqlq, dialect=dname)
                except Exception:
                    return None, sqlq
                return sum(1 for idn in idents(tr, set()) if list(idn.parts) == ['xq', name]), sqlq
            c0, _ = count_with('Zzq')
            if not c0:
                continue
            for w in sorted(magic):
                name = w.capitalize()
                n += 1
                c1, sqlq = count_with(name)
                if c1 is not None and c1 != c0:
                    pr = d.prods[num]
                    fails.setdefault(f'C04.bounded.{dname}.qualified-special-name.{w}.{pr.name}', (sqlq, f'{c0} identifier(s) xq.Zzq are kept for the same sentence with an ordinary name, but only {c1} xq.{name} (production {pr.name}: {" ".join(pr.prod)})'))
    rep.bounded_evals = n
    rep.bounded_rule = (f'one sentence per production with every plain name written as `A b`: no Identifier part of the tree keeps a back-quote; qualified names whose last part is a word the actions treat specially keep all parts like any other name; all strings of length <= {maxlen} over {chars} as Constant values printed and re-parsed in each dialect; floats m*10^e for e in -7..17; '
                        'failures grouped by dialect x region (same regions as the fst obligations)')
    for cid, (inp, obs) in sorted(fails.items()):
        rep.add_bounded(Bounded(cid, False, inp, obs, 'value read back unchanged', bound=f'len<={maxlen}'))


def id_closure(rep, dname):
    """an unquoted name is ONE token: the language of unquoted ID words is closed under appending any character that can occur in an unquoted name
    (w in L, c a name character => wc in L) - otherwise some name is cut into two tokens at a position where the pattern cannot go on (`col$1$x`)"""
    d = lrtab.load(dname)
    pat = None
    for name, value in d.Lexer._rules:
        if name == 'ID':
            pat = value if isinstance(value, str) else getattr(value, 'pattern', None)
    fn = f'{d.lexer_module}:{d.lexer_class_name}.ID'
    oid = f'C04.lex.id.closed.{dname}'
    clause = 'forall w in L(ID) without back-quotes, forall characters c occurring in such words: w c in L(ID)'
    if pat is None:
        rep.undecided(oid, 'fst', 'no ID rule', function=fn, clause=clause)
        return
    try:
        L = regex_dfa(pat, getattr(d.Lexer, 'reflags', 0), ALPHABET)
        bare = L.minus(codecs.containing(BT))
        chars = [c for c in ALPHABET if c != BT and not bare.intersect(codecs.containing(c)).is_empty()]
        bad = None
        for c in chars:
            ext = bare.concat(Dfa.literal(ALPHABET, c)).minus(bare)
            if not ext.is_empty():
                bad = (c, ext.witness())
                break
    except FstError as e:
        rep.undecided(oid, 'fst', str(e), function=fn, clause=clause)
        return
    if not chars:
        rep.undecided(oid, 'fst', 'the ID language has no unquoted word over the alphabet', function=fn, clause=clause)
    elif bad is None:
        rep.proved(oid, 'fst', f'closed under appending each of {"".join(chars)!r} (class representatives)', function=fn, clause=clause)
    else:
        c, w = bad
        w = ''.join(w) if not isinstance(w, str) else w
        toks = None
        try:
            toks = [(t.type, t.value) for t in d.Lexer().tokenize('select ' + w)]
        except Exception as e:
            toks = f'{type(e).__name__}: {e}'
        rep.failed(oid, 'fst', f'{w[:-1]!r} is a name, {c!r} is a name character, but {w!r} is not one ID token', function=fn, clause=clause,
                   replay={'input': 'select ' + w, 'dialect': dname, 'fires': not (isinstance(toks, list) and len(toks) == 2), 'observed': f'tokens {toks}', 'expected': 'SELECT + one ID token'})


def check(rep, tier):
    from vlib import statecensus
    statecensus.obligations(rep, 'C04', 'parser')
    rep.dropped = ('string functions extracted from the AST of the real lexer/parser/printer methods (assign chains, if X[0]==c chains, replace/strip/'
                   'concat); everything else in those methods is rejected, not skipped; token regexes read from the real lexer classes')
    rep.assume('minterm abstraction: the transducers only copy input characters or emit constants',
               'Python re picks some prefix in L(token) — obligations demand that exactly one prefix is in L, which is independent of backtracking order',
               'a string token is only matched by its own rule at a position starting with its delimiter (checked: no other rule can start with a quote)')
    rep.trust('fst back end (vlib/fst.py) validated against CPython on all strings <= 4 over 8 representatives per extracted function, every run',
              'denotation spec contracts/codecs.py (from the property statement)')
    pats = []
    for dname in lrtab.DIALECTS:
        for tok in ('QUOTE_STRING', 'DQUOTE_STRING', 'VARIABLE', 'SYSTEM_VARIABLE', 'ID', 'INTEGER', 'FLOAT'):
            _, _, pat = codecs.lexer_action(dname, tok)
            if pat:
                pats.append((pat, re.IGNORECASE))
    from mindsdb_sql.parser.ast.select import identifier as idmod
    pats.append((idmod.no_wrap_identifier_regex.pattern, 0))
    missing = codecs.minterm_check(pats, ["'", '"', '\\', '`', '@', "''", "\\'", '\\"'])
    if missing:
        rep.failed('C04.minterms', 'fst', f'characters without a representative of their class: {missing[:10]!r}', function='contracts/codecs.py:ALPHABET')
    else:
        rep.proved('C04.minterms', 'fst', f'{len(ALPHABET)} representatives cover every character class of {len(pats)} patterns over ASCII + sample Unicode',
                   function='contracts/codecs.py:ALPHABET', clause='every character has a representative with the same class signature')
    # only the string rule can start at a quote character
    for dname in lrtab.DIALECTS:
        d = lrtab.load(dname)
        offenders = []
        for name, value in d.Lexer._rules:
            pat = value if isinstance(value, str) else getattr(value, 'pattern', None)
            if pat is None or name in ('QUOTE_STRING', 'DQUOTE_STRING'):
                continue
            try:
                m = regex_dfa(re.sub(r'\\b', '', pat), re.IGNORECASE, ALPHABET)
            except FstError:
                continue
            for qd in (Q, DQ):
                if m.step(m.start, qd) is not None:
                    offenders.append((name, qd))
        if offenders:
            rep.failed(f'C04.lex.quote-start.{dname}', 'fst', f'rules that can start with a quote: {offenders}', function=f'{d.lexer_module}:{d.lexer_class_name}')
        else:
            rep.proved(f'C04.lex.quote-start.{dname}', 'fst', 'no other token rule can match at a quote character', function=f'{d.lexer_module}:{d.lexer_class_name}',
                       clause='forall rules r != string rules: no word of L(r) starts with a quote')
        id_closure(rep, dname)
        decode_strings(rep, dname)
        encode_constant(rep, dname)
        variables(rep, dname)
        identifiers(rep, dname)
        integers(rep, dname)
    bounded(rep, tier)
    from vlib import preproc
    preproc.obligation(rep, 'C04', tier, dialects=('mindsdb', 'mysql', 'sqlite'), lead_semicolons=True)      # the token regexes see the statement text itself
    rep.notes.append('Literal/identifier codecs decided for all strings per region; see known findings for the failing regions.')
