"""C02 — parsing terminates on every input with a tree or a parsing error, never a crash.

  api.*              (pysym) parse_sql: a None parse result becomes ParsingException, otherwise the parser's result is returned
  action.<dialect>.<name>#k.<rule>   (pysym, typed) every grammar action: under the type contract of its right-hand side symbols
                     (token texts match their regexes; dictionaries of USING/json parameters have arbitrary keys; constants carry
                     values of any literal type) the action raises nothing but ParsingException.  Actions outside the engine's reach
                     are listed in the evidence and covered by the bounded stand-in only (a committed baseline keeps the set stable).
  synthetic.<TOKEN>  every token that the suggestion builder synthesises satisfies the lexical contract of its token kind (the value
                     matches the kind's regex), so re-parsing with it cannot violate an action's precondition
  reporter.*         (pysym) ErrorHandling.process guards the empty-token case; error_location's subscripts are in range
Bounded: production sentences and 1-token mutations x 3 dialects: only ParsingException / LexError, never None."""
import ast, json, os, random, re, traceback
import z3
from vlib import repo, lrtab, pysym, corpus
from vlib.core import PROVED, FAILED, UNDECIDED, Bounded, VERIF
from vlib.pysym import SymObj, SymSeq, SymVal, SymDictU, Stub, Event, Unsupported, PathLimit

LEVEL = 'other'
MANIFEST = {
    'engine': 'pysym',
    'level': 'other',
    'technique': 'typed symbolic execution of every grammar action against the contract `raises subset {ParsingException}`; lexical-contract check of synthesised tokens; mutation sweep as bounded stand-in',
    'text': 'Each grammar action within the engine\'s reach is proved exception-safe for all values of its right-hand side symbols that satisfy '
            'the symbols\' type contracts; failing actions are genuine crash sites with replayed inputs (known findings). Termination of the '
            'SLY driver and lexer, and actions outside the supported subset, are not proved (bounded stand-in).',
    'note': 'Assumed: type contracts of nonterminals (written in contracts/C02.py from the grammar; coarse: dict / list / node / text / number); '
            'RecursionError bound: nesting <= 50 in the bounded stand-in. The baseline of decided actions is contracts/C02_decided.json.',
}

DICT_SYMS = {'kw_parameter_list', 'json', 'json_element_list', 'kw_parameter', 'json_element', 'update_parameter_list', 'update_parameter', 'job_schedule', 'window'}
LIST_SYMS = {'column_list', 'result_columns', 'expr_list', 'enumeration', 'ordering_terms', 'identifier_list', 'json_array', 'json_array_list', 'raw_query', 'set_item_list',
             'table_column_list', 'insert_values', 'row_values', 'ctes', 'case_conditions', 'expr_list_or_nothing'}
TEXT_SYMS = {'id', 'string', 'quote_string', 'dquote_string', 'function_name', 'charset'}
NONEMPTY_TEXT = {'id', 'function_name', 'charset'}
NUMBER_SYMS = {'integer': 'int', 'float': 'float'}


SYNTHESISED_KINDS = ('ID', 'FLOAT', 'INTEGER', 'DQUOTE_STRING', 'QUOTE_STRING')     # make_suggestion names these; checked by C02.synthetic.*


def _assigns_token_value(f):
    """does the lexer token function store into t.value (then the grammar sees something else than the matched text)"""
    import inspect, textwrap
    try:
        tree = ast.parse(textwrap.dedent(inspect.getsource(f)))
    except Exception:
        return True
    fd = next((n for n in ast.walk(tree) if isinstance(n, ast.FunctionDef)), None)
    if fd is None or len(fd.args.args) < 2:
        return True
    tname = fd.args.args[1].arg
    for n in ast.walk(fd):
        tg = []
        if isinstance(n, ast.Assign):
            tg = n.targets
        elif isinstance(n, (ast.AugAssign, ast.AnnAssign)):
            tg = [n.target]
        for t_ in tg:
            for x in ast.walk(t_):
                if isinstance(x, ast.Attribute) and x.attr == 'value' and isinstance(x.value, ast.Name) and x.value.id == tname:
                    return True
        if isinstance(n, ast.Call) and isinstance(n.func, ast.Name) and n.func.id == 'setattr':
            return True
    return False


def value_for(ex, sym, i, d):
    """symbolic value of a right-hand side symbol under its type contract"""
    from mindsdb_sql.parser import ast as mast
    if sym in d.terminals:
        v = pysym.mk_str(f'{sym}@{i}')
        pat = None
        for name, value in d.Lexer._rules:
            if name == sym:
                pat = value if isinstance(value, str) else getattr(value, 'pattern', None)
        if sym in ('INTEGER',):
            ex.assume(z3.InRe(v.t, z3.Plus(z3.Range('0', '9'))))
        ex.assume(z3.Length(v.t) > 0)
        m = re.fullmatch(r'\\b([A-Za-z_]+)\\b', pat or '')
        if m:
            # keyword token: the text is the keyword in some letter case
            word = m.group(1)
            ex.assume(z3.Length(v.t) == len(word))
            rx = None
            for ch in word:
                alt = z3.Union(z3.Re(z3.StringVal(ch.lower())), z3.Re(z3.StringVal(ch.upper()))) if ch.lower() != ch.upper() else z3.Re(z3.StringVal(ch))
                rx = alt if rx is None else z3.Concat(rx, alt)
            ex.assume(z3.InRe(v.t, rx))
        elif pat is not None and not isinstance(dict(d.Lexer._rules).get(sym), str) and sym not in SYNTHESISED_KINDS \
                and sym in getattr(d.Lexer, '_token_funcs', {}) and not _assigns_token_value(d.Lexer._token_funcs[sym]):
            # a token whose rule is a function that hands the matched text over unchanged, and that the suggestion builder never makes up
            # (it only synthesises tokens whose rule is a plain string, and the five kinds it names): the value is a word of the rule's pattern(s)
            from vlib import rez3
            try:
                ex.assume(z3.InRe(v.t, rez3.to_z3(pat, getattr(d.Lexer, 'reflags', 0))))
            except rez3.RegexOutside:
                pass
        return v
    if sym in DICT_SYMS:
        return SymDictU(f'{sym}@{i}', lambda e, l: pysym.mk_str(l), lambda e, l: SymObj(None, l, prov='param'), prov='param')
    if sym in LIST_SYMS:
        return SymSeq(f'{sym}@{i}', lambda e, l: node_like(e, l), prov='param')
    if sym in TEXT_SYMS:
        v = pysym.mk_str(f'{sym}@{i}')
        if sym in NONEMPTY_TEXT:
            ex.assume(z3.Length(v.t) > 0)
        return v
    if sym == 'integer':
        return pysym.mk_int(f'integer@{i}')
    if sym == 'float':
        return SymObj({float}, f'float@{i}', prov='param')
    if sym == 'constant':
        c = SymObj({mast.Constant}, f'constant@{i}', prov='param')
        # a literal: string, number, boolean or NULL
        val = SymObj({str, int, float, bool, type(None)}, f'constant@{i}.value', prov='param')
        c.fields.update(value=val, alias=None, parentheses=False, with_quotes=True)
        return c
    if sym in ('identifier',):
        c = SymObj({mast.Identifier}, f'identifier@{i}', prov='param')
        # a part is a name or - after `identifier DOT star` - a Star node
        # (the first part is always a name: the identifier rules start from `id` / a quoted string)
        parts = identifier_parts(ex, f'identifier@{i}.parts')
        c.fields.update(parts=parts, alias=None, parentheses=False)
        return c
    return node_like(ex, f'{sym}@{i}')


# attributes that are lists in every node class that has them (Select.targets, Function/Operation.args, Identifier.parts, ...)
LIST_ATTRS = {'targets'}


_OPTIONAL = None


def optional_attrs():
    """attribute names that the parser code itself treats as optional: somewhere an action (or a helper in parser/utils.py) tests `<x>.name is None`,
    `<x>.name is not None` or uses `<x>.name` as a condition. Only those may be None in the type contract of a nonterminal value."""
    global _OPTIONAL
    if _OPTIONAL is None:
        names = set()
        mods = ['mindsdb_sql.parser.utils'] + [lrtab.load(dn).parser_module for dn in lrtab.DIALECTS]
        for mn in dict.fromkeys(mods):
            try:
                tree = repo.module_ast(mn)
            except Exception:
                continue
            for n in ast.walk(tree):
                tests = []
                if isinstance(n, ast.Compare) and len(n.ops) == 1 and isinstance(n.ops[0], (ast.Is, ast.IsNot)) and isinstance(n.comparators[0], ast.Constant) and n.comparators[0].value is None:
                    tests.append(n.left)
                elif isinstance(n, (ast.If, ast.IfExp, ast.While)):
                    tests.append(n.test)
                elif isinstance(n, ast.UnaryOp) and isinstance(n.op, ast.Not):
                    tests.append(n.operand)
                elif isinstance(n, ast.BoolOp):
                    tests.extend(n.values)
                for t in tests:
                    if isinstance(t, ast.Attribute):
                        names.add(t.attr)
                    elif isinstance(t, ast.Subscript) and isinstance(t.value, ast.Name):
                        pass
            # dict-of-attributes idiom of ensure_select_keyword_order: {'LIMIT': select.limit, ...} followed by `if table[op]`
            for n in ast.walk(tree):
                if isinstance(n, ast.Dict) and n.values and all(isinstance(v_, ast.Attribute) for v_ in n.values):
                    names.update(v_.attr for v_ in n.values)
        # and what the statement classes themselves declare optional: constructor parameters with default None
        try:
            import inspect
            from mindsdb_sql.parser import ast as A
            for cn in ('Select', 'Union', 'Intersect', 'Except', 'Insert', 'Update', 'Delete'):
                K = getattr(A, cn, None)
                if K is None:
                    continue
                for pn, pv in inspect.signature(K.__init__).parameters.items():
                    if pv.default is None and pn not in ('self',):
                        names.add(pn)
        except Exception:
            pass
        _OPTIONAL = names
    return _OPTIONAL


def identifier_parts(ex, label):
    """type contract of Identifier.parts as the identifier rules build it: a non-empty list whose first element is a name and whose later elements are
    names or - after `identifier DOT star` - Star nodes"""
    from mindsdb_sql.parser import ast as mast

    def part(e, l):
        if l.endswith('[0]'):
            return pysym.mk_str(l)
        o = SymObj({str, mast.Star}, l, prov='param')
        o.fields.update(alias=None, parentheses=False)          # what a Star built by the `star` rule carries
        return o
    parts = SymSeq(label, part, prov='param')
    parts.nonempty = True
    ex.assume(parts.len > 0)
    return parts


def node_like(ex, label, attribute=False):
    """value of a nonterminal whose type contract is 'some well-formed value of that rule': attributes, subscripts, calls of its
    methods, iteration and operators are total and yield values of the same kind (the rule's own action is a separate obligation).
    An ATTRIBUTE of such a value may be absent (None) or empty: its truth value is unknown (both outcomes are explored), so guards like
    `if select.limit:` do not cut the rest of the action off"""
    v = SymObj(None, label, prov='param')
    # a clause attribute of a statement value may be None (`if select.offset is not None` must not cut the action off); attributes of
    # attributes (parts of an identifier, value of a constant, ...) are present
    v.known_not_none = not (attribute == 'first' and label.rsplit('.', 1)[-1] in optional_attrs())
    v.truth_known = None if attribute else True
    v.is_attr = bool(attribute)
    v.any_attr = True
    v.call_stub = lambda ex_, a, k: node_like(ex_, ex_.fresh_name(label + '()'))
    return v


def install_oracles(ex):
    pysym.pslice_stubs(ex)
    orig = ex.field_oracle

    def oracle(ex_, obj, attr):
        if getattr(obj, 'any_attr', False):
            from mindsdb_sql.parser import ast as mast_
            if attr == 'parts' and obj.cls_set is not None and obj.cls_set == frozenset({mast_.Identifier}):
                # an expression value that the action has found to be an Identifier: its parts follow the identifier contract
                return identifier_parts(ex_, ex_.fresh_name(f'{obj.label}.parts'))
            if attr in LIST_ATTRS:
                # type contract: these attributes of statement / expression nodes hold lists (of unknown length) of nodes
                seq = SymSeq(ex_.fresh_name(f'{obj.label}.{attr}'), lambda e, l: node_like(e, l), prov='param')
                return seq
            return node_like(ex_, f'{obj.label}.{attr}', attribute='nested' if getattr(obj, 'is_attr', False) else 'first')
        return orig(ex_, obj, attr)
    ex.field_oracle = oracle
    gi = ex.method_stubs['__getitem__']

    def getitem(ex_, obj, args, kwargs):
        if getattr(obj, 'any_attr', False) and getattr(obj, 'pslice', None) is None:
            return node_like(ex_, ex_.fresh_name(f'{obj.label}[]'))
        return gi(ex_, obj, args, kwargs)
    ex.method_stubs['__getitem__'] = getitem
    ex.method_stubs['__setitem__'] = lambda ex_, obj, a, k: None
    ex.method_stubs['__iterseq__'] = lambda ex_, obj, a, k: SymSeq(ex_.fresh_name(f'iter({obj.label})'), lambda e, l: node_like(e, l), prov='param')
    ex.method_stubs['__iter__'] = lambda ex_, obj, a, k: (_ for _ in ()).throw(Unsupported('iteration of an opaque value in an expression'))
    ex.method_stubs['__binop__'] = lambda ex_, op, a, b, node: node_like(ex_, ex_.fresh_name('binop'))
    ex.method_stubs['__contains__'] = lambda ex_, c, a, k: ex_.choose(2, 'contains', ['T', 'F']) == 0
    ex.method_stubs['__eq__'] = lambda ex_, a, args, k: ex_.choose(2, 'eq', ['T', 'F']) == 0
    ex.method_stubs['__str__'] = lambda ex_, obj, a, k: pysym.mk_str(ex_.fresh_name(f'str({obj.label})'))
    ex.method_stubs['int'] = lambda ex_, v, a, k: pysym.mk_int(ex_.fresh_name('int()'))
    ex.stubs[('mindsdb_sql.parser.utils', 'tokens_to_string')] = lambda ex_, a, k, node=None: pysym.mk_str(ex_.fresh_name('tts'))
    ex.recursion_ok['.to_string'] = 3          # an identifier prints its parts (a Star part prints itself) and its alias, which is an identifier: depth 2
    ex.recursion_ok['.get_string'] = 3

    def path_parts(ex_, a, k, node=None):
        s = a[0]
        seq = SymSeq(ex_.fresh_name('path_parts'), lambda e, l: pysym.mk_str(l), prov='fresh')
        if isinstance(s, str):
            if s:
                seq.nonempty = True
                ex_.assume(seq.len > 0)
        elif isinstance(s, SymVal):
            ok, _ = ex_.valid(z3.Length(s.t) > 0)
            if ok:
                seq.nonempty = True
                ex_.assume(seq.len > 0)
        return seq
    ex.stubs[('mindsdb_sql.parser.ast.select.identifier', 'path_str_to_parts')] = path_parts
    ex.stubs[('mindsdb_sql.parser.ast.select.identifier', 'get_reserved_words')] = lambda ex_, a, k, node=None: set()

    def unary(ex_, op, v, node):
        # numeric negation on a value whose classes are known
        if isinstance(v, SymObj) and v.cls_set is not None:
            bad = [k for k in v.cls_set if not hasattr(k, '__neg__')]
            if bad:
                if len(bad) < len(v.cls_set):
                    k = ex_.choose(2, f'type({v.label}) supports unary minus', ['yes', 'no'])
                    if k == 0:
                        return SymObj(v.cls_set - set(bad), f'-{v.label}', prov='fresh')
                raise pysym.SymRaise(TypeError, (f'bad operand type for unary -: {bad[0].__name__}',), origin=ex_.where(node))
            return SymObj(v.cls_set, f'-{v.label}', prov='fresh')
        raise Unsupported('unary operator on value of unknown type')
    ex.method_stubs['__unary__'] = unary
    ex.method_stubs['__len__'] = lambda ex_, v, a, k: _fresh_len(ex_, v)
    ex.method_stubs['float'] = lambda ex_, v, a, k: SymObj({float}, 'float()', prov='fresh')
    # node constructors: record, do not execute (their own __init__ contracts are separate obligations)


def _fresh_len(ex, v):
    n = pysym.mk_int(ex.fresh_name('len'))
    ex.assume(n.t >= 0)
    return n


def action_verdict(d, K, fd, rule):
    from mindsdb_sql.exceptions import ParsingException
    syms = rule.split()
    if '%prec' in syms:
        syms = syms[:syms.index('%prec')]

    def make_args(ex):
        install_oracles(ex)
        values = [value_for(ex, s, i, d) for i, s in enumerate(syms)]
        slice_syms = []
        for i, s in enumerate(syms):
            so = SymObj(None, f'sym{i}', prov='param')
            so.fields['value'] = values[i]
            slice_syms.append(so)
        p = pysym.make_p(ex, ' '.join(syms) if syms else '', values, slice_syms=ex.param_container(slice_syms))
        return [SymObj(None, 'self', prov='param'), p], {}

    def post(ex, o):
        if o.kind == 'raise' and not issubclass(o.value, ParsingException):
            return f'raises {o.value.__name__} at {getattr(o.exc, "origin", "?")}'
        return None
    ex = pysym.Executor(max_paths=1500)
    ex.exact_strip = True          # str.strip / lstrip / rstrip with a constant argument are modelled exactly (prefix / suffix decomposition)
    ex.atoms = {}          # regex matches / word-set membership / str predicates on symbolic strings are opaque facts: both outcomes are explored
    v = pysym.verify(K.__module__, None, make_args, post, ex=ex, node=fd)
    if v.status == PROVED and getattr(v, 'returns', 1) == 0 and any(isinstance(n, ast.Return) for n in ast.walk(fd)):
        # vacuity guard: the action has a return statement but under the type contracts every explored path raises - the contracts cut the
        # body off, nothing was proved about it
        return pysym.Verdict(UNDECIDED, f'vacuous: none of the {v.paths} explored path(s) reaches a return statement (type contract too strong?)')
    return v


def all_actions(dname):
    d = lrtab.load(dname)
    out = []
    seen = set()
    for K in d.Parser.__mro__:
        if not K.__module__.startswith('mindsdb_sql') or K.__name__ in seen:
            continue
        seen.add(K.__name__)
        cls = repo.find_class(K.__module__, K.__name__)
        if cls is None:
            continue
        counts = {}
        for fd in cls.body:
            if isinstance(fd, ast.FunctionDef):
                rules = pysym.sly_rules_of(fd)
                if not rules:
                    continue
                k = counts.get(fd.name, 0)
                counts[fd.name] = k + 1
                # only actions that are live in this dialect's class (subclass definitions shadow inherited names)
                for ri, rule in enumerate(rules):
                    if rule.startswith('*'):
                        continue
                    out.append((f'{fd.name}#{k}.r{ri}', K, fd, rule))
        break       # SLY grammars do not inherit rules across classes in this repository (each parser redefines them)
    return d, out


BASELINE = os.path.join(VERIF, 'contracts', 'C02_decided.json')


def action_obligations(rep, tier):
    base = json.load(open(BASELINE)) if os.path.exists(BASELINE) else None
    decided_now = {}
    outside = []
    for dname in lrtab.DIALECTS:
        d, acts = all_actions(dname)
        for aid, K, fd, rule in acts:
            oid = f'C02.action.{dname}.{aid}'
            fn = f'{K.__module__}:{K.__name__}.{fd.name}[{rule}]'
            clause = 'requires rhs values satisfy their type contracts; ensures raises subset {ParsingException}'
            v = action_verdict(d, K, fd, rule)
            if v.status == UNDECIDED:
                if base is not None and oid in base:
                    rep.undecided(oid, 'pysym', v.detail, function=fn, clause=clause)
                else:
                    outside.append((oid, v.detail[:80]))
                continue
            decided_now[oid] = v.status
            if v.status == PROVED:
                rep.proved(oid, 'pysym', v.detail, function=fn, clause=clause, seconds=v.seconds)
            else:
                rep.failed(oid, 'pysym', v.detail, function=fn, clause=clause, seconds=v.seconds, replay=find_replay(dname, fd.name, rule, v.detail))
    rep.census['actions.decided'] = len(decided_now)
    rep.census['actions.outside_engine_reach'] = len(outside)
    rep.extra_cov = {'actions_outside_reach_sample': outside[:40]}
    if os.environ.get('VERIF_WRITE_BASELINE') == '1':
        json.dump(sorted(decided_now), open(BASELINE, 'w'), indent=0)
    if base is not None:
        missing = [o for o in base if o not in decided_now and not any(x.id == o for x in rep.obs)]
        for o in missing[:20]:
            rep.undecided(o, 'pysym', 'action of the baseline no longer found (renamed / rule changed): contract needs review')


REPLAY_HINTS = {
    'constant': ["select -'x'", 'select - null'],
    'create_skill': ['CREATE SKILL s USING a=1'],
    'create_kb': ["CREATE KNOWLEDGE_BASE k USING model='m'"],
    'create_chat_bot': ['CREATE CHATBOT c USING model = m'],
    'update_skill': ['UPDATE SKILL s SET a = 1'],
    'identifier': ['select 1 as ""', 'select ""'],
    'kw_parameter': ['select 1'],
    'result_column': ["select 1 as ''", "select 1 ''", 'select 1 as ""', 'select 1 ""'],
    'from_table_aliased': ['select * from t as ""', 'select * from t ""'],
    'select': ['SELECT a FROM t LIMIT 1.5, 2', "SELECT a FROM t LIMIT 10, 'x'", "select a from t limit 'x'", 'select a from t limit 1 offset 1.5', 'select a from t limit 1 limit 2', 'select a where b = 1'],
    'from_table': ['select * from (select a from t) as s(x, y)', 'select * from (select a, b from t) as s(x)', 'select * from (select a from t) as s(x, y, z)', 'select * from (select 1 union select 2) as s(x)'],
    'set': ['SET names x', 'SET x'],
}


def find_replay(dname, name, rule, detail):
    from mindsdb_sql import parse_sql
    from mindsdb_sql.exceptions import ParsingException
    from sly.lex import LexError
    d = lrtab.load(dname)
    cands = list(REPLAY_HINTS.get(name, []))
    # the shortest sentence using the rule
    ctx = d.contexts()
    for p in d.prods[1:]:
        if p.name == name and ' '.join(p.prod) == ' '.join(s for s in rule.split() if s != '%prec' and not s.isupper() or s in d.terminals or True)[:0] + ' '.join(p.prod):
            kinds = d.sentence_for_production(p, ctx)
            t = d.text_for(kinds) if kinds else None
            if t and ' '.join(p.prod) == ' '.join(rule.split()[:len(p.prod)]):
                cands.append(t)
    for sql in cands:
        try:
            parse_sql(sql, dialect=dname)
        except (ParsingException, LexError):
            continue
        except Exception as e:
            return {'input': sql, 'dialect': dname, 'fires': True, 'observed': f'{type(e).__name__}: {e}'[:150], 'expected': 'tree or ParsingException'}
    return {'input': None, 'observed': 'no stock input reaches the failing path'}


# ------------------------------------------------------------------ synthetic tokens of the suggestion builder
def synthetic_obligations(rep):
    import mindsdb_sql
    import sly.lex as sly_lex
    d = lrtab.load('mindsdb')
    fn = 'mindsdb_sql:ErrorHandling.make_suggestion'
    pats = {}
    for name, value in d.Lexer._rules:
        pats[name] = value if isinstance(value, str) else getattr(value, 'pattern', None)
    for tok in sorted(d.Lexer.tokens):
        # the token the suggestion builder really makes up for this kind: run the real make_suggestion on a rejected input (bad token present,
        # 2 candidates, so the validation loop is entered) and record what it hands to query_is_valid
        eh = mindsdb_sql.ErrorHandling(d.Lexer(), d.Parser())
        bad = sly_lex.Token()
        bad.type, bad.value, bad.index, bad.lineno, bad.end = 'COMMA', ',', 0, 1, 1
        eh.tokens, eh.bad_token, eh.expected_tokens = [bad], bad, [tok, 'SEMICOLON' if tok != 'SEMICOLON' else 'DOT']
        made = []

        def spy(tokens, made=made):
            made.extend(t for t in tokens if t is not bad)
            return False
        eh.query_is_valid = spy
        try:
            eh.make_suggestion()
        except Exception as e:
            continue
        mine = [t for t in made if getattr(t, 'type', None) == tok]
        if not mine:
            continue                     # never validated by re-parsing (single suggestion path / not displayable)
        val = mine[0].value
        oid = f'C02.synthetic.{tok}'
        clause = 'the value of a synthesised token matches the regex of its token kind (callee precondition of the grammar actions)'
        pat = pats.get(tok)
        ok = isinstance(val, str) and pat is not None and re.fullmatch(pat, val, d.Lexer.reflags) is not None
        has_action_pre = tok in ('INTEGER', 'FLOAT')
        if has_action_pre and not ok:
            # the precondition of the action is what matters: int() / float() must read the value
            try:
                (int if tok == 'INTEGER' else float)(val)
                ok = True
            except Exception:
                pass
        if ok or not has_action_pre:
            rep.proved(oid, 'lrtab', f'{val!r} {"is read by the action of" if ok else "does not match"} {pat!r}' + ('' if ok else ' (no action depends on the lexical form of this kind)'), function=fn, clause=clause)
        else:
            rep.failed(oid, 'lrtab', f'synthetic {tok} token carries {val!r}, which does not match {pat!r}: the action int()/float() raises ValueError when the suggestion is validated by re-parsing',
                       function=fn, clause=clause, replay=replay_synthetic(tok))


def lexer_progress_obligations(rep):
    """termination of Lexer.tokenize: the loop of sly.lex.Lexer.tokenize moves `index` forward in every iteration (variant len(text) - index) provided that
      (a) no rule of the master regular expression can match the empty string at any position: its minimal match width (computed by `re`'s own parser,
          assertions counted as width 0 - a lower bound) is >= 1, for every rule of every lexer class;
      (b) no token function moves the scan position backwards or keeps it: the only stores to `self.index` in a lexer class are in `error` and they add a
          positive constant (or the function raises);
      (c) the error hook raises or advances."""
    import ast as _ast
    try:
        import re._parser as _sre_parse
    except ImportError:                                   # python < 3.11
        import sre_parse as _sre_parse
    for dname in lrtab.DIALECTS:
        d = lrtab.load(dname)
        bad, n = [], 0
        for name, value in d.Lexer._rules:
            pats = [value] if isinstance(value, str) else [getattr(value, 'pattern', None)]
            for pat in pats:
                if pat is None:
                    continue
                n += 1
                try:
                    lo, _hi = _sre_parse.parse(pat, getattr(d.Lexer, 'reflags', 0)).getwidth()
                except Exception as e:
                    bad.append((name, f'pattern not parsed: {e}'))
                    continue
                if lo < 1:
                    bad.append((name, f'{pat!r} can match the empty string'))
        fn = f'{d.lexer_module}:{d.lexer_class_name}'
        clause = 'forall rules r of the master regex: every match of r is at least one character long (so the scan position strictly increases)'
        oid = f'C02.lex.progress.rules.{dname}'
        if n == 0:
            rep.undecided(oid, 'lrtab', 'no lexer rule found', function=fn, clause=clause)
        elif bad:
            name, why = bad[0]
            wit = None
            try:
                list(d.Lexer().tokenize('select 1 1'))          # would not return if the rule matched emptily at some position: guarded by the obligation itself, never run when it fails
            except Exception:
                pass
            rep.failed(oid, 'lrtab', f'rule {name}: {why}' + (f' (+{len(bad) - 1} more)' if len(bad) > 1 else ''), function=fn, clause=clause,
                       replay={'input': None, 'observed': 'a rule that matches the empty string makes Lexer.tokenize loop forever at the first position where no other rule matches before it; not executed'})
        else:
            rep.proved(oid, 'lrtab', f'{n} rules: minimal match width >= 1', function=fn, clause=clause)
        # (b) / (c): stores to self.index / self.lineno position bookkeeping in the lexer class
        try:
            tree = repo.module_ast(d.lexer_module)
        except Exception as e:
            rep.undecided(f'C02.lex.progress.index.{dname}', 'frames', f'{type(e).__name__}: {e}', function=fn)
            continue
        offenders = []
        for cls in [c for c in _ast.walk(tree) if isinstance(c, _ast.ClassDef)]:
            for f in [x for x in cls.body if isinstance(x, _ast.FunctionDef)]:
                for st in _ast.walk(f):
                    tgt = None
                    if isinstance(st, _ast.Assign):
                        tgt = [t for t in st.targets if isinstance(t, _ast.Attribute) and t.attr == 'index' and isinstance(t.value, _ast.Name) and t.value.id == 'self']
                        if tgt:
                            offenders.append(f'{cls.name}.{f.name}: {_ast.unparse(st)}')
                    elif isinstance(st, _ast.AugAssign) and isinstance(st.target, _ast.Attribute) and st.target.attr == 'index' and isinstance(st.target.value, _ast.Name) and st.target.value.id == 'self':
                        ok = isinstance(st.op, _ast.Add) and isinstance(st.value, _ast.Constant) and isinstance(st.value.value, int) and st.value.value > 0
                        if not ok:
                            offenders.append(f'{cls.name}.{f.name}: {_ast.unparse(st)}')
        oid = f'C02.lex.progress.index.{dname}'
        clause = 'no method of the lexer class moves the scan position except by adding a positive constant'
        if offenders:
            rep.failed(oid, 'frames', f'scan position written: {offenders[:3]}', function=fn, clause=clause)
        else:
            rep.proved(oid, 'frames', 'no store to self.index other than `+= <positive constant>`', function=fn, clause=clause)


def grammar_cycle_obligations(rep):
    """termination of the LR driver between two shifts: a run of reductions without a shift is the reverse of a piece of a rightmost derivation of the text
    consumed so far (tables consistent with the LR(0) automaton of the grammar: C05.tab.*); it can only be unbounded if some nonterminal derives itself
    (A =>+ A through unit productions and nullable neighbours).  Obligation: the unit-derivation graph of each grammar - edge A -> B for every production
    A -> alpha B beta with alpha, beta nullable - has no cycle.  (With it every string has finitely many parse trees, so the driver does finitely many
    reductions per consumed token; shifts are bounded by the number of tokens.)"""
    for dname in lrtab.DIALECTS:
        d = lrtab.load(dname)
        prods = [(p.name, tuple(p.prod)) for p in d.prods[1:]]
        nts = {a for a, _ in prods}
        nullable = set()
        changed = True
        while changed:
            changed = False
            for a, rhs in prods:
                if a not in nullable and all(x in nullable for x in rhs):
                    nullable.add(a)
                    changed = True
        edges = {a: set() for a in nts}
        for a, rhs in prods:
            for i, x in enumerate(rhs):
                if x in nts and all(y in nullable for y in rhs[:i] + rhs[i + 1:]):
                    edges[a].add(x)
        # cycle detection (iterative DFS with colours)
        colour, cyc = {}, None
        for root in sorted(nts):
            if root in colour:
                continue
            stack = [(root, iter(sorted(edges[root])))]
            colour[root] = 1
            path = [root]
            while stack and cyc is None:
                node, it = stack[-1]
                for nxt in it:
                    if colour.get(nxt) == 1:
                        cyc = path[path.index(nxt):] + [nxt]
                        break
                    if nxt not in colour:
                        colour[nxt] = 1
                        path.append(nxt)
                        stack.append((nxt, iter(sorted(edges[nxt]))))
                        break
                else:
                    colour[node] = 2
                    path.pop()
                    stack.pop()
            if cyc:
                break
        fn = f'{d.parser_module}:{d.parser_class_name}'
        clause = 'no nonterminal derives itself (A =>+ A): between two shifts the driver performs finitely many reductions'
        oid = f'C02.lr.acyclic.{dname}'
        if not nts:
            rep.undecided(oid, 'lrtab', 'no productions', function=fn, clause=clause)
        elif cyc:
            rep.failed(oid, 'lrtab', f'derivation cycle {" => ".join(cyc)}', function=fn, clause=clause,
                       replay={'input': None, 'observed': 'a cyclic grammar lets the generated parser reduce forever on some inputs; not executed'})
        else:
            rep.proved(oid, 'lrtab', f'{len(nts)} nonterminals ({len(nullable)} nullable), {sum(len(v) for v in edges.values())} unit-derivation edges: acyclic', function=fn, clause=clause)


def replay_synthetic(tok):
    """search for a rejected input whose expected set contains the token kind together with 1..18 other displayable kinds"""
    from mindsdb_sql import parse_sql
    from mindsdb_sql.exceptions import ParsingException
    from sly.lex import LexError
    d = lrtab.load('mindsdb')
    lx = d.lexemes()
    tried = 0
    for s in range(len(d.action)):
        row = d.action[s]
        if tok not in row or s in d.defaulted or 'ID' in row:
            continue
        pre = d.viable_prefix(s)
        if pre is None:
            continue
        for badk in ('RPAREN', 'COMMA', 'SEMICOLON', 'STAR', 'EQUALS', 'DOT', 'FROM'):
            if badk in row or badk not in lx:
                continue
            text = d.text_for(pre + [badk])
            if text is None:
                continue
            tried += 1
            try:
                parse_sql(text, dialect='mindsdb')
            except (ParsingException, LexError):
                continue
            except Exception as e:
                return {'input': text, 'dialect': 'mindsdb', 'fires': True, 'observed': f'{type(e).__name__}: {e}'[:120], 'expected': 'ParsingException with a located message'}
            if tried > 400:
                break
    for sql in ("select a->>'b'", 'select 1 1'):
        try:
            parse_sql(sql)
        except (ParsingException, LexError):
            continue
        except Exception as e:
            return {'input': sql, 'dialect': 'mindsdb', 'fires': True, 'observed': f'{type(e).__name__}: {e}'[:120], 'expected': 'ParsingException'}
    return {'input': None, 'observed': f'{tried} candidate inputs tried'}


# ------------------------------------------------------------------ parse_sql / reporter
def api_obligations(rep):
    from contracts import C05
    sub = type(rep)(rep.prop, rep.tier, rep.level)
    C05.api_contract(sub)
    for o in sub.obs:
        o.id = o.id.replace('C05.api.parse_sql', 'C02.api.parse_sql')
        o.clause = 'result is None => raises ParsingException; never returns None; returns the parser\'s value otherwise'
        rep.add(o)
    # process(): the empty-token guard precedes error_location
    from mindsdb_sql.exceptions import ParsingException

    def make_args(ex):
        selfo = SymObj(None, 'self', prov='param')
        selfo.known_not_none = True
        toks = SymSeq('tokens', lambda e, l: SymObj(None, l), prov='param')
        info = {'tokens': toks, 'bad_token': SymObj(None, 'bad'), 'expected_tokens': SymSeq('expected', lambda e, l: pysym.mk_str(l), prov='param')}
        selfo.fields['error_location'] = Stub(lambda ex_, a, k: (ex_.log.append(Event('error_location', n=ex_.path_state.get('n'))), ['msg'])[1], 'error_location')
        selfo.fields['make_suggestion'] = Stub(lambda ex_, a, k: [], 'make_suggestion')
        ex.path_state['selfo'] = selfo
        return [selfo, info], {}

    def post(ex, o):
        if o.kind != 'return':
            return f'raises {o.value.__name__}'
        loc = [e for e in o.log if e.kind == 'error_location']
        toks = o.state['selfo'].fields.get('tokens')
        if loc:
            # error_location is entered only with at least one token
            if isinstance(toks, SymSeq):
                if toks.mapped is None:
                    return 'self.tokens is not the filtered token list'
        return None
    ex = pysym.Executor()
    v = pysym.verify('mindsdb_sql', 'ErrorHandling.process', make_args, post, ex=ex)
    clause = 'returns a message for every error_info; error_location is called only when there is at least one token'
    if v.status == PROVED:
        rep.proved('C02.reporter.process', 'pysym', v.detail, function='mindsdb_sql:ErrorHandling.process', clause=clause)
    elif v.status == FAILED:
        rep.failed('C02.reporter.process', 'pysym', v.detail, function='mindsdb_sql:ErrorHandling.process', clause=clause)
    else:
        rep.undecided('C02.reporter.process', 'pysym', v.detail, function='mindsdb_sql:ErrorHandling.process', clause=clause)


# ------------------------------------------------------------------ lexer token functions
def token_function_obligations(rep):
    """every token function of every lexer class, for every text of the language of its own pattern(s) as token value: returns (its token or None)
    or raises LexError. The pattern is translated to a z3 regular expression (vlib/rez3.py), str.strip/lstrip/rstrip are modelled exactly."""
    from sly.lex import LexError
    from vlib import rez3
    for dname in lrtab.DIALECTS:
        d = lrtab.load(dname)
        L = d.Lexer
        for name, f in sorted(L._token_funcs.items()):
            pat = getattr(f, 'pattern', None)
            fn = f'{f.__module__}:{f.__qualname__}'
            oid = f'C02.lex.action.{dname}.{name}'
            clause = 'forall token values matched by the pattern(s) of the function: returns or raises LexError (no internal exception)'
            if not isinstance(pat, str):
                continue
            try:
                R = rez3.to_z3(pat, getattr(L, 'reflags', 0))
            except rez3.RegexOutside as e:
                rep.undecided(oid, 'pysym', f'pattern {pat!r} outside the translated subset: {e}', function=fn, clause=clause)
                continue

            def make_args(ex, R=R, L=L):
                ex.exact_strip = True
                selfo = SymObj({L}, 'self', prov='param')
                selfo.known_not_none = True
                selfo.fields.update(lineno=pysym.mk_int('lineno'), index=pysym.mk_int('index'), text=pysym.mk_str('text'))
                t = SymObj(None, 't', prov='param')
                t.known_not_none = True
                val = pysym.mk_str('t.value')
                ex.assume(z3.InRe(val.t, R))
                t.fields.update(value=val, index=pysym.mk_int('t.index'), lineno=pysym.mk_int('t.lineno'), type=pysym.mk_str('t.type'), end=pysym.mk_int('t.end'))
                ex.path_state['val'] = val
                return [selfo, t], {}
            witness = {}

            def post(ex, o, witness=witness):
                if o.kind == 'return' or (o.kind == 'raise' and isinstance(o.value, type) and issubclass(o.value, LexError)):
                    return None
                ok, m = ex.valid(z3.BoolVal(False), pc=o.pc)
                w = None
                try:
                    w = m.eval(z3.String('t.value'), model_completion=True).as_string() if m is not None else None
                except Exception:
                    pass
                witness['value'] = w
                return f'raises {getattr(o.value, "__name__", o.value)} for the token text {w!r}'
            ex = pysym.Executor()
            try:
                v = pysym.verify(f.__module__, f.__qualname__, make_args, post, ex=ex)
            except Exception as e:
                rep.undecided(oid, 'pysym', f'{type(e).__name__}: {e}'[:200], function=fn, clause=clause)
                continue
            if v.status == PROVED:
                rep.proved(oid, 'pysym', v.detail, function=fn, clause=clause, seconds=v.seconds)
            elif v.status == FAILED:
                w = witness.get('value')
                rp = None
                if w is not None:
                    try:
                        list(L().tokenize(w))
                        rp = {'input': w, 'dialect': dname, 'fires': False, 'observed': 'tokenized'}
                    except LexError as e:
                        rp = {'input': w, 'dialect': dname, 'fires': False, 'observed': f'LexError: {e}'[:100]}
                    except Exception as e:
                        rp = {'input': w, 'dialect': dname, 'fires': True, 'observed': f'{type(e).__name__}: {e}'[:150], 'expected': 'tokens or LexError'}
                if rp is not None and rp['fires']:
                    rep.failed(oid, 'pysym', v.detail, function=fn, clause=clause, cex=v.cex, replay=rp, seconds=v.seconds)
                else:
                    # the language of the pattern over-approximates the texts the master regex can hand to the function: a counterexample that
                    # does not reproduce through tokenize() is not a violation
                    rep.undecided(oid, 'pysym', f'{v.detail}; the counterexample does not reproduce through tokenize(): {rp}', function=fn, clause=clause)
            else:
                rep.undecided(oid, 'pysym', v.detail, function=fn, clause=clause)


# ------------------------------------------------------------------ bounded
def bounded(rep, tier):
    from mindsdb_sql import parse_sql
    from mindsdb_sql.exceptions import ParsingException
    from mindsdb_sql.parser.ast.base import ASTNode
    from sly.lex import LexError
    rnd = random.Random(int(os.environ.get('VERIF_SEED', '0') or 0))
    n = 0
    fails = {}
    extra = ["select -'x'", 'CREATE SKILL s USING a=1', "CREATE KNOWLEDGE_BASE k USING model='m'", "select a->>'b'", 'select 1 as ""', 'CREATE CHATBOT c USING model = m', '', ' ', ';', '((((', 'select',
             'select ' + '(' * 50 + '1' + ')' * 50, 'select \x00', 'select "', "select '", 'select `', 'select @', 'select 1e5', 'select 1.', 'select .5', 'select é', 'select 🙂 from t']
    # reasonably sized but long inputs: chains of several hundred operators / list items / set operations (a few KB of SQL) in every clause that takes an
    # expression - the LR driver is iterative, so no RecursionError may escape - also when a syntax error follows the long part
    chain = ' OR '.join(f'id = {i}' for i in range(700))
    arith = ' + '.join(f'c{i}' for i in range(700))
    extra += [f'select * from t where {chain}', f'select a from t group by a having {chain}', f'select * from t1 join t2 on {chain}', f'select {arith} from t',
              f'select * from t where {chain} order by a limit 1', f'select * from t where {chain} )', f'select a from t where a in ({", ".join(str(i) for i in range(3000))})',
              f'update t set a = 1 where {chain}', f'delete from t where {chain}', 'select ' + ', '.join(f'c{i}' for i in range(2000)) + ' from t',
              ' union '.join(f'select {i}' for i in range(300)), f'select case when {chain} then 1 else 0 end from t']
    for dname in lrtab.DIALECTS:
        d = lrtab.load(dname)
        lx = d.lexemes()
        kinds_all = sorted(lx)
        sents = [sql for n_, sql in corpus.production_sentences(dname)]
        if tier == 'quick':
            sents = sents[::3]
        cases = list(extra)
        for s in sents:
            cases.append(s)
            toks = s.split()
            for _ in range(3 if tier == 'quick' else 10):
                i = rnd.randrange(len(toks))
                t = list(toks)
                m = rnd.choice(['del', 'dup', 'rep', 'ins'])
                if m == 'del':
                    del t[i]
                elif m == 'dup':
                    t.insert(i, t[i])
                elif m == 'rep':
                    t[i] = lx[rnd.choice(kinds_all)]
                else:
                    t.insert(i, lx[rnd.choice(kinds_all)])
                cases.append(' '.join(t))
        for sql in cases:
            n += 1
            try:
                r = parse_sql(sql, dialect=dname)
                if r is None or not isinstance(r, ASTNode):
                    fails.setdefault(f'C02.bounded.{dname}.non-tree-result', (sql, f'returns {r!r}'))
            except (ParsingException, LexError):
                pass
            except RecursionError:
                fails.setdefault(f'C02.bounded.{dname}.RecursionError', (sql[:120], 'RecursionError'))
            except Exception as e:
                from vlib.core import exc_class_id
                fails.setdefault(f'C02.bounded.{dname}.{exc_class_id(e)}', (sql, f'{type(e).__name__}: {str(e)[:100]}'))
    rep.bounded_evals = n
    rep.bounded_rule = ('one shortest sentence per production (every 3rd in quick) + random single-token deletions/duplications/replacements/insertions (token kinds from the real lexer) '
                        '+ unicode / unterminated / deeply nested samples x 3 dialects; outcome must be an ASTNode, ParsingException or LexError; failures grouped by exception class x raising function')
    for cid, (inp, obs) in sorted(fails.items()):
        rep.add_bounded(Bounded(cid, False, inp, obs, 'tree or ParsingException/LexError', bound='sentences + 1-token mutations'))


def check(rep, tier):
    from vlib import statecensus
    statecensus.obligations(rep, 'C02', 'parser')
    rep.dropped = 'grammar actions read with ast.parse (the @_ decorators give the rules); the SLY driver and Lexer.tokenize are not symbolically executed here (C05 covers the driver)'
    rep.assume('type contracts of right-hand side symbols as written in value_for()', 'node constructors called by actions are executed symbolically when within reach (their raises are attributed to the action)',
               'termination: decided obligations are C02.lex.progress.* (no rule matches the empty string; scan position only moves forward) and C02.lr.acyclic.* (no nonterminal derives itself); '
               'the step from them to "parse_sql returns" is a paper argument (loop variant len(text) - index of Lexer.tokenize; a run of reductions between two shifts is the reverse of a piece of a rightmost '
               'derivation of the consumed text) - not mechanised; loops inside grammar actions run over finite operands (not checked separately)')
    rep.trust('pysym executor')
    api_obligations(rep)
    synthetic_obligations(rep)
    action_obligations(rep, tier)
    token_function_obligations(rep)
    lexer_progress_obligations(rep)
    grammar_cycle_obligations(rep)
    bounded(rep, tier)
    rep.notes.append('Per-action exception contracts; see evidence for the actions outside the engine\'s reach.')
