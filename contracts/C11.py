"""C11 — a query on one SQL integration is pushed down whole and unchanged in meaning.

  shape.*   (pysym) check_single_integration: under the stated condition exactly one FetchDataframeStep(integration, the query itself)
            is added after the rewrite has been applied to (integration, query); otherwise nothing is added and None is returned;
            from_query returns the plan holding just that step
  edit.*    (pysym) the rewrite visitor's edit set: per visited Identifier only (a) drop a leading part equal (case-insensitively) to the
            integration when there is more than one part, (b) alias a bare select-list column with its own last part; no other node is touched
  cover     every identifier of the statement is shown to the visitor: C13 contract (inherited findings)
NOT decided deductively: that these edits preserve meaning when an alias or table name coincides with the integration name.
Bounded: original vs pushed-down text executed on sqlite3 (schema `int1` attached) over small tables, incl. shadowing shapes."""
import copy, itertools, sqlite3
from vlib import repo, pysym, plans
from vlib.core import PROVED, FAILED, UNDECIDED, Bounded
from vlib.pysym import SymObj, SymSeq, SymVal, Stub, Event, Unsupported, PathLimit

LEVEL = 'other'
MANIFEST = {
    'engine': 'pysym',
    'level': 'other',
    'technique': 'contracts on the push-down decision and on the rewrite visitor (edit-set frame) by symbolic execution; differential execution on sqlite3 as bounded stand-in for meaning preservation',
    'text': 'Plan shape and the exact edit set of the rewrite are proved for all queries; that the edits preserve meaning under alias shadowing is '
            'not decidable by contracts on this code (it depends on SQL name resolution in the target engine) and is only tested by executing '
            'original and rewritten text on sqlite3.',
    'note': 'Assumed: C13 (coverage of identifiers), C10.strip; sqlite3 3.40 as reference engine with the integration attached as a schema.',
}

QP = 'mindsdb_sql.planner.query_planner'


def _emit(rep, oid, v, fn, clause, replay=None):
    if v.status == PROVED:
        rep.proved(oid, 'pysym', v.detail, function=fn, seconds=v.seconds, clause=clause)
    elif v.status == FAILED:
        rep.failed(oid, 'pysym', v.detail, function=fn, seconds=v.seconds, clause=clause, cex=v.cex, replay=replay() if callable(replay) else replay)
    else:
        rep.undecided(oid, 'pysym', v.detail, function=fn, seconds=v.seconds, clause=clause)


def shape_obligations(rep):
    from mindsdb_sql.planner.steps import FetchDataframeStep
    fn = f'{QP}:QueryPlanner.check_single_integration'
    cases = {
        'one-sql-integration': dict(mdb=0, ints=['int1'], udf=0, api=False, push=True),
        'one-integration-unknown-class': dict(mdb=0, ints=['int9'], udf=0, api=False, push=True),
        'api-integration': dict(mdb=0, ints=['int1'], udf=0, api=True, push=False),
        'two-integrations': dict(mdb=0, ints=['int1', 'int2'], udf=0, api=False, push=False),
        'no-integration': dict(mdb=0, ints=[], udf=0, api=False, push=False),
        'mindsdb-entity': dict(mdb=1, ints=['int1'], udf=0, api=False, push=False),
        'user-function': dict(mdb=0, ints=['int1'], udf=1, api=False, push=False),
        'files': dict(mdb=0, ints=['files'], udf=0, api=False, push=False),
        'views': dict(mdb=0, ints=['views'], udf=0, api=False, push=False),
    }
    for name, c in cases.items():
        def make_args(ex, c=c):
            selfo = SymObj(None, 'self', prov='param')
            selfo.known_not_none = True
            q = SymObj(None, 'query', prov='param')
            q.known_not_none = True
            info = {'mdb_entities': [object()] * c['mdb'], 'integrations': set(c['ints']), 'predictors': [], 'user_functions': [object()] * c['udf']}
            selfo.fields['get_query_info'] = Stub(lambda ex_, a, k: info, 'get_query_info')
            selfo.fields['integrations'] = {'int1': {'name': 'int1', 'class_type': 'api'} if c['api'] else {'name': 'int1'}, 'int2': {'name': 'int2'}}
            selfo.fields['prepare_integration_select'] = Stub(lambda ex_, a, k: ex_.log.append(Event('rewrite', integration=a[0], query=a[1])), 'prepare_integration_select')
            plan = SymObj(None, 'plan', prov='param')
            plan.known_not_none = True
            plan.fields['add_step'] = Stub(lambda ex_, a, k: (ex_.log.append(Event('add_step', step=a[0])), a[0])[1], 'add_step')
            selfo.fields['plan'] = plan
            ex.path_state.update(q=q)
            return [selfo, q], {}

        def post(ex, o, c=c):
            if o.kind != 'return':
                return f'raises {o.value.__name__}'
            rw = [e for e in o.log if e.kind == 'rewrite']
            ad = [e for e in o.log if e.kind == 'add_step']
            if not c['push']:
                if o.value is not None or rw or ad:
                    return 'a query that does not qualify is pushed down / rewritten'
                return None
            if len(rw) != 1 or rw[0].integration != c['ints'][0] or rw[0].query is not o.state['q']:
                return 'the rewrite is not applied exactly once to (integration, query)'
            if len(ad) != 1 or o.value is not ad[0].step:
                return 'not exactly one step is added and returned'
            st = ad[0].step
            if not (isinstance(st, SymObj) and st.cls is FetchDataframeStep and st.fields.get('integration') == c['ints'][0] and st.fields.get('query') is o.state['q']):
                return f'the step is not FetchDataframeStep(integration, query): {st!r}'
            if o.log.index(rw[0]) > o.log.index(ad[0]):
                return 'the step is added before the rewrite'
            return None
        v = pysym.verify(QP, 'QueryPlanner.check_single_integration', make_args, post)
        _emit(rep, f'C11.shape.{name}', v, fn,
              'one SQL integration and no mindsdb entity / UDF / files / views / api  <=>  [rewrite(int, query); add FetchDataframeStep(int, query)]; else no effect and None',
              replay=lambda: replay_shape())

    # from_query returns the plan with just that step
    def make_args_fq(ex):
        from mindsdb_sql.parser.ast import Select
        selfo = SymObj(None, 'self', prov='param')
        selfo.known_not_none = True
        q = SymObj({Select}, 'query', prov='param')
        selfo.fields['query'] = q
        def _chk(ex_, a, k):
            ex_.log.append(Event('check', q=a[0]))
            st_ = SymObj(None, 'step', prov='fresh')
            st_.known_not_none = True
            st_.truth_known = True
            return st_
        selfo.fields['check_single_integration'] = Stub(_chk, 'check_single_integration')
        for nme in ('plan_select', 'plan_create_table', 'plan_insert', 'plan_update', 'plan_delete'):
            selfo.fields[nme] = Stub(lambda ex_, a, k, nme=nme: ex_.log.append(Event('other', name=nme)), nme)
        ex.path_state.update(selfo=selfo, q=q)
        return [selfo], {}

    def post_fq(ex, o):
        if o.kind != 'return':
            return f'raises {o.value.__name__}'
        if any(e.kind == 'other' for e in o.log):
            return 'the ordinary planner also runs after the push-down succeeded'
        ch = [e for e in o.log if e.kind == 'check']
        if len(ch) != 1 or ch[0].q is not o.state['q']:
            return 'check_single_integration is not asked about the query'
        if o.value is not o.state['selfo'].fields.get('plan'):
            return 'the plan is not returned'
        return None
    v = pysym.verify(QP, 'QueryPlanner.from_query', make_args_fq, post_fq)
    _emit(rep, 'C11.shape.from_query', v, f'{QP}:QueryPlanner.from_query', 'push-down succeeded => the plan is returned at once (exactly the one fetch step)')


def info_obligations(rep):
    """get_query_info: how table references are classified. A reference to a CTE of the query (whatever its alias or spelling) is not a mindsdb
    entity; a table qualified by an integration counts for that integration; anything else in the default project is a mindsdb entity."""
    from mindsdb_sql.parser.ast import Identifier, Select, CommonTableExpression
    from mindsdb_sql.planner.query_planner import QueryPlanner
    fn = f'{QP}:QueryPlanner.get_query_info'

    def ident(ex, name, parts, alias=None):
        t = SymObj({Identifier}, name, prov='param')
        t.known_not_none = True
        t.closed = True
        al = None
        if alias:
            al = SymObj({Identifier}, name + '.alias', prov='param')
            al.closed = True
            al.copyable = True
            al.fields.update(alias=None, parentheses=False, parts=ex.param_container([alias]))
        t.fields.update(alias=al, parentheses=False, parts=ex.param_container(list(parts)))
        return t

    def make_args(ex):
        planner = SymObj({QueryPlanner}, 'planner', prov='param')
        planner.known_not_none = True
        planner.fields.update(default_namespace='mindsdb', databases=['int1', 'int2', 'mindsdb'], projects=['mindsdb'], integrations={'int1': {}, 'int2': {}})
        planner.fields['is_predictor'] = Stub(lambda ex_, a, k: False, 'is_predictor')
        refs = dict(cte_plain=ident(ex, 'cte_plain', ['c']), cte_aliased=ident(ex, 'cte_aliased', ['c'], alias='x'), cte_quoted=ident(ex, 'cte_quoted', ['my c']),
                    cte_quoted_aliased=ident(ex, 'cte_quoted_aliased', ['my c'], alias='y'), view=ident(ex, 'view', ['v'], alias='z'),
                    qualified_view=ident(ex, 'qualified_view', ['mindsdb', 'c']), int_table=ident(ex, 'int_table', ['int1', 'tbl1'], alias='t'), int_cte_name=ident(ex, 'int_cte_name', ['int2', 'c']))
        ctes = []
        for nm in ('c', 'my c'):
            cte = SymObj({CommonTableExpression}, f'cte[{nm}]', prov='param')
            cte.known_not_none = True
            cte.fields.update(name=ident(ex, f'cte_name[{nm}]', [nm]), query=SymObj(None, 'cte_query', prov='param'), columns=None, alias=None, parentheses=False)
            ctes.append(cte)
        q = SymObj({Select}, 'query', prov='param')
        q.known_not_none = True
        q.fields['cte'] = ex.param_container(ctes)

        def traversal(ex_, a, k, node_=None):
            for r in refs.values():
                ex_.call(a[1], [r], {'is_table': True, 'is_target': False, 'parent_query': q})
            return None
        ex.stubs[('mindsdb_sql.planner.utils', 'query_traversal')] = traversal
        for _nm in ('to_string', 'maybe_add_alias', 'maybe_add_parentheses', 'get_string', 'parts_to_str'):
            ex.recursion_ok[_nm] = 4          # an identifier prints its alias, which is an identifier (depth 2)
        ex.path_state.update(refs=refs)
        return [planner, q], {}

    def post(ex, o):
        if o.kind != 'return':
            return f'raises {getattr(o.value, "__name__", o.value)}'
        info, refs = o.value, o.state['refs']
        if not isinstance(info, dict):
            return f'returns {info!r}'
        name_of = {id(v): k for k, v in refs.items()}
        got = sorted(name_of.get(id(e), repr(e)) for e in info.get('mdb_entities', []))
        want = ['qualified_view', 'view']
        if got != want:
            wrong = sorted(set(got) ^ set(want))
            return f'mindsdb entities are {got}, expected {want}: {wrong} misclassified (a reference to a CTE is a project object only if it is qualified by the project; alias and quoting do not matter)'
        ints = info.get('integrations')
        if not isinstance(ints, set) or ints != {'int1', 'int2'}:
            return f'integrations are {ints!r}, expected int1 and int2'
        return None
    v = pysym.verify(QP, 'QueryPlanner.get_query_info', make_args, post)
    _emit(rep, 'C11.info.cte-references', v, fn,
          'ensures mdb_entities = table references resolving to a project minus unqualified references to CTEs of the query (any alias / spelling); integrations = the resolved integrations',
          replay=lambda: replay_shape())


def replay_shape():
    from mindsdb_sql import parse_sql
    from mindsdb_sql.planner import plan_query
    from mindsdb_sql.planner.steps import FetchDataframeStep
    last = None
    for sql in ('SELECT a, b FROM int1.tbl1 WHERE a > 1 ORDER BY b LIMIT 2', 'WITH c AS (SELECT a, b FROM int1.tbl1 WHERE a > 0) SELECT x.a FROM c AS x WHERE x.b > 1',
                'WITH `my c` AS (SELECT a FROM int1.tbl1) SELECT a FROM `my c`', 'SELECT a FROM int1.tbl1 EXCEPT SELECT a FROM int1.tbl2', 'SELECT a FROM int1.tbl1 INTERSECT SELECT a FROM int1.tbl2'):
        try:
            p = plan_query(parse_sql(sql), integrations=['int1', 'int2'], default_namespace='mindsdb', predictor_metadata=[])
        except Exception as e:
            return {'input': sql, 'dialect': 'mindsdb', 'fires': True, 'observed': f'{type(e).__name__}: {e}'[:150], 'expected': 'one FetchDataframeStep for int1'}
        ok = len(p.steps) == 1 and isinstance(p.steps[0], FetchDataframeStep) and p.steps[0].integration == 'int1'
        last = {'input': sql, 'dialect': 'mindsdb', 'fires': not ok, 'observed': repr(p.steps)[:200], 'expected': 'one FetchDataframeStep for int1'}
        if not ok:
            return last
    return last


def edit_obligations(rep):
    from mindsdb_sql.parser.ast import Identifier, Join, Select, Star, Constant
    fn = f'{QP}:QueryPlanner.prepare_integration_select._prepare_integration_select'
    combos = list(itertools.product(('ident', 'other'), (False, True), (False, True), ('plain', 'join', 'nofrom'), (False, True), ('str', 'star'), (2, 3, 4)))
    for kind, is_table, is_target, parent, has_alias, last, nparts in combos:
        if kind == 'other' and (has_alias or last == 'star' or parent != 'plain' or nparts != 2):
            continue
        tag = f'{kind}.table{int(is_table)}.target{int(is_target)}.{parent}.alias{int(has_alias)}.{last}' + ('' if nparts == 2 else f'.parts{nparts}')

        def run(ex, kind=kind, is_table=is_table, is_target=is_target, parent=parent, has_alias=has_alias, last=last, nparts=nparts):
            from vlib.pysym import models
            import z3
            LOWER = z3.Function('str.lower', z3.StringSort(), z3.StringSort())
            orig = models.symval_method
            models.symval_method = lambda ex_, recv, name, args, kwargs, node: SymVal('str', LOWER(recv.t)) if (name == 'lower' and recv.sort == 'str') else orig(ex_, recv, name, args, kwargs, node)
            planner = SymObj(None, 'self', prov='param')
            from mindsdb_sql.planner.query_planner import QueryPlanner as _QP
            planner.self_class = _QP          # helper methods extracted from the visitor are the real ones of QueryPlanner
            planner.known_not_none = True     # the receiver of a method
            captured = {}
            ex.stubs[('mindsdb_sql.planner.utils', 'query_traversal')] = lambda ex_, a, k, node_=None: captured.update(cb=a[1])
            database = pysym.mk_str('database')
            clo = pysym.closure_of(QP, 'QueryPlanner.prepare_integration_select')
            clo.no_stub = True
            ex.call_closure(clo, [planner, database, SymObj(None, 'query', prov='param')], {})
            if kind == 'ident':
                node = SymObj({Identifier}, 'node', prov='param')
                node.closed = True
                lastp = 'col' if last == 'str' else SymObj({Star}, 'star', prov='param')
                parts = ex.param_container(['other_db', 'sch', 'tbl', lastp][-nparts:])      # first part is not the integration: only the aliasing edit is in question here
                ex.assume(LOWER(z3.StringVal(parts[0])) != database.t)
                alias = SymObj({Identifier}, 'old_alias', prov='param') if has_alias else None
                node.fields.update(parts=parts, alias=alias, parentheses=False)
            else:
                node = SymObj({Constant}, 'node', prov='param')
                node.closed = True
                node.fields.update(value=1, alias=None, parentheses=False, with_quotes=True)
                parts = None
            pq = SymObj({Select}, 'parent_query', prov='param')
            pq.closed = True
            if parent == 'plain':
                pq.fields['from_table'] = SymObj({Identifier}, 'from_table', prov='param')
            elif parent == 'join':
                pq.fields['from_table'] = SymObj({Join}, 'from_table', prov='param')
            before = dict(node.fields)
            r = ex.call(captured['cb'], [node], {'is_table': is_table, 'is_target': is_target, 'parent_query': pq})
            ex.path_state.update(node=node, before=before, parts=parts, r=r, pq=pq)
            return r

        def post(ex, o, kind=kind, is_table=is_table, is_target=is_target, parent=parent, has_alias=has_alias, last=last):
            if o.kind != 'return':
                return f'raises {o.value.__name__}'
            st = o.state
            if st['r'] is not None:
                return 'the visitor replaces a node'
            node, before = st['node'], st['before']
            for (obj, attr, old, new, k_) in o.writes:
                if obj is st['pq'] or (isinstance(obj, SymObj) and obj is not node and obj.prov != 'fresh'):
                    return f'writes {obj!r}.{attr}'
            if kind == 'other':
                return None if node.fields == before else 'a non-identifier node is edited'
            if list(node.fields['parts']) != list(before['parts']):
                return 'parts changed although the first part is not the integration'
            should_alias = is_target and not is_table and parent == 'plain' and not has_alias and last == 'str'
            al = node.fields.get('alias')
            if should_alias:
                if not (isinstance(al, SymObj) and al.cls is Identifier and al.prov == 'fresh' and al.fields.get('parts') == ['col']):
                    return f'a bare select-list column is not aliased with its own name (alias={al!r})'
            elif al is not before['alias']:
                return f'alias changed to {al!r} outside the allowed case'
            return None
        ex = pysym.Executor()
        try:
            outs = ex.explore(run)
            bad = next((r for r in (post(ex, o) for o in outs) if r), None)
            v = pysym.Verdict(FAILED, bad) if bad else pysym.Verdict(PROVED, f'{len(outs)} path(s)', ex.solver_time)
        except (Unsupported, PathLimit) as e:
            v = pysym.Verdict(UNDECIDED, f'{type(e).__name__}: {e}')
        _emit(rep, f'C11.edit.{tag}', v, fn,
              'modifies only node.parts (drop matching qualifier, see C10.strip) and node.alias := Identifier([last part]) iff is_target and not is_table and FROM is not a join and alias is None and last part is a string')


# ------------------------------------------------------------------ bounded: differential execution on sqlite3
QUERIES = [
    'SELECT a, b FROM int1.tbl1 WHERE a > 1 ORDER BY b',
    'SELECT int1.tbl1.a FROM int1.tbl1',
    'SELECT t.a AS x, t.b FROM int1.tbl1 AS t WHERE t.a IN (SELECT a FROM int1.tbl2)',
    'SELECT t1.a, t2.b FROM int1.tbl1 AS t1 JOIN int1.tbl2 AS t2 ON t1.id = t2.id ORDER BY t1.a, t2.b',
    'SELECT a FROM int1.tbl1 UNION SELECT a FROM int1.tbl2 ORDER BY a',
    'WITH c AS (SELECT a FROM int1.tbl1) SELECT a FROM c ORDER BY a',
    'SELECT count(*) AS n, a FROM int1.tbl1 GROUP BY a HAVING count(*) >= 1 ORDER BY a',
    # shadowing: alias / column spelled like the integration
    'SELECT int1.a FROM int1.tbl1 AS int1 ORDER BY 1',
    'SELECT int1.a, t2.b FROM int1.tbl1 AS int1 JOIN int1.tbl2 AS t2 ON int1.id = t2.id ORDER BY 1, 2',
    'SELECT t.int1 FROM int1.tbl3 AS t ORDER BY 1',
    'SELECT int1.int1 FROM int1.tbl3 AS int1 ORDER BY 1',
    'SELECT x.a FROM (SELECT a FROM int1.tbl1) AS x ORDER BY 1',
    'SELECT a + 1, sum(b) OVER (PARTITION BY a) FROM int1.tbl1 ORDER BY 1, 2',
    # CTEs referenced through an alias, with a name that needs quoting, twice, and next to a real table; other set operations
    'WITH c AS (SELECT a, b FROM int1.tbl1 WHERE a > 0) SELECT x.a FROM c AS x WHERE x.b > 1 ORDER BY 1',
    'WITH `my c` AS (SELECT a FROM int1.tbl1) SELECT a FROM `my c` ORDER BY 1',
    'WITH c AS (SELECT id, a FROM int1.tbl1) SELECT x.a, y.a FROM c AS x JOIN c AS y ON x.id = y.id ORDER BY 1, 2',
    'WITH c AS (SELECT id, a FROM int1.tbl1) SELECT x.a, t2.b FROM c AS x JOIN int1.tbl2 AS t2 ON x.id = t2.id ORDER BY 1, 2',
    'WITH c AS (SELECT a FROM int1.tbl1), d AS (SELECT a FROM int1.tbl2) SELECT c.a FROM c JOIN d ON c.a = d.a ORDER BY 1',
    'SELECT a FROM int1.tbl1 EXCEPT SELECT a FROM int1.tbl2 ORDER BY a',
    'SELECT a FROM int1.tbl1 INTERSECT SELECT a FROM int1.tbl2 ORDER BY a',
    'SELECT a FROM int1.tbl1 UNION ALL SELECT a FROM int1.tbl2 ORDER BY a',
    'SELECT DISTINCT a FROM int1.tbl1 WHERE b IS NOT NULL ORDER BY a LIMIT 2',
]


def sqlite_env():
    con = sqlite3.connect(':memory:')
    con.execute("ATTACH ':memory:' AS int1")
    for schema in ('int1', 'main'):
        con.execute(f'CREATE TABLE {schema}.tbl1 (id, a, b)')
        con.execute(f'CREATE TABLE {schema}.tbl2 (id, a, b)')
        con.execute(f'CREATE TABLE {schema}.tbl3 (id, int1)')
        con.executemany(f'INSERT INTO {schema}.tbl1 VALUES (?, ?, ?)', [(1, 1, 10), (2, 2, None), (3, 2, 30), (4, None, 40)])
        con.executemany(f'INSERT INTO {schema}.tbl2 VALUES (?, ?, ?)', [(1, 5, 50), (2, 2, 60), (2, 7, None), (9, 9, 90)])
        con.executemany(f'INSERT INTO {schema}.tbl3 VALUES (?, ?)', [(1, 100), (2, 200)])
    return con


def bounded(rep, tier):
    from mindsdb_sql import parse_sql
    from mindsdb_sql.planner import plan_query
    from mindsdb_sql.planner.steps import FetchDataframeStep
    con = sqlite_env()
    # the pushed text is executed where only the `main` copies exist under unqualified names; to make a wrong qualifier strip visible the
    # main copies hold different rows for tbl1
    con.execute('DELETE FROM main.tbl1')
    con.executemany('INSERT INTO main.tbl1 VALUES (?, ?, ?)', [(1, 1, 10), (2, 2, None), (3, 2, 30), (4, None, 40)])
    n = 0
    for i, sql in enumerate(QUERIES):
        n += 1
        cid = f'C11.bounded.q{i}'
        try:
            p = plan_query(parse_sql(sql), integrations=['int1', 'int2'], default_namespace='mindsdb', predictor_metadata=[])
        except Exception as e:
            rep.add_bounded(Bounded(cid, False, sql, f'planner raises {type(e).__name__}: {e}'[:150], 'one fetch step', bound=f'{len(QUERIES)} queries'))
            continue
        if not (len(p.steps) == 1 and isinstance(p.steps[0], FetchDataframeStep) and p.steps[0].integration == 'int1'):
            rep.add_bounded(Bounded(cid, False, sql, f'plan is {p.steps!r}'[:200], 'exactly one FetchDataframeStep for int1', bound=f'{len(QUERIES)} queries'))
            continue
        pushed = str(p.steps[0].query)
        try:
            want = con.execute(sql).fetchall()
            want_cols = [d[0] for d in con.execute(sql).description]
        except Exception as e:
            continue            # the reference engine cannot run the original text: outside the stand-in
        try:
            cur = con.execute(pushed)
            got = cur.fetchall()
            got_cols = [d[0] for d in cur.description]
        except Exception as e:
            rep.add_bounded(Bounded(cid, False, sql, f'pushed text `{pushed}` fails on the integration: {e}'[:200], f'{want}', bound=f'{len(QUERIES)} queries'))
            continue
        if got != want:
            rep.add_bounded(Bounded(cid, False, sql, f'pushed text `{pushed}` returns {got}'[:250], f'{want}', bound=f'{len(QUERIES)} queries'))
    # wherever a SELECT over one integration is pushed down (top level, source of INSERT / CREATE TABLE, sub-select of a larger plan), under every kind of
    # default namespace: no identifier of the pushed text still carries the integration's own name
    for sc in plans.generated_scenarios(tier):
        qname = sc['source'].split(':')[2]
        if not qname.startswith(('single-', 'insert-select', 'create-table', 'subselect-from', 'case-qualifier', 'three-part')):
            continue
        n += 1
        try:
            q_, pl_, plan_, e_, kw_ = plans.run_scenario(sc)
        except Exception:
            continue
        if e_ is not None or plan_ is None:
            continue
        if qname.startswith('single-'):
            # every table of these statements lives in one SQL integration: the select is pushed down whole - no model is applied, nothing is joined outside
            kinds_ = [type(s_).__name__ for s_ in plan_.steps]
            outside = [k_ for k_ in kinds_ if k_.startswith('Apply') or k_ in ('JoinStep', 'SubSelectStep', 'QueryStep')]
            if outside and not ('-sub' in qname or '-union' in qname):
                rep.add_bounded(Bounded(f'C11.bounded.not-pushed-whole.{qname}', False, sc['sql'], f'[{sc["catalog"]}] plan steps {kinds_}: the single-integration select is executed outside the integration',
                                        'one fetch step for the select', bound='scenario family x catalogs'))
                break
        left = plans.unstripped_qualifiers(plan_)
        if left:
            integ, ident, text = left[0]
            rep.add_bounded(Bounded(f'C11.bounded.qualifier-left.{qname}', False, sc['sql'], f'[{sc["catalog"]}] the query sent to {integ!r} still names `{ident}`: `{text[:150]}`',
                                    'identifiers without the integration qualifier', bound='scenario family x catalogs'))
            break
    try:
        for sql, msg in plans.reuse_history_problems():
            rep.add_bounded(Bounded('C11.bounded.planner-reuse', False, sql, msg, 'the plan of the statement planned alone', bound='re-use sequences'))
            break
    except Exception as e:
        pass
    rep.bounded_evals = n
    rep.bounded_rule = 'single-integration queries (plain, joins, sub-queries, union, CTE, grouping, window, alias/column names shadowing the integration name): original text vs FetchDataframeStep.query executed on sqlite3 (integration attached as schema int1)'



def walker_dependency(rep, tier):
    """C11 relies on the contract of query_traversal (C13). The walker obligations are re-evaluated here; a failure that is not a known finding of C13
    is reported under this property too, because the rewrite / binding built on the walker is then no longer covered by the argument above."""
    from contracts import C13
    sub = type(rep)('C13', tier, C13.LEVEL)
    C13.check(sub, tier)
    n_ok = sum(1 for o in sub.obs if o.status == PROVED)
    bad = sub.unlisted_failures()
    und = [o for o in sub.obs if o.status == UNDECIDED]
    for x in bad:
        oid = 'C11.walker.' + x.id.split('.', 1)[1]
        if hasattr(x, 'status'):
            rep.failed(oid, x.engine, x.detail, function=x.function, clause=x.clause, replay=x.replay)
        else:
            rep.add_bounded(Bounded(oid, False, x.input, x.observed, x.expected, bound=x.bound))
    for o in und:
        rep.undecided('C11.walker.' + o.id.split('.', 1)[1], o.engine, o.detail, function=o.function)
    if not bad and not und:
        rep.proved('C11.walker', 'pysym', f'{n_ok} walker obligations of C13 hold (its {len(sub.obs) - n_ok} listed findings concern slots this property does not use)',
                   function='mindsdb_sql.planner.utils:query_traversal', clause='the visitor is applied once to every node reachable through the slots this property uses; replacements land in place')

def check(rep, tier):
    from vlib import statecensus
    statecensus.obligations(rep, 'C11', 'planner')
    from vlib import resolverdep
    resolverdep.obligations(rep, tier, 'C11')
    walker_dependency(rep, tier)
    rep.dropped = 'method bodies read with ast.parse; the rewrite visitor is a nested closure executed by pysym'
    rep.assume('C13 coverage of identifiers by the walker', 'C10.strip for the qualifier edit', 'meaning preservation of the edit set under shadowing is NOT decided (bounded only)')
    rep.trust('pysym executor', 'sqlite3 as reference engine (bounded stand-in)')
    shape_obligations(rep)
    info_obligations(rep)
    edit_obligations(rep)
    bounded(rep, tier)
    rep.notes.append('Plan shape and edit set proved; semantic preservation bounded.')
