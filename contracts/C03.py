"""C03 — operators group by standard SQL precedence and associativity in every dialect.

Deductive part (engine lrtab, exhaustive over the generated tables): for every state of every dialect's
LALR table in which an operator rule R is complete and an operator token t could continue the left
operand, the table's decision equals the reference relation REF written below from the property
statement.  T1 (assumption register) lifts the row facts to "every expression groups as REF says".
Deductive part (pysym): the `LPAREN expr RPAREN` action returns its operand with parentheses == True.
Bounded stand-in: exhaustive operator strings up to k operators, real parse_sql vs a reference
precedence-climbing parser."""
import itertools, random, os, time
from vlib import lrtab, repo
from vlib.core import Ob, Bounded, PROVED, FAILED, UNDECIDED

LEVEL = 'proof'
MANIFEST = {
    'engine': 'lrtab+pysym',
    'level': 'proof',
    'technique': 'contract obligations over every row of the regenerated LALR tables vs a reference precedence relation; symbolic execution of the parenthesis action',
    'text': 'Every (state, completed operator rule, operator look-ahead) decision of the three generated LALR tables is proved equal to the '
            'reference relation taken from the property statement (exhaustive over the finite tables, hence all inputs, given the yacc '
            'precedence theorem T1), no listed operator is unranked, tables are consistent with an independently built LR(0) automaton, '
            'and the `( expr )` action is proved by symbolic execution to set parentheses on its operand and nothing else.',
    'note': 'Operator rules are recognised by shape (expr OP expr, OP expr, BETWEEN, two-token predicates such as NOT IN); expr productions of any other shape '
            'generate no obligation and are listed in the evidence (census.<dialect>.unclassified_expr_rules). Assumed: T1 (yacc precedence theorem, cited not mechanised; bounded cross-check over all operator strings with <=2 (quick) / <=3 '
            '(thorough) operators in 2/6 contexts), the SLY driver consults exactly table[state][lookahead] (C05.drv), CPython, our LR(0) '
            'builder. Not decided: evaluation against a reference SQL engine (follows from grouping only under the assumption that '
            'operator semantics are standard).',
}

# ---- reference relation, from the property statement (tightest first):
#   unary minus;  * / %;  + -;  comparisons and IN / BETWEEN / LIKE / IS [NOT] NULL;  NOT;  AND;  OR
#   chains of * / %, of + -, of AND and of OR associate to the left.
LVL = {}
for _t in ('STAR', 'DIVIDE', 'MODULO'):
    LVL[_t] = 5
for _t in ('PLUS', 'MINUS'):
    LVL[_t] = 4
for _t in ('EQUALS', 'NEQUALS', 'LESS', 'LEQ', 'GREATER', 'GEQ', 'IN', 'NOT_IN', 'BETWEEN', 'LIKE', 'NOT_LIKE', 'IS', 'IS_NOT'):
    LVL[_t] = 3
LVL['AND'] = 1
LVL['OR'] = 0
# predicates that a grammar spells with two tokens (`expr NOT IN expr` in the mysql / sqlite grammars): the look-ahead that decides is the FIRST token,
# the level is the predicate's.  Key = the tokens separated by a blank.
MULTI = {('NOT', 'IN'): 'NOT IN', ('NOT', 'LIKE'): 'NOT LIKE', ('IS', 'NOT'): 'IS NOT'}
for _t in MULTI.values():
    LVL[_t] = 3
L_UMINUS, L_NOT, L_CMP = 6, 2, 3
LEFT_ASSOC_LEVELS = {5, 4, 1, 0}


def classify_rule(p):
    """operator rule -> (kind, level, op token) or None"""
    rhs = tuple(p.prod)
    if p.name != 'expr':
        return None
    if len(rhs) == 3 and rhs[0] == 'expr' and rhs[2] == 'expr' and rhs[1] in LVL and rhs[1] != 'BETWEEN':
        return ('binary', LVL[rhs[1]], rhs[1])
    if rhs == ('MINUS', 'expr'):
        return ('uminus', L_UMINUS, 'MINUS')
    if rhs == ('NOT', 'expr'):
        return ('not', L_NOT, 'NOT')
    if rhs == ('expr', 'BETWEEN', 'expr', 'AND', 'expr'):
        return ('between', L_CMP, 'BETWEEN')
    if len(rhs) == 4 and rhs[0] == 'expr' and rhs[3] == 'expr' and (rhs[1], rhs[2]) in MULTI:
        return ('binary', L_CMP, MULTI[(rhs[1], rhs[2])])
    return None


def expected(rule_level, tok):
    """'reduce' | 'shift' | None (unconstrained) for a completed rule of level rule_level and look-ahead tok"""
    l = LVL[tok]
    if rule_level == L_CMP and l == L_CMP:
        return None                     # comparison directly inside comparison: excluded by the statement
    if rule_level > l:
        return 'reduce'
    if rule_level < l:
        return 'shift'
    return 'reduce' if l in LEFT_ASSOC_LEVELS else None


# ------------------------------------------------------------------ witness / replay on the real parser
OPTEXT = {'STAR': '*', 'DIVIDE': '/', 'MODULO': '%', 'PLUS': '+', 'MINUS': '-', 'EQUALS': '=', 'NEQUALS': '!=',
          'LESS': '<', 'LEQ': '<=', 'GREATER': '>', 'GEQ': '>=', 'IN': 'in', 'NOT_IN': 'not in', 'LIKE': 'like',
          'NOT_LIKE': 'not like', 'IS': 'is', 'IS_NOT': 'is not', 'AND': 'and', 'OR': 'or', 'BETWEEN': 'between',
          'NOT IN': 'not in', 'NOT LIKE': 'not like', 'IS NOT': 'is not'}


def rhs_text(tok, name):
    if tok in ('IN', 'NOT_IN', 'NOT IN'):
        return f'({name}, 1)'
    if tok in ('IS', 'IS_NOT', 'IS NOT'):
        return 'NULL'
    return name


def ref_parse(tokens):
    """independent precedence-climbing parser implementing REF over a token list
    [('operand', text) | ('op', TOK) | ('uminus',) | ('not',)]"""
    pos = [0]

    def peek():
        return tokens[pos[0]] if pos[0] < len(tokens) else None

    def nxt():
        t = tokens[pos[0]]
        pos[0] += 1
        return t

    def parse(minlvl):
        t = nxt()
        if t[0] == 'uminus':
            left = ('-', parse(L_UMINUS))
        elif t[0] == 'not':
            left = ('not', parse(L_NOT))
        else:
            left = t[1]
        while True:
            t = peek()
            if t is None or t[0] != 'op':
                return left
            tok = t[1]
            l = LVL[tok]
            if l < minlvl:
                return left
            nxt()
            if tok == 'BETWEEN':
                lo = parse(L_CMP + 1)
                a = nxt()
                assert a == ('op', 'AND')
                hi = parse(L_CMP + 1)
                left = ('between', left, lo, hi)
            else:
                right = parse(l + 1)
                left = (OPTEXT[tok], left, right)
    r = parse(0)
    assert pos[0] == len(tokens)
    return r


def has_cmp_in_cmp(tree):
    CMPS = {OPTEXT[t] for t, l in LVL.items() if l == L_CMP}
    if isinstance(tree, str):
        return False
    if tree[0] in CMPS and len(tree) >= 3:
        for a in tree[1:]:
            if not isinstance(a, str) and a[0] in CMPS and len(a) >= 3:
                return True
    return any(has_cmp_in_cmp(a) for a in tree[1:])


def tokens_to_sql(tokens):
    out = []
    for t in tokens:
        if t[0] == 'operand':
            out.append(t[1])
        elif t[0] == 'op':
            out.append(OPTEXT[t[1]])
        elif t[0] == 'uminus':
            out.append('-')
        elif t[0] == 'not':
            out.append('not')
    return ' '.join(out)


def ast_shape(node):
    from mindsdb_sql.parser import ast
    if isinstance(node, ast.BetweenOperation):
        return ('between',) + tuple(ast_shape(a) for a in node.args)
    if isinstance(node, (ast.BinaryOperation,)):
        return (node.op,) + tuple(ast_shape(a) for a in node.args)
    if isinstance(node, ast.UnaryOperation):
        return (node.op.lower(),) + tuple(ast_shape(a) for a in node.args)
    if isinstance(node, ast.Tuple):
        return '(' + ', '.join(str(ast_shape(i)) for i in node.items) + ')'
    if isinstance(node, ast.NullConstant):
        return 'NULL'
    if isinstance(node, ast.Constant):
        return str(node.value)
    if isinstance(node, ast.Identifier):
        return '.'.join(str(p) for p in node.parts)
    return repr(node)


CONTEXTS = {
    'select-list': ('select {e}', lambda q: q.targets[0]),
    'where': ('select x from t where {e}', lambda q: q.where),
    'on': ('select x from t join u on {e}', lambda q: q.from_table.condition),
    'having': ('select x from t group by x having {e}', lambda q: q.having),
    'function-arg': ('select f({e})', lambda q: q.targets[0].args[0]),
    'case-branch': ('select case when {e} then 1 else 0 end', lambda q: q.targets[0].rules[0][0]),
}


def real_shape(dialect, expr_sql, ctx):
    from mindsdb_sql import parse_sql
    tmpl, get = CONTEXTS[ctx]
    q = parse_sql(tmpl.format(e=expr_sql), dialect=dialect)
    return ast_shape(get(q))


def witness_tokens(kind, rtok, t):
    """smallest expression in which rule (kind, rtok) is complete and t is the look-ahead"""
    if kind == 'binary':
        toks = [('operand', 'a'), ('op', rtok), ('operand', rhs_text(rtok, 'b'))]
    elif kind == 'uminus':
        toks = [('uminus',), ('operand', 'a')]
    elif kind == 'not':
        toks = [('not',), ('operand', 'a')]
    else:
        toks = [('operand', 'a'), ('op', 'BETWEEN'), ('operand', 'b'), ('op', 'AND'), ('operand', 'c')]
    if t == 'BETWEEN':
        toks += [('op', 'BETWEEN'), ('operand', 'd'), ('op', 'AND'), ('operand', 'e')]
    else:
        toks += [('op', t), ('operand', rhs_text(t, 'd'))]
    return toks


def replay_pair(dialect, kind, rtok, t, ctxs=('select-list', 'where')):
    toks = witness_tokens(kind, rtok, t)
    sql = tokens_to_sql(toks)
    want = ref_parse(toks)
    fired = []
    obs = None
    for c in ctxs:
        try:
            got = real_shape(dialect, sql, c)
        except Exception as e:
            got = f'{type(e).__name__}: {str(e)[:80]}'
        if got != want:
            fired.append(CONTEXTS[c][0].format(e=sql))
            obs = got
    return {'input': fired[0] if fired else CONTEXTS[ctxs[0]][0].format(e=sql), 'fires': bool(fired),
            'observed': str(obs), 'expected': str(want), 'dialect': dialect, 'also_fires': fired}


# ------------------------------------------------------------------ table obligations
def table_obligations(rep, dname):
    d = lrtab.load(dname)
    lr0 = d.lr0
    fn = f'{d.parser_module}:{d.parser_class_name}.precedence,{d.parser_module}:{d.parser_class_name}.expr,sly.yacc:LRTable.lr_parse_table'
    if lr0.mismatch:
        rep.failed(f'C03.tab.consistent.{dname}', 'lrtab', '; '.join(lr0.mismatch[:5]), function=fn)
        return
    rep.proved(f'C03.tab.consistent.{dname}', 'lrtab',
               f'{len(d.action)} generated states map homomorphically onto the independent LR(0) automaton '
               f'({len(lr0.states)} item sets)', function=fn,
               clause='every shift/goto edge of the generated table is the LR(0) move of the mapped item set')
    rules = {}
    for p in d.prods[1:]:
        c = classify_rule(p)
        if c:
            rules[p.number] = c
    optoks = [t for t in LVL if t in d.terminals]
    # unranked operators
    for t in optoks:
        lvl = d.prec.get(t, ('right', 0))[1]
        oid = f'C03.unranked.{dname}.{t}'
        if lvl == 0:
            rep.failed(oid, 'lrtab', f'operator token {t} has no precedence level in {d.parser_class_name}.precedence',
                       function=fn, replay=replay_pair(dname, 'binary', t, 'EQUALS') if t != 'EQUALS' else None)
        else:
            rep.proved(oid, 'lrtab', f'level {lvl}', function=fn, clause='every listed operator token is ranked')
    for num, (kind, lvl, tok) in rules.items():
        if d.prods[num].prec[1] == 0:
            rep.failed(f'C03.unranked.{dname}.rule{num}', 'lrtab', f'operator rule {d.prods[num]} has precedence level 0', function=fn)
    # decisions, aggregated per (rule-op, lookahead) over all states where they meet
    decisions = {}
    n_rows = 0
    for s in range(len(d.action)):
        items = lr0.items(s)
        comp = [p for p in lr0.completed(s) if p in rules]
        if not comp:
            continue
        kinds = {rules[p][0] + ':' + rules[p][2] for p in comp}
        if len(comp) > 1:
            # the reduce/reduce state reached by  a BETWEEN b AND c .  — BETWEEN must win (its operands bind tighter than AND)
            btw = [p for p in comp if rules[p][0] == 'between']
            others = [p for p in comp if rules[p][0] != 'between']
            if len(btw) == 1 and all(rules[p][2] == 'AND' for p in others):
                main = btw[0]
            else:
                decisions.setdefault((dname, '+'.join(sorted(kinds)), '*'), []).append((s, 'ambiguous', 'several operator rules complete', None))
                continue
        else:
            main = comp[0]
        kind, rlvl, rtok = rules[main]
        # operator tokens that can continue the left operand here:  item  expr -> expr . t ...
        cont = set()
        for p, dot in items:
            rhs = lr0.rhs[p]
            if lr0.lhs[p] == 'expr' and dot == 1 and rhs[0] == 'expr' and len(rhs) > 1 and rhs[1] in LVL:
                cont.add(rhs[1])
            # a predicate spelled with two tokens: the decision is taken on its first token
            if lr0.lhs[p] == 'expr' and dot == 1 and rhs[0] == 'expr' and len(rhs) == 4 and rhs[3] == 'expr' and (rhs[1], rhs[2]) in MULTI \
                    and rhs[1] not in LVL:
                cont.add(MULTI[(rhs[1], rhs[2])])
        for t in sorted(cont):
            exp = expected(rlvl, t)
            if exp is None:
                continue
            n_rows += 1
            act = d.action[s].get(t.split()[0], 'absent') if s not in d.defaulted else d.defaulted[s]
            if act == 'absent':
                got = 'absent'
            elif act is None:
                got = 'nonassoc-error'
            elif act > 0:
                got = 'shift'
            elif -act == main:
                got = 'reduce'
            else:
                got = f'reduce-by-other-rule({d.prods[-act]})'
            decisions.setdefault((dname, f'{kind}:{rtok}', t), []).append((s, got, exp, (kind, rtok)))
    for (dn, r, t), rows in sorted(decisions.items()):
        oid = f'C03.prec.{dn}.{r}/{t}'
        bad = [(s, got, exp) for s, got, exp, _ in rows if got != exp]
        if not bad:
            rep.proved(oid, 'lrtab', f'{len(rows)} state(s): table decision = {rows[0][2]}', function=fn,
                       clause='table[state][lookahead] = REF(completed operator rule, lookahead) in every state where they meet')
        else:
            info = rows[0][3]
            rp = replay_pair(dn, info[0], info[1], t) if info else None
            rep.failed(oid, 'lrtab', f'{len(bad)}/{len(rows)} state(s) decide {bad[0][1]} where REF says {bad[0][2]} '
                       f'(e.g. state {bad[0][0]})', function=fn, cex={'states': [b[0] for b in bad][:10]}, replay=rp,
                       clause='table[state][lookahead] = REF(completed operator rule, lookahead)')
    # what the classifier does NOT treat as an operator rule (visible in the evidence: a predicate spelled in a way the classifier does not know generates no obligation)
    rep.census[f'{dname}.unclassified_expr_rules'] = [' '.join(p.prod) for p in d.prods[1:] if p.name == 'expr' and 'expr' in p.prod and p.number not in rules
                                                      and not (len(p.prod) == 3 and p.prod[0] == 'LPAREN')]
    rep.census[f'{dname}.states'] = len(d.action)
    rep.census[f'{dname}.operator_rules'] = len(rules)
    rep.census[f'{dname}.decision_rows'] = n_rows
    if n_rows == 0 or not rules:
        rep.undecided(f'C03.vacuity.{dname}', 'lrtab', 'no operator rule / decision row found: the grammar is organised differently, the table obligations are vacuous (contract needs review)')


# ------------------------------------------------------------------ parenthesis action (pysym)
def paren_obligations(rep, dname):
    from vlib import pysym
    d = lrtab.load(dname)
    fns = repo.find_functions(d.parser_module, f'{d.parser_class_name}.expr')
    target = None
    for f in fns:
        rules = pysym.sly_rules_of(f)
        if 'LPAREN expr RPAREN' in rules:
            target = f
    oid = f'C03.paren.{dname}'
    fn = f'{d.parser_module}:{d.parser_class_name}.expr[LPAREN expr RPAREN]'
    if target is None:
        rep.failed(oid, 'pysym', 'no action for `LPAREN expr RPAREN` found', function=fn)
        return
    res = pysym.check_paren_action(d.parser_module, target)
    if res.status == PROVED:
        rep.proved(oid, 'pysym', res.detail, function=fn, seconds=res.seconds,
                   clause='ensures result is p.expr and (isinstance(result, ASTNode) => result.parentheses == True) and no other field written')
    elif res.status == FAILED:
        rp = None
        try:
            from mindsdb_sql import parse_sql
            q = parse_sql('select (a + b) * c', dialect=dname)
            inner = q.targets[0].args[0]
            fires = not getattr(inner, 'parentheses', False)
            rp = {'input': 'select (a + b) * c', 'fires': fires, 'observed': f'parentheses={getattr(inner, "parentheses", None)}', 'expected': 'parentheses=True', 'dialect': dname}
            if not fires:
                rp['input'] = None
                rp.pop('fires')
        except Exception as e:
            rp = {'input': 'select (a + b) * c', 'fires': True, 'observed': repr(e), 'dialect': dname}
        rep.failed(oid, 'pysym', res.detail, function=fn, replay=rp)
    else:
        rep.undecided(oid, 'pysym', res.detail, function=fn)


# ------------------------------------------------------------------ bounded stand-in
def gen_strings(optoks, k):
    """all unparenthesised operator strings with exactly k binary operators (+ optional leading unary)"""
    names = 'abcdefgh'
    for ops in itertools.product(optoks, repeat=k):
        for pre in (None, 'uminus', 'not'):
            toks = []
            if pre:
                toks.append((pre,))
            toks.append(('operand', names[0]))
            i = 1
            for o in ops:
                if o == 'BETWEEN':
                    toks += [('op', 'BETWEEN'), ('operand', names[i]), ('op', 'AND'), ('operand', names[i + 1])]
                    i += 2
                else:
                    toks += [('op', o), ('operand', rhs_text(o, names[i]))]
                    i += 1
            yield toks


def bounded(rep, tier, known_pairs):
    rnd = random.Random(int(os.environ.get('VERIF_SEED', '0') or 0))
    n = 0
    fails = {}
    for dname in lrtab.DIALECTS:
        d = lrtab.load(dname)
        optoks = [t for t in LVL if t in d.terminals]
        # predicates this grammar spells with two tokens
        optoks += sorted({MULTI[(tuple(p.prod)[1], tuple(p.prod)[2])] for p in d.prods[1:]
                          if p.name == 'expr' and len(p.prod) == 4 and (tuple(p.prod)[1], tuple(p.prod)[2]) in MULTI and p.prod[0] == 'expr' and p.prod[3] == 'expr'})
        ctxs = ['select-list', 'where'] if tier == 'quick' else list(CONTEXTS)
        # a context the dialect cannot parse even around a bare operand (e.g. CASE in the sqlite dialect) is outside "accepted statements"
        usable = []
        for c in ctxs:
            try:
                real_shape(dname, 'a', c)
                usable.append(c)
            except Exception:
                rep.census.setdefault('contexts_not_in_dialect', []).append(f'{dname}:{c}')
        ctxs = usable
        kmax = 2 if tier == 'quick' else 3
        cases = []
        for k in range(1, kmax + 1):
            cases.extend(gen_strings(optoks, k))
        if tier == 'thorough':
            for _ in range(3000):
                k = rnd.randint(4, 6)
                ops = [rnd.choice(optoks) for _ in range(k)]
                cases.append(next(itertools.islice(gen_strings_ops(ops, rnd), 1)))
        for toks in cases:
            try:
                want = ref_parse(toks)
            except AssertionError:
                continue
            if has_cmp_in_cmp(want):
                continue
            sql = tokens_to_sql(toks)
            for c in ctxs:
                n += 1
                try:
                    got = real_shape(dname, sql, c)
                except Exception as e:
                    got = f'{type(e).__name__}'
                if got != want:
                    # attribute to the first adjacent operator pair whose decision is wrong (case id = that pair)
                    key = first_bad_pair(dname, toks)
                    fails.setdefault((dname, key), (CONTEXTS[c][0].format(e=sql), str(got), str(want)))
    rep.bounded_evals = n
    rep.bounded_rule = ('all unparenthesised operator strings with <= k binary operators (k=2 quick, 3 thorough, random 4..6 in '
                        'thorough) with optional leading unary, x contexts, real parse_sql vs reference precedence-climbing parser; '
                        'strings whose reference tree nests comparisons directly are skipped (excluded by the statement)')
    for (dname, key), (inp, got, want) in sorted(fails.items()):
        rep.add_bounded(Bounded(f'C03.bounded.{dname}.{key}', False, inp, got, want, bound=f'k<={2 if tier == "quick" else 3}'))


def gen_strings_ops(ops, rnd):
    names = 'abcdefghijklmnop'
    toks = []
    if rnd.random() < 0.3:
        toks.append((rnd.choice(['uminus', 'not']),))
    toks.append(('operand', names[0]))
    i = 1
    for o in ops:
        if o == 'BETWEEN':
            toks += [('op', 'BETWEEN'), ('operand', names[i]), ('op', 'AND'), ('operand', names[i + 1])]
            i += 2
        else:
            toks += [('op', o), ('operand', rhs_text(o, names[i]))]
            i += 1
    yield toks


def first_bad_pair(dname, toks):
    """smallest sub-witness explaining a mismatch: try every (rule, lookahead) pair occurring adjacently"""
    seq = []
    if toks and toks[0][0] in ('uminus', 'not'):
        seq.append(('uminus' if toks[0][0] == 'uminus' else 'not', 'MINUS' if toks[0][0] == 'uminus' else 'NOT'))
    ops = [t[1] for t in toks if t[0] == 'op']
    # drop the AND that belongs to a BETWEEN
    clean = []
    skip = False
    for o in ops:
        if skip and o == 'AND':
            skip = False
            continue
        if o == 'BETWEEN':
            skip = True
        clean.append(o)
    seq += [('between' if o == 'BETWEEN' else 'binary', o) for o in clean]
    for (k1, o1), (k2, o2) in zip(seq, seq[1:]):
        r = replay_pair(dname, k1, o1, o2, ctxs=('select-list',))
        if r['fires']:
            return f'{k1}:{o1}/{o2}'
    return 'context:' + '/'.join(o for _, o in seq)


def check(rep, tier):
    from vlib import statecensus
    statecensus.obligations(rep, 'C03', 'parser')
    rep.dropped = ('tables are not extracted but regenerated by importing the real parser classes from $REPO_ROOT; '
                   'the parenthesis action is read with ast.parse (decorators other than @_ and comments dropped)')
    rep.assume('T1 (yacc precedence theorem, Aho-Johnson-Ullman 1975): if every shift/reduce decision between a completed '
               'operator rule and an operator look-ahead follows REF, the LR parse of an expression over those operators '
               'is its REF grouping, in any expression context; cross-checked by the bounded stand-in only',
               'Parser.parse consults exactly table[state][lookahead] (driver contract, C05.drv.*)',
               'REF (levels and associativity) is written from the property statement')
    rep.trust('independent LR(0) construction in vlib/lrtab.py (80 lines)', 'CPython import of the real grammar modules')
    for dname in lrtab.DIALECTS:
        table_obligations(rep, dname)
        paren_obligations(rep, dname)
    bounded(rep, tier, None)
    rep.notes.append('Every precedence-relevant (state, completed operator rule, look-ahead) row of the three generated LALR tables '
                     'is compared with the reference relation; rows are regenerated from the current grammar on every run.')
    rep.extra_cov = {'exhaustive': True}
