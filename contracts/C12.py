"""C12 — prepared statements bind placeholders in textual order, like inline literals.

Modular argument: (walker contract, C13) the visitor is applied to the nodes of the statement once each in textual
order  +  (callback contracts, here) the collecting visitor appends exactly the Parameter nodes it is shown and the
filling visitor replaces the k-th Parameter it is shown by Constant(k-th value)  +  (API contracts, here) prepare /
execute / info use those functions on the right objects and check the count  ==>  the property.
Where C13's contract fails for a node kind, the corresponding C12 case fails (derived cases, replayed end to end)."""
import os, re, json
import z3
from vlib import repo, pysym, corpus, lrtab
from vlib.core import PROVED, FAILED, UNDECIDED, Bounded
from vlib.pysym import SymObj, SymSeq, SymVal, Stub, Event, Unsupported, PathLimit, ForEach

LEVEL = 'other'
MANIFEST = {
    'engine': 'pysym',
    'level': 'other',
    'technique': 'callback and API contracts discharged by symbolic execution, composed with the C13 walker contract; end-to-end replay oracle (prepared vs inline) as bounded stand-in',
    'text': 'The collecting and filling visitors, get/fill_query_params, prepare_steps, execute_steps and get_statement_info are proved '
            'against their contracts for arbitrary statements and value lists; the order/coverage clause is the C13 contract, so each '
            'C13 order/coverage finding is reported here as the C12 case it causes, with a prepared-vs-inline witness.',
    'note': 'Assumed: C13 contract for node kinds where it is proved; copy.deepcopy structure-equal fresh copy; planning of the filled '
            'statement (from_query) is the ordinary planner. Bounded: statements of the corpus/templates with literals turned into `?`, '
            'prepared-vs-inline printed trees compared. Genuine defects inherited from the walker are listed as known findings.',
}

UTILS = 'mindsdb_sql.planner.utils'
PREP = 'mindsdb_sql.planner.query_prepare'


def _emit(rep, oid, v, fn, clause, replay=None):
    if v.status == PROVED:
        rep.proved(oid, 'pysym', v.detail, function=fn, seconds=v.seconds, clause=clause)
    elif v.status == FAILED:
        rep.failed(oid, 'pysym', v.detail, function=fn, seconds=v.seconds, clause=clause, cex=v.cex, replay=replay() if replay else None)
    else:
        rep.undecided(oid, 'pysym', v.detail, function=fn, seconds=v.seconds, clause=clause)


def traversal_recorder(ex):
    """stub for query_traversal that records the call and exposes the callback for separate verification"""
    def qt(ex_, a, k, node=None):
        ex_.log.append(Event('traverse', node=a[0] if a else k.get('node'), callback=a[1] if len(a) > 1 else k.get('callback'), extra=(a[2:], {x: y for x, y in k.items() if x not in ('node', 'callback')})))
        return None
    ex.stubs[(UTILS, 'query_traversal')] = qt


# ------------------------------------------------------------------ get_query_params
def _explore(modname, qual, body):
    """explores `body(ex, closure)` (which calls the function under contract and then drives the visitor it registered)"""
    import time
    t0 = time.time()
    ex = pysym.Executor()
    clo = pysym.closure_of(modname, qual)
    if clo is None:
        return None, ex, pysym.Verdict(UNDECIDED, f'{modname}:{qual} not found', 0)
    clo.no_stub = True
    try:
        outs = ex.explore(lambda ex_: body(ex_, clo))
    except (Unsupported, PathLimit) as e:
        return None, ex, pysym.Verdict(UNDECIDED, f'{type(e).__name__}: {e}', time.time() - t0)
    return outs, ex, None


def _judge(outs, ex, post):
    import time
    t0 = time.time()
    if not outs:
        return pysym.Verdict(UNDECIDED, 'no feasible path')
    for o in outs:
        r = post(ex, o)
        if r:
            return pysym.Verdict(FAILED, f'{r} [path: {"; ".join(o.choices[-5:])}]', 0, cex={'path': o.choices}, paths=len(outs))
    return pysym.Verdict(PROVED, f'{len(outs)} path(s)', ex.solver_time, paths=len(outs))


def collect_contract(rep):
    from mindsdb_sql.parser import ast
    fn = f'{UTILS}:get_query_params'
    KW = {'is_table': False, 'is_target': False, 'parent_query': None}

    def body(ex, clo):
        traversal_recorder(ex)
        q = SymObj(None, 'query', prov='param')
        q.known_not_none = True
        res = ex.call_closure(clo, [q], {})
        tr = [e for e in ex.log if e.kind == 'traverse']
        st = ex.path_state
        st.update(q=q, res=res, tr=tr, shown=[], rets=[])
        if len(tr) == 1 and isinstance(res, list):
            st['before'] = list(res)
            cb = tr[0].callback
            # show the visitor: a Parameter, an arbitrary other node, another Parameter
            p1 = SymObj({ast.Parameter}, 'param1', prov='param')
            other = SymObj(None, 'other', prov='param')
            other.known_not_none = True
            other.neg = (ast.Parameter,)
            p2 = SymObj({ast.Parameter}, 'param2', prov='param')
            for p_ in (p1, p2):
                # as the parsers build them: every placeholder is Parameter('?') - structurally equal, distinct objects
                p_.known_not_none = True
                p_.closed = True
                p_.fields.update(value='?', alias=None, parentheses=False)
            for n in (p1, other, p2):
                st['shown'].append(n)
                st['rets'].append(ex.call(cb, [n], dict(KW)))
        return res

    def post(ex, o):
        st = o.state
        if o.kind != 'return':
            return f'raises {o.value.__name__}'
        tr = st['tr']
        if len(tr) != 1 or tr[0].node is not st['q'] or tr[0].extra != ([], {}):
            return 'query_traversal is not called exactly once on the query with default flags'
        if not isinstance(st['res'], list) or st.get('before') != []:
            return f'result before any visit is {st.get("before")!r}, expected the empty accumulator list'
        p1, other, p2 = st['shown']
        if st['res'] != [p1, p2] or not all(a is b for a, b in zip(st['res'], [p1, p2])):
            return f'after showing [Parameter, other node, Parameter] the result is {st["res"]!r}, expected exactly the two Parameters in order'
        return None
    outs, ex, bad = _explore(UTILS, 'get_query_params', body)
    v = bad or _judge(outs, ex, post)
    _emit(rep, 'C12.collect', v, fn,
          'ensures result == [n for n in visit_sequence(query) if isinstance(n, Parameter)] (the visitor appends exactly the Parameter nodes it is shown, in call order)',
          replay=lambda: replay_fill())


# ------------------------------------------------------------------ fill_query_params
def _find_copy(cb, params, depth=4):
    """the values the visitor consumes: whatever is reachable from the callback -- a variable of its closure, an attribute of the callable object it is
    (or is a method of), a closure stored in such an attribute -- and holds a copy of the caller's list (names are not part of the contract)"""
    seen = set()
    direct = []

    def walk(v, d):
        if v is None or id(v) in seen or d < 0:
            return None
        seen.add(id(v))
        if isinstance(v, SymSeq):
            if getattr(v, 'copy_of', (None,))[0] is params:
                return v
            if v is params:
                direct.append(v)
            return None
        if isinstance(v, SymObj):
            for f in (v.fields or {}).values():
                r = walk(f, d - 1)
                if r is not None:
                    return r
            return None
        r = walk(getattr(v, 'self_obj', None), d - 1)
        if r is not None:
            return r
        e_ = getattr(v, 'env', None)
        while e_ is not None and hasattr(e_, 'vars'):
            for f in list(e_.vars.values()):
                r = walk(f, d - 1)
                if r is not None:
                    return r
            e_ = getattr(e_, 'parent', None)
        return None
    r = walk(cb, depth)
    return r if r is not None else (direct[0] if direct else None)


def fill_contract(rep):
    from mindsdb_sql.parser import ast
    fn = f'{UTILS}:fill_query_params'
    KW = {'is_table': False, 'is_target': False, 'parent_query': None}

    def body(ex, clo):
        traversal_recorder(ex)
        q = SymObj(None, 'query', prov='param')
        q.known_not_none = True
        params = SymSeq('params', lambda e, l: SymObj(None, l, prov='param'), prov='param')
        ex.assume(params.len >= 2)          # the count precondition established by execute_steps (C12.count)
        res = ex.call_closure(clo, [q, params], {})
        tr = [e for e in ex.log if e.kind == 'traverse']
        st = ex.path_state
        st.update(q=q, params=params, res=res, tr=tr, rets=[], nwrites=len(ex.writes))
        if len(tr) == 1:
            cb = tr[0].callback
            # the values the visitor consumes: whichever variable of its closure holds a copy of the caller's list (the name is not part of the contract)
            st['cp'] = _find_copy(cb, params)
            p1 = SymObj({ast.Parameter}, 'param1', prov='param')
            other = SymObj(None, 'other', prov='param')
            other.known_not_none = True
            other.neg = (ast.Parameter,)
            p2 = SymObj({ast.Parameter}, 'param2', prov='param')
            # `? AS name` / `(?)`: a placeholder carries an alias and parentheses like every other node
            al = SymObj({ast.Identifier}, 'param1.alias', prov='param')
            al.known_not_none = True
            al.fields['parts'] = [pysym.mk_str('param1.alias.name')]      # one part, as the grammar builds aliases
            p1.fields.update(value='?', alias=al, parentheses=pysym.mk_bool('param1.parentheses'))
            p2.fields.update(value='?', alias=None, parentheses=False)
            st['p1'], st['p2'] = p1, p2
            for n in (p1, other, p2):
                st['rets'].append(ex.call(cb, [n], dict(KW)))
        return res

    def post(ex, o):
        st = o.state
        if o.kind != 'return':
            return f'raises {o.value.__name__} (with at least two values supplied)'
        if o.value is not st['q']:
            return 'does not return the (in place filled) query'
        tr = st['tr']
        if len(tr) != 1 or tr[0].node is not st['q'] or tr[0].extra != ([], {}):
            return 'query_traversal is not called exactly once on the query'
        if any(w[0] is st['params'] for w in o.writes):
            return "the caller's params list is modified"
        cp = st.get('cp')
        if not isinstance(cp, SymSeq) or getattr(cp, 'copy_of', (None,))[0] is not st['params']:
            return f'the visitor does not consume a copy of params ({cp!r})'
        r1, r0, r2 = st['rets']
        if r0 is not None:
            return 'a non-Parameter node is replaced'
        for i, r in ((1, r1), (2, r2)):
            if not (isinstance(r, SymObj) and r.cls is ast.Constant):
                return f'Parameter #{i} is replaced by {r!r}, not a Constant'
        for i, r, p_ in ((1, r1, st['p1']), (2, r2, st['p2'])):
            # "plans exactly as the same statement with vi written in place of the i-th placeholder": what is written around the placeholder stays
            if r.fields.get('alias') is not p_.fields['alias']:
                return f"the alias of placeholder #{i} ({p_.fields['alias']!r}) is not carried over to the constant (alias {r.fields.get('alias')!r})"
            pa, ra = p_.fields['parentheses'], r.fields.get('parentheses')
            same = (pa is ra) or (isinstance(pa, SymVal) and isinstance(ra, SymVal) and ex.valid(pa.t == ra.t)[0]) or (not isinstance(pa, SymVal) and pa == ra)
            if not same:
                return f"the parentheses of placeholder #{i} are not carried over to the constant"
        v1, v2 = r1.fields.get('value'), r2.fields.get('value')
        lab1, lab2 = getattr(v1, 'label', ''), getattr(v2, 'label', '')
        if not (lab1.endswith('[0]') and lab2.endswith('[0]') and getattr(cp, 'popped', 0) == 2 and v1 is not v2):
            return f'values are not consumed front to back, one per Parameter: got {v1!r}, {v2!r}'
        return None
    outs, ex, bad = _explore(UTILS, 'fill_query_params', body)
    v = bad or _judge(outs, ex, post)
    _emit(rep, 'C12.fill', v, fn,
          "ensures the k-th Parameter shown to the visitor is replaced by Constant(copy(params)[k]) with the placeholder's alias and parentheses; other nodes kept; caller's list untouched; one traversal; returns query",
          replay=replay_fill)


def replay_fill():
    from mindsdb_sql import parse_sql
    from mindsdb_sql.planner.utils import fill_query_params, get_query_params
    sql = 'SELECT * FROM tab1 WHERE a = ? AND b = ? AND c IN (?, ?)'
    vals = [1, 0, '', 4]
    try:
        q = parse_sql(sql)
        n = len(get_query_params(q))
        given = list(vals)
        out = str(fill_query_params(q, given))
    except Exception as e:
        return {'input': sql, 'dialect': 'mindsdb', 'fires': True, 'observed': f'{type(e).__name__}: {e}'[:150], 'expected': "a = 1 AND b = 0 AND c IN ('', 4)"}
    ok = n == 4 and given == vals and "a = 1 AND b = 0 AND c IN ('', 4)" in out
    return {'input': f'{sql} with values {vals!r}', 'dialect': 'mindsdb', 'fires': not ok, 'observed': f'{n} placeholders found; filled: {out}; caller list afterwards {given!r}',
            'expected': "4 placeholders; ... a = 1 AND b = 0 AND c IN ('', 4); caller list unchanged"}


# ------------------------------------------------------------------ prepare / execute / info
def api_contracts(rep):
    from mindsdb_sql.exceptions import PlanningException
    from mindsdb_sql.parser import ast
    fnp = f'{PREP}:PreparedStatementPlanner.prepare_steps'

    def mk_planner(ex):
        planner = SymObj(None, 'planner', prov='param')
        planner.known_not_none = True
        planner.closed = True
        selfo = SymObj(None, 'self', prov='param')
        selfo.known_not_none = True
        selfo.fields['planner'] = planner
        return selfo, planner

    # prepare_steps
    def make_args(ex):
        selfo, planner = mk_planner(ex)
        q = SymObj(None, 'query', prov='param')
        q.known_not_none = True
        # a UNION's left operand is a SELECT or again a UNION (chains nest to the left): three levels, the innermost one a SELECT
        l1 = SymObj(None, 'query.left', prov='param')
        l2 = SymObj(None, 'query.left.left', prov='param')
        l3 = SymObj({ast.Select}, 'query.left.left.left', prov='param')
        for o_ in (l1, l2, l3):
            o_.known_not_none = True
        l1.fields['left'], l2.fields['left'] = l2, l3
        q.fields['left'] = l1
        found = SymSeq('found_params', lambda e, l: SymObj(None, l), prov='fresh')

        def gqp(ex_, a, k, node=None):
            ex_.log.append(Event('get_query_params', arg=a[0]))
            return found
        ex.stubs[(UTILS, 'get_query_params')] = gqp
        for name in ('prepare_select', 'prepare_show', 'prepare_insert'):
            selfo.fields[name] = Stub(lambda ex_, a, k, name=name: (ex_.log.append(Event(name, arg=a[0])), [])[1], name)
        ex.path_state.update(selfo=selfo, planner=planner, q=q, found=found)
        return [selfo, q], {}

    def post(ex, o):
        st = o.state
        if o.kind != 'return':
            return f'raises {o.value.__name__}'
        g = [e for e in o.log if e.kind == 'get_query_params']
        if len(g) != 1:
            return 'placeholders are not collected exactly once'
        arg = g[0].arg
        if arg is st['q'] or getattr(arg, 'copy_of', None) is not st['q']:
            return 'placeholders are not collected from a deep copy of the statement'
        if st['planner'].fields.get('query') is not st['q']:
            return 'planner.query is not the statement that was prepared'
        stmt = st['planner'].fields.get('statement')
        if not isinstance(stmt, SymObj) or stmt.fields.get('params') is not st['found']:
            return 'statement.params is not the collected placeholder list'
        return None
    v = pysym.verify(PREP, 'PreparedStatementPlanner.prepare_steps', make_args, post)
    _emit(rep, 'C12.prepare', v, fnp, 'ensures statement.params == get_query_params(deepcopy(query)) and planner.query is query')

    # execute_steps: count check and fill
    fne = f'{PREP}:PreparedStatementPlanner.execute_steps'

    def make_args2(ex):
        selfo, planner = mk_planner(ex)
        q = SymObj(None, 'stored_query', prov='param')
        q.known_not_none = True
        stmt = SymObj(None, 'statement', prov='param')
        stmt.known_not_none = True
        sp = SymSeq('stmt.params', lambda e, l: SymObj(None, l), prov='param')
        stmt.fields['params'] = sp
        planner.fields.update(statement=stmt, query=q)
        params = SymSeq('params', lambda e, l: SymObj(None, l), prov='param')
        filled = SymObj(None, 'filled_query', prov='fresh')
        filled.known_not_none = True

        def fqp(ex_, a, k, node=None):
            ex_.log.append(Event('fill_query_params', query=a[0], params=a[1]))
            return filled
        ex.stubs[(UTILS, 'fill_query_params')] = fqp
        selfo.fields['plan_query'] = Stub(lambda ex_, a, k: (ex_.log.append(Event('plan_query', query=a[0])), 'PLAN')[1], 'plan_query')
        ex.path_state.update(selfo=selfo, planner=planner, q=q, stmt=stmt, sp=sp, params=params, filled=filled)
        return [selfo], {'params': params}

    def post2(ex, o):
        st = o.state
        same, _ = ex.valid(st['params'].len == st['sp'].len, pc=o.pc)
        diff, _ = ex.valid(st['params'].len != st['sp'].len, pc=o.pc)
        fills = [e for e in o.log if e.kind == 'fill_query_params']
        if o.kind == 'raise':
            if not issubclass(o.value, PlanningException):
                return f'raises {o.value.__name__}'
            if not diff:
                return 'raises PlanningException although the number of values may equal the number of placeholders'
            if fills:
                return 'fills before rejecting'
            return None
        if not same:
            return 'proceeds although the number of values may differ from the number of placeholders'
        if len(fills) != 1 or fills[0].query is not st['q'] or fills[0].params is not st['params']:
            return f'does not fill the stored statement exactly once with the given values: {fills}'
        if st['planner'].fields.get('query') is not st['filled']:
            return 'planner.query is not the filled statement'
        pl = [e for e in o.log if e.kind == 'plan_query']
        if pl and pl[0].query is not st['filled']:
            return 'plans something else than the filled statement'
        return None
    v = pysym.verify(PREP, 'PreparedStatementPlanner.execute_steps', make_args2, post2)
    _emit(rep, 'C12.count', v, fne,
          'len(params) != len(statement.params) => raises PlanningException (nothing filled); else fill_query_params(planner.query, params) once and plan the result')

    # get_statement_info: one entry per placeholder
    fni = f'{PREP}:PreparedStatementPlanner.get_statement_info'

    def make_args3(ex):
        selfo, planner = mk_planner(ex)
        stmt = SymObj(None, 'statement', prov='param')
        stmt.known_not_none = True
        sp = SymSeq('stmt.params', lambda e, l: SymObj(None, l), prov='param')
        cols = SymSeq('stmt.columns', lambda e, l: _column(e, l), prov='param')
        stmt.fields.update(params=sp, columns=cols)
        planner.fields['statement'] = stmt
        ex.path_state.update(sp=sp)
        return [selfo], {}

    def post3(ex, o):
        if o.kind != 'return':
            return f'raises {o.value.__name__}'
        r = o.value
        ps = r.get('parameters') if isinstance(r, dict) else None
        if isinstance(ps, list) and ps == [] and o.state['sp'].nonempty is False:
            return None
        if not isinstance(ps, SymSeq) or ps.mapped is None or ps.mapped[0] is not o.state['sp']:
            return f'parameters = {ps!r} is not built element-wise from statement.params'
        if getattr(ps, 'prefix', None) or any(len(app) != 1 for _, app in ps.mapped[1]):
            return 'not exactly one entry per placeholder'
        return None
    v = pysym.verify(PREP, 'PreparedStatementPlanner.get_statement_info', make_args3, post3)
    _emit(rep, 'C12.info', v, fni, 'ensures len(result["parameters"]) == len(statement.params)')


def _column(ex, label):
    c = SymObj(None, label, prov='param')
    c.known_not_none = True
    t = SymObj(None, label + '.table', prov='param')
    t.fields.update(name=pysym.mk_str(label + '.table.name'), ds=pysym.mk_str(label + '.table.ds'))
    c.fields.update(table=t, alias=pysym.mk_str(label + '.alias'), type=pysym.mk_str(label + '.type'), name=pysym.mk_str(label + '.name'))
    return c


# ------------------------------------------------------------------ end-to-end oracle (bounded) and derived cases
TEMPLATES = {
    'update-set-where': "UPDATE t SET a = ?, b = ? WHERE c = ?",
    'join-subqueries': "SELECT * FROM (SELECT * FROM t1 WHERE a = ?) AS x JOIN (SELECT * FROM t2 WHERE b = ?) AS y ON x.id = y.id",
    'case-operand': "SELECT CASE ? WHEN 1 THEN 'x' ELSE 'y' END FROM t",
    'function-from-arg': "SELECT substring(a FROM ?) FROM t",
    'select-list-then-where': "SELECT ?, a FROM t WHERE b = ?",
    'limit': "SELECT a FROM t WHERE b = ? LIMIT ?",
    'in-list': "SELECT a FROM t WHERE b IN (?, ?, ?)",
    'between': "SELECT a FROM t WHERE b BETWEEN ? AND ?",
    'insert-values': "INSERT INTO t (a, b) VALUES (?, ?)",
    'where-then-group': "SELECT a FROM t WHERE b = ? GROUP BY a HAVING count(c) > ? ORDER BY a",
    'delete-where': "DELETE FROM t WHERE a = ? AND b = ?",
    'window': "SELECT sum(a + ?) OVER (PARTITION BY b) FROM t WHERE c = ?",
    'cte': "WITH c AS (SELECT a FROM t WHERE x = ?) SELECT a FROM c WHERE a = ?",
    'union': "SELECT a FROM t WHERE b = ? UNION SELECT a FROM u WHERE c = ?",
}


def prepared_vs_inline(sql, dialect='mindsdb'):
    """returns None if consistent, else a description. values are distinct integers 101, 102, ..."""
    from mindsdb_sql import parse_sql
    from mindsdb_sql.planner.utils import get_query_params, fill_query_params
    d = lrtab.load(dialect)
    toks = list(d.Lexer().tokenize(re.sub(r'[\s;]+$', '', sql)))
    qpos = [t.index for t in toks if t.type == 'PARAMETER' and sql[t.index] == '?']
    n = len(qpos)
    if n == 0:
        return None
    values = [101 + i for i in range(n)]
    inline = sql
    for pos, v in sorted(zip(qpos, values), reverse=True):
        inline = inline[:pos] + str(v) + inline[pos + 1:]
    try:
        want = parse_sql(inline, dialect=dialect)
        tree = parse_sql(sql, dialect=dialect)
    except Exception as e:
        return None          # not a statement of the dialect: outside the property
    found = get_query_params(tree)
    if len(found) != n:
        return f'{n} placeholders in the text, {len(found)} reported'
    try:
        filled = fill_query_params(tree, values)
    except Exception as e:
        return f'fill raises {type(e).__name__}: {e}'
    if _norm(filled) != _norm(want):
        return f'prepared+executed with {values} gives `{filled}`, inline gives `{want}`'
    return None


def _norm(tree):
    """printed tree with `- <number>` folded (the grammar folds a sign into a numeric literal but not into a placeholder)"""
    return re.sub(r'-\s+(\d)', r'-\1', ' '.join(str(tree).split()))


def classify(sql, dialect='mindsdb'):
    """case id for a failing statement: the slot of the first placeholder (in textual order) that is unseen or bound
    out of order by the walker"""
    from mindsdb_sql import parse_sql
    from mindsdb_sql.parser import ast
    from mindsdb_sql.planner.utils import query_traversal
    tree = parse_sql(sql, dialect=dialect)
    seen = []

    def cb(node, **kw):
        if isinstance(node, ast.Parameter):
            seen.append(id(node))
            return node
    query_traversal(tree, cb)
    owners = {}
    for path, n in corpus.walk_nodes(tree):
        for k, v in vars(n).items():
            for c in _kids(v):
                if isinstance(c, ast.Parameter):
                    owners[id(c)] = f'{type(n).__name__}.{k}'
    unseen = [o for i, o in owners.items() if i not in seen]
    if unseen:
        return 'unseen.' + sorted(unseen)[0]
    if any(isinstance(n, ast.Parameter) and (n.alias is not None or n.parentheses) for p, n in corpus.walk_nodes(tree)):
        return 'alias-or-parentheses-of-placeholder-dropped'
    return 'order.' + '+'.join(sorted({type(n).__name__ for p, n in corpus.walk_nodes(tree) if type(n).__name__ in ('Join', 'Update', 'Select', 'Insert', 'Union')}))


def _kids(v):
    from mindsdb_sql.parser.ast.base import ASTNode
    if isinstance(v, ASTNode):
        return [v]
    if isinstance(v, (list, tuple)):
        return [y for x in v for y in _kids(x)]
    if isinstance(v, dict):
        return [y for x in v.values() for y in _kids(x)]
    return []


def placeholderise(sql, dialect):
    """turn the literals of a statement into `?` placeholders (token level)"""
    d = lrtab.load(dialect)
    try:
        toks = list(d.Lexer().tokenize(sql))
    except Exception:
        return None
    lits = [t for t in toks if t.type in ('INTEGER', 'QUOTE_STRING', 'FLOAT')]
    if not lits or len(lits) > 6:
        return None
    out = sql
    for t in sorted(lits, key=lambda t: -t.index):
        out = out[:t.index] + '?' + out[t.end:]
    return out


HISTORY_STATEMENTS = [
    ('insert', 'insert into int.tab (a, b) values (?, ?)', [1, 2], [3, 4]),
    ('delete', 'delete from int.tab where a = ? and b = ?', [1, 2], [3, 4]),
    ('select', 'select a, b from int.tab where a = ? and b > ?', [1, 2], [3, 4]),
    ('select-default', 'select a, b from tab where a = ? and b > ?', [1, 2], [3, 4]),
    ('update', 'update int.tab set a = ? where b = ?', [1, 2], [3, 4]),
    ('union', 'select a from int.tab where a = ? union select a from int.tab2 where b = ?', [1, 2], [3, 4]),
    ('union-all-second-arm', 'select a from int.tab union all select a from int.tab2 where b = ?', [1], [3]),
    ('union-three', 'select a from int.tab where a = ? union select a from int.tab2 where b = ? union select a from int.tab3 where c = ?', [1, 2, 3], [4, 5, 6]),
    ('select-subquery', 'select a from int.tab where a in (select b from int.tab2 where c = ?) and d = ?', [1, 2], [3, 4]),
    ('insert-select', 'insert into int.tab (a) select b from int.tab2 where c = ?', [1], [3]),
]


def _prepared_run(planner, query, calls):
    """drives prepare_steps + a sequence of execute_steps calls with the repository's own FakeExecutor; returns one outcome per call:
    list of step reprs, or ('raises', exception class name)"""
    from tests.test_planner.test_prepared_statement import FakeExecutor
    ex_ = FakeExecutor()
    for st_ in planner.prepare_steps(query):
        st_.set_result(ex_.execute(st_))
    outs = []
    for vals in calls:
        try:
            steps = []
            for st_ in planner.execute_steps(list(vals)):
                st_.set_result(ex_.execute(st_))
                steps.append(repr(st_))
            outs.append(steps)
        except Exception as e:
            outs.append(('raises', type(e).__name__))
    return outs


def history_problems():
    """prepare/execute call sequences on one planner: (i) a second execute with other values either is refused or plans with the NEW values (what a fresh
    prepare + execute of those values gives) - never with the old ones; (ii) an execute that is refused for a wrong number of values leaves the statement
    as it was: the following correct execute plans exactly as if the refused call had not happened"""
    from mindsdb_sql import parse_sql
    from mindsdb_sql.planner.query_planner import QueryPlanner
    kw = dict(integrations=['int', 'int2'], predictor_metadata=[], default_namespace='mindsdb')
    out = []
    for name, sql, v1, v2 in HISTORY_STATEMENTS:
        try:
            fresh1 = _prepared_run(QueryPlanner(**kw), parse_sql(sql), [v1])[0]
            fresh2 = _prepared_run(QueryPlanner(**kw), parse_sql(sql), [v2])[0]
            seq = _prepared_run(QueryPlanner(**kw), parse_sql(sql), [v1, v2])
            # every wrong number of values 0 .. n+2 (the empty list included), each followed by a correct call
            rejs = {}
            for k in range(0, len(v1) + 3):
                if k != len(v1):
                    rejs[k] = _prepared_run(QueryPlanner(**kw), parse_sql(sql), [(v1 + [9, 9])[:k], v1])
        except ImportError:
            return out
        except Exception as e:
            out.append((f'reexecute.{name}', sql, f'driver failed: {type(e).__name__}: {e}'))
            continue
        if isinstance(fresh1, tuple) or isinstance(fresh2, tuple):
            bad_ = fresh1 if isinstance(fresh1, tuple) else fresh2
            if bad_[1] in ('PlanningException', 'IndexError', 'KeyError', 'AttributeError', 'TypeError'):
                # one value per `?` of the text is the right number: being refused (or crashing) means the placeholders were miscounted
                out.append((f'count.correct-number-refused.{name}', sql, f'execute with one value per placeholder ({len(v1)}): {bad_}'))
            continue
        if seq[0] != fresh1:
            out.append((f'first-execute.{name}', sql, f'first execute plans {seq[0]}, a fresh prepare+execute plans {fresh1}'))
        if not isinstance(seq[1], tuple) and seq[1] != fresh2:
            out.append((f'reexecute.{name}', sql, f'second execute with {v2} plans {str(seq[1])[:200]}; a fresh prepare+execute of these values plans {str(fresh2)[:200]}'))
        for tag, r in [(('too-few' if k < len(v1) else 'too-many') + ('.none' if k == 0 else ('' if abs(k - len(v1)) == 1 else f'.{k}')), r_) for k, r_ in rejs.items()]:
            if not (isinstance(r[0], tuple) and r[0][1] == 'PlanningException'):
                out.append((f'count.{tag}.{name}', sql, f'execute with a wrong number of values: {r[0]}'))
            elif r[1] != fresh1:
                out.append((f'atomic.{tag}.{name}', sql, f'after a refused execute the correct execute gives {str(r[1])[:200]}, expected {str(fresh1)[:200]}'))
    return out


def bounded(rep, tier):
    n = 0
    seen_cases = set()
    for cid, sql, msg in history_problems():
        rep.add_bounded(Bounded(f'C12.bounded.history.{cid}', False, sql, msg, 'the plan of a fresh prepare + execute with the same values', bound='prepare/execute sequences'))
    n += 5 * len(HISTORY_STATEMENTS)
    for name, sql in TEMPLATES.items():
        n += 1
        r = prepared_vs_inline(sql)
        if r:
            rep.add_bounded(Bounded(f'C12.tmpl.{name}', False, sql, r, 'same tree as the inline statement', bound='templates'))
    cands = []
    for dn in (['mindsdb'] if tier == 'quick' else list(lrtab.DIALECTS)):
        for src, sql, tree in corpus.parsed(dn):
            if type(tree).__name__ not in ('Select', 'Union', 'Insert', 'Update', 'Delete'):
                continue
            q = placeholderise(sql, dn)
            if q:
                cands.append((dn, q))
    for dn, q in cands:
        n += 1
        try:
            r = prepared_vs_inline(q, dn)
        except Exception as e:
            r = f'{type(e).__name__}: {e}'
        if r:
            try:
                case = classify(q, dn)
            except Exception as e:
                case = 'unclassified'
            cid = f'C12.corpus.{case}'
            if cid not in seen_cases:
                seen_cases.add(cid)
                rep.add_bounded(Bounded(cid, False, q, r, 'same tree as the inline statement', bound='corpus statements with literals -> ?'))
    rep.bounded_evals = n
    rep.bounded_rule = ('placeholder templates for every expression position named by the property + every SELECT/UNION/INSERT/UPDATE/DELETE of the '
                        'corpus with its literals replaced by `?`; oracle: get_query_params count == number of `?`, and fill(values) prints the same '
                        'tree as the text with the i-th `?` replaced by the i-th value; failing corpus statements are grouped by the slot of the '
                        'first unseen / mis-ordered placeholder')



def walker_dependency(rep, tier):
    """C12 relies on the contract of query_traversal (C13). The walker obligations are re-evaluated here; a failure that is not a known finding of C13
    is reported under this property too, because the rewrite / binding built on the walker is then no longer covered by the argument above."""
    from contracts import C13
    sub = type(rep)('C13', tier, C13.LEVEL)
    C13.check(sub, tier)
    n_ok = sum(1 for o in sub.obs if o.status == PROVED)
    bad = sub.unlisted_failures()
    und = [o for o in sub.obs if o.status == UNDECIDED]
    for x in bad:
        oid = 'C12.walker.' + x.id.split('.', 1)[1]
        if hasattr(x, 'status'):
            rep.failed(oid, x.engine, x.detail, function=x.function, clause=x.clause, replay=x.replay)
        else:
            rep.add_bounded(Bounded(oid, False, x.input, x.observed, x.expected, bound=x.bound))
    for o in und:
        rep.undecided('C12.walker.' + o.id.split('.', 1)[1], o.engine, o.detail, function=o.function)
    if not bad and not und:
        rep.proved('C12.walker', 'pysym', f'{n_ok} walker obligations of C13 hold (its {len(sub.obs) - n_ok} listed findings concern slots this property does not use)',
                   function='mindsdb_sql.planner.utils:query_traversal', clause='the visitor is applied once to every node reachable through the slots this property uses; replacements land in place')

def wrapper_contracts(rep):
    """the public entry points on QueryPlanner hand their argument, unchanged, to the method of the same name of a PreparedStatementPlanner built on
    this planner, and return what it returns"""
    QP = 'mindsdb_sql.planner.query_planner'
    for meth, nargs in (('prepare_steps', 1), ('execute_steps', 1), ('get_statement_info', 0)):
        for variant in (['value'] if nargs == 0 else ['value', 'empty-list', 'none']):
            def make_args(ex, meth=meth, nargs=nargs, variant=variant):
                selfo = SymObj(None, 'self', prov='param')
                selfo.known_not_none = True
                calls = []
                result = SymObj(None, 'result', prov='fresh')

                def ctor(ex_, a, k, node=None):
                    sp = SymObj(None, 'statement_planner', prov='fresh')
                    sp.known_not_none = True
                    sp.ctor_args = (list(a), dict(k))
                    for m_ in ('prepare_steps', 'execute_steps', 'get_statement_info'):
                        sp.fields[m_] = Stub(lambda e_, a_, k_, m_=m_: (calls.append((m_, list(a_), dict(k_))), result)[1], m_)
                    calls.append(('ctor', list(a), dict(k)))
                    return sp
                ex.stubs[(QP, 'PreparedStatementPlanner')] = ctor
                ex.stubs[('mindsdb_sql.planner.query_prepare', 'PreparedStatementPlanner')] = ctor
                arg = {'value': SymObj(None, 'arg', prov='param'), 'empty-list': [], 'none': None}[variant]
                if variant == 'value':
                    arg.known_not_none = True
                ex.path_state.update(calls=calls, result=result, arg=arg, selfo=selfo)
                return [selfo] + ([arg] if nargs else []), {}

            def post(ex, o, meth=meth, nargs=nargs):
                st = o.state
                if o.kind != 'return':
                    return f'raises {o.value.__name__}'
                calls = st['calls']
                ct = [c for c in calls if c[0] == 'ctor']
                ms = [c for c in calls if c[0] != 'ctor']
                if len(ct) != 1 or len(ct[0][1]) != 1 or ct[0][1][0] is not st['selfo'] or ct[0][2]:
                    return f'the statement planner is not built on this planner: {ct!r}'
                if len(ms) != 1 or ms[0][0] != meth:
                    return f'delegates to {[c[0] for c in ms]}, expected {meth}'
                a, k = ms[0][1], ms[0][2]
                if nargs:
                    got = a[0] if a else (list(k.values())[0] if k else '<nothing>')
                    if len(a) + len(k) != 1 or got is not st['arg']:
                        return f'the argument is not handed over unchanged: given {st["arg"]!r}, passed {got!r}'
                elif a or k:
                    return f'passes arguments {a!r} {k!r}'
                if o.value is not st['result']:
                    return f'returns {o.value!r}, not the result of the delegate'
                return None
            v = pysym.verify(QP, f'QueryPlanner.{meth}', make_args, post)
            oid = f'C12.api.wrapper.{meth}' + ('' if variant == 'value' else f'.{variant}')
            _emit(rep, oid, v, f'{QP}:QueryPlanner.{meth}', 'ensures result == PreparedStatementPlanner(self).<same method>(argument), argument identical (an empty list stays an empty list)')


def check(rep, tier):
    from vlib import statecensus
    statecensus.obligations(rep, 'C12', 'planner')
    walker_dependency(rep, tier)
    rep.dropped = 'function bodies read with ast.parse; nested visitor functions are closures executed by pysym; docstrings/comments dropped'
    rep.assume('C13 contract of query_traversal (the visitor is applied once per node in textual order) for node kinds where C13 proves it',
               'copy.deepcopy returns a structure-equal fresh copy', 'PreparedStatementPlanner.plan_query plans the statement it is given')
    rep.trust('pysym executor', 'token positions of `?` from the real lexer in the replay oracle')
    collect_contract(rep)
    fill_contract(rep)
    api_contracts(rep)
    wrapper_contracts(rep)
    bounded(rep, tier)
    rep.notes.append('Callback/API contracts proved for all statements and value lists; ordering inherits C13.')
