"""C09 — every emitted plan is a well-formed, forward-only dataflow program.

Deductive core (numbering discipline):
  num.add_step      steps' == steps ++ [step]; an un-numbered step gets number len(steps); returns the step
  result            PlanStep.result == Result(step_num); raises PlanningException when un-numbered
  disc.*            (frames, whole repository) Result(...) is constructed only by PlanStep.result; plan.steps is mutated only by
                    add_step's append; step_num is stored only by PlanStep.__init__ / add_step / add_step_to_partition; no step is
                    constructed with a preset step_num
  Lemma (from these): a Result(k) can only be obtained from a step that add_step already numbered k, i.e. that is at position k
  of the list; a step embedding it is appended later, so it sits at a position > k.  Sub-steps of containers are the exception
  (they are numbered but not appended) — partition.* obligations.
Bounded stand-in: the invariant checked on the plans of the generated query x catalog family and of every planner call made
by the repository's planner tests; exception classes checked."""
import ast, os
import z3
from vlib import repo, pysym, frames, plans
from vlib.core import PROVED, FAILED, UNDECIDED, Bounded
from vlib.pysym import SymObj, SymSeq, SymVal, Stub, Event, Unsupported, PathLimit

LEVEL = 'other'
MANIFEST = {
    'engine': 'pysym+frames',
    'level': 'other',
    'technique': 'contracts on add_step / PlanStep.result / partition helpers / add_plan_step placement / plan_query freshness by symbolic execution + repository-wide write-discipline census; invariant monitor over generated and harvested plans',
    'text': 'The numbering invariant is proved from the contract of add_step (all list lengths) and a whole-repository discipline census, '
            'which together imply that a top-level Result always points to an earlier step; container sub-steps are covered by the '
            'partition obligations (one genuine defect: a map-reduce container placed before steps its sub-steps consume — known finding). '
            'Exception-freedom of the whole planner is not proved; it is monitored on the bounded scenario family.',
    'note': 'Assumed: steps are only ever placed into a plan through QueryPlan.add_step (proved by census, by attribute name); the lemma '
            'connecting the discipline to forward-only references is a paper argument recorded in the evidence. Bounded: generated '
            'joins/sub-selects/unions/DML/model joins x 5 catalog shapes + all planner calls of tests/test_planner.',
}


def _emit(rep, oid, v, fn, clause, replay=None):
    if v.status == PROVED:
        rep.proved(oid, 'pysym', v.detail, function=fn, seconds=v.seconds, clause=clause)
    elif v.status == FAILED:
        rep.failed(oid, 'pysym', v.detail, function=fn, seconds=v.seconds, clause=clause, cex=v.cex, replay=replay() if replay else None)
    else:
        rep.undecided(oid, 'pysym', v.detail, function=fn, seconds=v.seconds, clause=clause)


def mods():
    return [m for m in repo.all_repo_modules() if m.startswith('mindsdb_sql')]


def contracts(rep):
    from mindsdb_sql.planner.query_plan import QueryPlan
    from mindsdb_sql.planner.steps import PlanStep, ProjectStep
    from mindsdb_sql.planner.step_result import Result
    from mindsdb_sql.exceptions import PlanningException

    # ---- add_step
    for case in ('unnumbered', 'zero', 'preset'):
        def make_args(ex, case=case):
            plan = SymObj({QueryPlan}, 'plan', prov='param')
            steps = SymSeq('plan.steps', lambda e, l: SymObj(None, l, prov='param'), prov='param')
            plan.fields['steps'] = steps
            step = SymObj({ProjectStep}, 'step', prov='param')
            if case == 'unnumbered':
                step.fields['step_num'] = None
            elif case == 'zero':
                step.fields['step_num'] = 0
            else:
                k = pysym.mk_str('preset_num')         # partition sub-step ids are strings 'i_k'
                ex.assume(z3.Length(k.t) > 0)
                step.fields['step_num'] = k
            ex.path_state.update(plan=plan, steps=steps, step=step, n0=steps.len)
            return [plan, step], {}

        def post(ex, o, case=case):
            st = o.state
            if o.kind != 'return':
                return f'raises {o.value.__name__}'
            if o.value is not st['step']:
                return f'returns {o.value!r}, not the step that was added'
            s = st['plan'].fields['steps']
            if s is not st['steps'] or s.suffix != [st['step']] or getattr(s, 'popped', 0):
                return f'plan.steps is not old ++ [step] (suffix {s.suffix!r})'
            num = st['step'].fields['step_num']
            if case in ('unnumbered', 'zero'):
                if not isinstance(num, SymVal):
                    return f'an un-numbered step gets number {num!r}'
                ok, _ = ex.valid(num.t == st['n0'], pc=o.pc)
                if not ok:
                    return 'an un-numbered step does not get its list position as number'
            else:
                if not (isinstance(num, SymVal) and num.sort == 'str'):
                    return 'a preset number is overwritten'
            for (obj, attr, old, new, kind) in o.writes:
                if obj is st['plan'] or (obj is st['step'] and attr != 'step_num'):
                    return f'writes {obj}.{attr}'
            return None
        v = pysym.verify('mindsdb_sql.planner.query_plan', 'QueryPlan.add_step', make_args, post)
        _emit(rep, f'C09.num.add_step.{case}', v, 'mindsdb_sql.planner.query_plan:QueryPlan.add_step',
              'ensures steps == old(steps) ++ [step] and result is step and (not old(step.step_num) => step.step_num == len(old(steps))); modifies steps, step.step_num only')

    # ---- PlanStep.result
    for case in ('numbered', 'none'):
        def make_args(ex, case=case):
            step = SymObj({ProjectStep}, 'step', prov='param')
            n = pysym.mk_int('step_num')
            step.fields['step_num'] = n if case == 'numbered' else None
            ex.path_state.update(n=n)
            return [step], {}

        def post(ex, o, case=case):
            if case == 'none':
                if o.kind == 'raise' and issubclass(o.value, PlanningException):
                    return None
                return f'un-numbered step: {o.kind} {o.value!r} instead of PlanningException'
            if o.kind != 'return':
                return f'raises {o.value.__name__}'
            r = o.value
            if not (isinstance(r, SymObj) and r.cls is Result and r.fields.get('step_num') is o.state['n']):
                return f'result is {r!r}, not Result(step_num)'
            return None
        fd = repo.find_function('mindsdb_sql.planner.steps', 'PlanStep.result')
        v = pysym.verify('mindsdb_sql.planner.steps', 'PlanStep.result', make_args, post)
        _emit(rep, f'C09.result.{case}', v, 'mindsdb_sql.planner.steps:PlanStep.result', 'ensures result == Result(self.step_num); step_num is None => raises PlanningException')

    # ---- QueryPlan.__init__ adds given steps through add_step
    def make_args_init(ex):
        plan = SymObj({QueryPlan}, 'plan', prov='fresh')
        given = SymSeq('given_steps', lambda e, l: SymObj(None, l, prov='param'), prov='param')

        def add(ex_, a, k, node=None):
            ex_.log.append(Event('add_step', plan=a[0], step=a[1]))
            return a[1]
        ex.stubs[('mindsdb_sql.planner.query_plan', 'QueryPlan.add_step')] = add
        ex.path_state.update(plan=plan, given=given)
        return [plan], {'steps': given}

    def post_init(ex, o):
        if o.kind != 'return':
            return f'raises {o.value.__name__}'
        s = o.state['plan'].fields.get('steps')
        if s != []:
            return f'steps initialised to {s!r}'
        fe = [e for e in o.log if e.kind == 'ForEach']
        if o.state['given'].nonempty is False:
            return None
        if len(fe) != 1 or fe[0].seq is not o.state['given']:
            return 'given steps are not added one by one'
        for ch, evs in fe[0].paths:
            if [e.kind for e in evs] != ['add_step']:
                return 'a given step bypasses add_step'
        return None
    v = pysym.verify('mindsdb_sql.planner.query_plan', 'QueryPlan.__init__', make_args_init, post_init)
    _emit(rep, 'C09.num.init', v, 'mindsdb_sql.planner.query_plan:QueryPlan.__init__', 'ensures steps start empty and every given step goes through add_step, in order')

    # ---- partition helpers
    from mindsdb_sql.planner.plan_join import PlanJoinTablesQuery
    from mindsdb_sql.planner.steps import MapReduceStep

    def make_args_part(ex):
        selfo = SymObj(None, 'self', prov='param')
        selfo.known_not_none = True
        part = SymObj({MapReduceStep}, 'partition', prov='param')
        part.fields['step_num'] = pysym.mk_int('container_num')
        sub = SymSeq('partition.step', lambda e, l: SymObj(None, l, prov='param'), prov='param')
        part.fields['step'] = sub
        selfo.fields['partition'] = part
        step = SymObj(None, 'substep', prov='param')
        step.known_not_none = True
        step.fields['step_num'] = None
        ex.path_state.update(part=part, sub=sub, step=step, n0=sub.len)
        return [selfo, step], {}

    def post_part(ex, o):
        st = o.state
        if o.kind != 'return':
            return f'raises {o.value.__name__}'
        if st['sub'].suffix != [st['step']]:
            return 'sub-step not appended to the container'
        num = st['step'].fields['step_num']
        if not (isinstance(num, SymVal) and num.sort == 'str'):
            return f'sub-step number is {num!r}'
        want = z3.Concat(z3.IntToStr(z3.Int('container_num')), z3.StringVal('_'), z3.IntToStr(st['n0']))
        ok, _ = ex.valid(z3.Implies(z3.And(z3.Int('container_num') >= 0, st['n0'] >= 0), num.t == want), pc=o.pc)
        if not ok:
            return 'sub-step number is not "<container>_<position in container>"'
        return None
    v = pysym.verify('mindsdb_sql.planner.plan_join', 'PlanJoinTablesQuery.add_step_to_partition', make_args_part, post_part)
    _emit(rep, 'C09.partition.number', v, 'mindsdb_sql.planner.plan_join:PlanJoinTablesQuery.add_step_to_partition',
          'ensures step.step_num == f"{container.step_num}_{len(old(container.step))}" and container.step == old ++ [step]')


def placement(rep):
    """add_plan_step decides whether a step lives inside the open map-reduce container or in the plan. From the property: a step built while the
    container is open that consumes the running result (JoinStep / ApplyPredictorStep take the top of the step stack, which is a sub-step) must go into
    the container; any other step must not be placed at top level while the container it may depend on is still open."""
    from mindsdb_sql.planner.steps import MapReduceStep, JoinStep, ApplyPredictorStep, FetchDataframeStep
    from mindsdb_sql.planner.plan_join import PlanJoinTablesQuery
    fn = 'mindsdb_sql.planner.plan_join:PlanJoinTablesQuery.add_plan_step'
    for kind, K in (('join', JoinStep), ('apply', ApplyPredictorStep), ('fetch', FetchDataframeStep)):
        for part_open in (True, False):
            for psize in (False, True):
                tag = f'{kind}.{"open" if part_open else "closed"}.{"size" if psize else "nosize"}'

                def make_args(ex, K=K, part_open=part_open, psize=psize):
                    selfo = SymObj({PlanJoinTablesQuery}, 'self', prov='param')      # new helper methods resolve on the real class
                    selfo.known_not_none = True
                    log = []
                    if part_open:
                        part = SymObj({MapReduceStep}, 'partition', prov='param')
                        part.known_not_none = True
                        part.fields['step_num'] = pysym.mk_int('container_num')
                        part.fields['step'] = ex.param_container([SymObj(None, 'sub0', prov='param')])
                        selfo.fields['partition'] = part
                    else:
                        selfo.fields['partition'] = None
                    step = SymObj({K}, 'step', prov='param')
                    step.known_not_none = True
                    step.fields['dataframe'] = SymObj(None, 'dataframe', prov='param')
                    step.fields['step_num'] = None
                    if K is JoinStep:
                        from mindsdb_sql.parser.ast import Join
                        jq = SymObj({Join}, 'step.query', prov='param')
                        jq.known_not_none = True
                        jq.fields.update(join_type=pysym.mk_str('join_type'), condition=None, implicit=False)
                        step.fields['query'] = jq
                    selfo.fields['add_step_to_partition'] = Stub(lambda ex_, a, k: log.append(('partition', a[0])), 'add_step_to_partition')
                    selfo.fields['close_partition'] = Stub(lambda ex_, a, k: log.append(('close', None)), 'close_partition')
                    planner = SymObj(None, 'planner', prov='param')
                    planner.known_not_none = True
                    pl = SymObj(None, 'plan', prov='param')
                    pl.known_not_none = True
                    pl.fields['add_step'] = Stub(lambda ex_, a, k: (log.append(('plan', a[0])), a[0])[1], 'plan.add_step')
                    planner.fields['plan'] = pl
                    selfo.fields['planner'] = planner
                    ex.path_state.update(log=log, step=step)
                    kw = {'partition_size': pysym.mk_int('partition_size')} if psize else {}
                    return [selfo, step], kw

                def post(ex, o, kind=kind, part_open=part_open, psize=psize):
                    if o.kind != 'return':
                        return f'raises {getattr(o.value, "__name__", o.value)}'
                    log, step = o.state['log'], o.state['step']
                    where = [w for w, x in log if x is step]
                    if len(where) != 1:
                        return f'the step is placed {len(where)} times ({[w for w, _ in log]})'
                    if part_open and kind in ('join', 'apply') and where != ['partition']:
                        return 'a join / model application built while the map-reduce container is open is placed at the top level of the plan: it consumes a sub-step result that exists only inside the container'
                    if part_open and kind == 'fetch':
                        i = [j for j, (w, x) in enumerate(log) if x is step][0]
                        if where == ['plan'] and ('close', None) not in log[:i]:
                            return 'a step is placed at top level while the container is still open (steps added to the container afterwards can consume it: forward reference inside the container)'
                    if not part_open and psize:
                        kinds_ = [w for w, _ in log]
                        if kinds_[:2] != ['plan', 'partition'] or where != ['partition'] or type(log[0][1]).__name__ != 'SymObj' or log[0][1].cls is not MapReduceStep:
                            return f'partition_size given: expected a new MapReduceStep in the plan and the step inside it, got {kinds_}'
                    if not part_open and not psize and where != ['plan']:
                        return 'without a container the step belongs to the plan'
                    return None
                v = pysym.verify('mindsdb_sql.planner.plan_join', 'PlanJoinTablesQuery.add_plan_step', make_args, post)
                sql = {'join': 'SELECT * FROM int1.tbl1 AS t RIGHT JOIN mindsdb.pred AS m USING partition_size = 10',
                       'apply': 'SELECT * FROM int1.tbl1 AS t JOIN mindsdb.pred AS m JOIN proj.pred2 AS m2 USING partition_size = 10',
                       'fetch': 'SELECT * FROM int1.tbl1 AS t JOIN mindsdb.pred AS m JOIN int2.tbl2 AS t2 ON t2.id = t.id USING partition_size = 10'}[kind]
                _emit(rep, f'C09.partition.place.{tag}', v, fn,
                      'ensures the step is placed exactly once; container open and step in {JoinStep, ApplyPredictorStep} => inside the container; nothing is placed at top level while the container stays open; partition_size => new container first',
                      replay=lambda sql=sql: replay_plan(sql))


def replay_plan(sql):
    try:
        sc = {'source': 'replay', 'sql': sql, 'catalog': 'names'}
        q, pl, plan, e, kw = plans.run_scenario(sc)
        if e is not None:
            return {'input': sql, 'dialect': 'mindsdb', 'fires': False, 'observed': f'{type(e).__name__}: {e}'[:120]}
        probs = check_plan(plan)
        return {'input': sql, 'dialect': 'mindsdb', 'fires': bool(probs), 'observed': '; '.join(m for _, m in probs)[:300] or 'plan is well-formed', 'expected': 'forward-only plan'}
    except Exception as e:
        return {'input': sql, 'dialect': 'mindsdb', 'fires': False, 'observed': f'{type(e).__name__}: {e}'[:120]}


def fresh_planner(rep):
    """plan_query plans each query with a planner allocated in the call: per-planner state (cte_results, step stacks, query context) can then not
    carry Results of an earlier plan into this one"""
    fn = 'mindsdb_sql.planner:plan_query'

    def make_args(ex):
        made = []

        def ctor(ex_, a, k, node=None):
            pl = SymObj(None, ex_.fresh_name('planner'), prov='fresh')
            pl.known_not_none = True
            res = SymObj(None, ex_.fresh_name('plan'), prov='fresh')

            def from_query(ex2, a2, k2):
                ex2.log.append(Event('from_query', planner=pl, args=list(a2), kwargs=dict(k2)))
                return res
            pl.fields['from_query'] = Stub(from_query, 'from_query')
            made.append((pl, list(a), dict(k), res))
            return pl
        ex.stubs[('mindsdb_sql.planner.query_planner', 'QueryPlanner')] = ctor
        q = SymObj(None, 'query', prov='param')
        q.known_not_none = True
        cat = SymObj(None, 'integrations', prov='param')
        ex.path_state.update(made=made, q=q)
        return [q], {'integrations': cat, 'default_namespace': pysym.mk_str('default_namespace')}

    def post(ex, o):
        if o.kind != 'return':
            return f'raises {getattr(o.value, "__name__", o.value)}'
        made = o.state['made']
        calls = [e for e in o.log if e.kind == 'from_query']
        if len(made) != 1 or len(calls) != 1 or calls[0].planner is not made[0][0]:
            return f'{len(made)} planner(s) constructed, {len(calls)} from_query call(s): the plan is not produced by a planner created for this call'
        q = o.state['q']
        if not ((made[0][1][:1] == [q]) or calls[0].args[:1] == [q] or calls[0].kwargs.get('query') is q):
            return 'the query does not reach the planner'
        if o.value is not made[0][3]:
            return 'the plan returned is not the one produced by from_query'
        for (obj, attr, old, new, kind) in o.writes:
            if ex.prov(obj) in ('global',) or (isinstance(obj, SymObj) and obj.prov not in ('fresh',)):
                return f'writes shared state: {obj!r}.{attr}'
        return None
    v = pysym.verify('mindsdb_sql.planner', 'plan_query', make_args, post)
    _emit(rep, 'C09.fresh.plan_query', v, fn, 'ensures the plan is produced by exactly one QueryPlanner allocated in this call, for this query; modifies nothing shared', replay=replay_history)


HISTORY = [
    ['WITH recent AS (SELECT * FROM int1.tbl1 WHERE a > 1) SELECT * FROM recent r JOIN int2.tbl2 t ON r.id = t.id', 'SELECT * FROM recent WHERE id > 5', 'SELECT * FROM recent r JOIN int2.tbl2 t ON r.id = t.id'],
    ['SELECT * FROM int1.tbl1 AS t JOIN mindsdb.pred AS m USING partition_size = 10', 'SELECT * FROM int1.tbl1 AS t JOIN int2.tbl2 AS t2 ON t.id = t2.id'],
    ['SELECT * FROM int1.tbl1 t1 JOIN int2.tbl2 t2 ON t1.id = t2.id WHERE t1.a = 1 LIMIT 3', 'SELECT * FROM int1.tbl1 t1 JOIN int2.tbl2 t2 ON t1.id = t2.id'],
]


def history_problems():
    """plans every query of each sequence through plan_query with one and the same catalog object; each plan must be well-formed and equal to the plan the
    query gets when it is the first and only query of a fresh catalog"""
    import copy as _copy
    from mindsdb_sql import parse_sql
    from mindsdb_sql.planner import plan_query
    out = []
    for seq in HISTORY:
        kw = _copy.deepcopy(plans.catalogs()['names'])
        for sql in seq:
            try:
                p = plan_query(parse_sql(sql), **kw)
                alone = plan_query(parse_sql(sql), **_copy.deepcopy(plans.catalogs()['names']))
            except Exception as e:
                continue
            for kind, msg in check_plan(p):
                out.append((sql, f'after {seq[:seq.index(sql)]}: {msg}'))
            if [repr(s_) for s_ in p.steps] != [repr(s_) for s_ in alone.steps]:
                out.append((sql, f'after {seq[:seq.index(sql)]} the plan differs from the plan of the same query planned alone: {[repr(s_)[:60] for s_ in p.steps][:3]}'))
    return out


def replay_history():
    try:
        probs = history_problems()
    except Exception as e:
        return {'input': 'plan_query sequences', 'dialect': 'mindsdb', 'fires': False, 'observed': f'{type(e).__name__}: {e}'[:120]}
    if probs:
        return {'input': probs[0][0], 'dialect': 'mindsdb', 'fires': True, 'observed': probs[0][1][:300], 'expected': 'the plan of the query planned alone'}
    return {'input': 'plan_query sequences', 'dialect': 'mindsdb', 'fires': False, 'observed': 'every plan equals the plan of the query planned alone'}


def discipline(rep):
    fn = '(whole repository: mindsdb_sql/**)'
    sites = frames.calls_of('Result', mods())
    bad = [s for s in sites if s.where != 'mindsdb_sql.planner.steps:PlanStep.result']
    (rep.failed if bad else rep.proved)('C09.disc.result', 'frames', f'Result(...) constructed at: {bad or sites}', function=fn,
                                        clause='Result objects are constructed only by PlanStep.result')
    muts = frames.attr_mutations('steps', mods())
    stores = frames.attr_stores('steps', mods())
    ok_m = {'mindsdb_sql.planner.query_plan:QueryPlan.add_step'}
    ok_s = {'mindsdb_sql.planner.query_plan:QueryPlan.__init__', 'mindsdb_sql.planner.steps:MultipleSteps.__init__'}
    bad = [s for s in muts if s.where not in ok_m] + [s for s in stores if s.where not in ok_s]
    (rep.failed if bad else rep.proved)('C09.disc.steps', 'frames', f'{bad or (muts + stores)}', function=fn,
                                        clause='a `.steps` list is mutated only by QueryPlan.add_step (append) and assigned only in constructors')
    stores = frames.attr_stores('step_num', mods())
    ok = {'mindsdb_sql.planner.plan_join:PlanJoinTablesQuery.add_step_to_partition', 'mindsdb_sql.planner.query_plan:QueryPlan.add_step',
          'mindsdb_sql.planner.step_result:Result.__init__', 'mindsdb_sql.planner.steps:PlanStep.__init__'}
    bad = [s for s in stores if s.where not in ok]
    (rep.failed if bad else rep.proved)('C09.disc.stepnum', 'frames', f'{bad or stores}', function=fn,
                                        clause='step_num is stored only by PlanStep.__init__, QueryPlan.add_step, add_step_to_partition (and Result.__init__)')
    kws = frames.keyword_uses('step_num', mods())
    (rep.failed if kws else rep.proved)('C09.disc.preset', 'frames', f'{kws or "no call passes step_num="}', function=fn,
                                        clause='no step is constructed with a preset step_num')
    rep.census['disc.sites'] = len(sites) + len(muts) + len(stores)


# ------------------------------------------------------------------ bounded monitor
def check_plan(plan):
    """returns list of problems of one plan"""
    from mindsdb_sql.planner.steps import MapReduceStep, MultipleSteps
    probs = []
    for i, s in enumerate(plan.steps):
        if s.step_num != i:
            probs.append(('numbering', f'step at position {i} has number {s.step_num!r}'))
        subs = []
        if isinstance(s, MapReduceStep):
            subs = s.step if isinstance(s.step, list) else [s.step]
        own = {k: v for k, v in vars(s).items() if not (isinstance(s, MapReduceStep) and k == 'step')}
        for r in plans.deep_results(own):
            if not (isinstance(r.step_num, int) and r.step_num < i):
                probs.append(('forward-ref', f'step {i} ({type(s).__name__}) refers to result {r.step_num!r}'))
        for k, sub in enumerate(subs):
            for r in plans.deep_results(sub):
                n = r.step_num
                if isinstance(n, int):
                    if not n < i:
                        probs.append(('container-forward-ref', f'sub-step {k} of container {i} ({type(s).__name__}) consumes result {n} which is computed later'))
                elif isinstance(n, str):
                    a, _, b = n.partition('_')
                    if not (a == str(i) and b.isdigit() and int(b) < k):
                        probs.append(('container-ref', f'sub-step {k} of container {i} refers to {n!r}'))
                else:
                    probs.append(('ref-type', f'result number {n!r}'))
    return probs


def bounded(rep, tier):
    from mindsdb_sql.exceptions import PlanningException
    n = 0
    fails = {}
    exc = {}
    for sc in plans.all_scenarios(tier):
        n += 1
        try:
            q, pl, plan, e, kw = plans.run_scenario(sc)
        except Exception:
            continue
        if e is not None:
            if not isinstance(e, (PlanningException, NotImplementedError)):
                cid = f'C09.bounded.internal-error.{type(e).__name__}'
                fails.setdefault(cid, (sc.get('sql') or sc['source'], f'{type(e).__name__}: {str(e)[:120]}'))
            exc[type(e).__name__] = exc.get(type(e).__name__, 0) + 1
            continue
        for kind, msg in check_plan(plan):
            fails.setdefault(f'C09.bounded.{kind}', (sc.get('sql') or sc['source'], msg))
    try:
        for sql, msg in plans.reuse_history_problems():
            fails.setdefault('C09.bounded.planner-reuse', (sql, msg))
        n += sum(len(x) for x in plans.REUSE_HISTORIES)
    except Exception as e:
        fails.setdefault('C09.bounded.planner-reuse', ('planner re-use sequences', f'{type(e).__name__}: {e}'[:160]))
    try:
        for sql, msg in history_problems():
            fails.setdefault('C09.bounded.history', (sql, msg))
        n += sum(len(x) for x in HISTORY)
    except Exception as e:
        fails.setdefault('C09.bounded.history', ('plan_query sequences', f'{type(e).__name__}: {e}'[:160]))
    rep.bounded_evals = n
    rep.census['bounded.exceptions'] = exc
    rep.bounded_rule = ('generated joins (5 kinds x 9 WHERE shapes x 7 tails), 3-table joins, sub-selects, unions, CTE, DML, model joins incl. partition_size '
                        'x 5 catalog shapes, plus every QueryPlanner call of tests/test_planner; each plan: consecutive numbering, every Result '
                        '(deep walk incl. embedded queries and container sub-steps) points to an earlier step; only PlanningException/NotImplementedError escape')
    for cid, (inp, obs) in sorted(fails.items()):
        rep.add_bounded(Bounded(cid, False, inp, obs, 'forward-only plan', bound='scenario family'))


def check(rep, tier):
    from vlib import statecensus
    statecensus.obligations(rep, 'C09', 'planner')
    rep.dropped = 'method bodies read with ast.parse; property decorator of PlanStep.result handled by name'
    rep.assume('Lemma: discipline + add_step contract => every top-level Result(k) is embedded in a step at a position > k',
               'census is by attribute name (no alias analysis): any `.steps` / `.step_num` store anywhere in mindsdb_sql counts')
    rep.trust('pysym executor', 'frames census')
    contracts(rep)
    placement(rep)
    fresh_planner(rep)
    discipline(rep)
    bounded(rep, tier)
    rep.notes.append('Numbering discipline proved; planner exception-freedom and container placement only monitored (bounded).')
