"""C01 — printing a parsed statement and re-parsing it yields the same tree.

Reduction (DESIGN §4 C01): (L1) leaves print to text that lexes to one token denoting the same value  [= C04 encoders, re-evaluated
here as C01.leaf.*];  (L2) the to_string wrapper adds exactly the user's parentheses and alias [C01.wrap.*, pysym];  (L2') a bare
identifier part never re-lexes as a keyword the dialect cannot use as a name [C01.reserved.*, exhaustive over the token tables];
(L3) every (grammar action, printer) pair inverts on a representative sentence [C01.prod.*: bounded-representative, NOT proved]."""
import ast, hashlib, re
import z3
from vlib import repo, lrtab, pysym, corpus, frames
from vlib.core import PROVED, FAILED, UNDECIDED, Bounded
from vlib.pysym import SymObj, SymSeq, SymVal, Stub, Event, Unsupported, PathLimit
from contracts import codecs, C04

LEVEL = 'other'
MANIFEST = {
    'engine': 'fst+pysym+lrtab',
    'level': 'other',
    'technique': 'leaf codecs by transducer equivalence, to_string wrapper by symbolic execution, reserved-word table check exhaustive over token tables; bare-part obligations over the token-level lexer model (first-match automaton of the real master regex) with the quoting decision read off the real printer by symbolic execution; helper-overrider contracts; per-production print/parse inversion on representative sentences (bounded)',
    'text': 'Leaves, the parentheses/alias wrapper and the keyword-collision table are decided for all inputs; the per-production inversion '
            'is exercised on one shortest sentence per production plus every statement of the test-suite (tree AND string compared, also '
            'after copy()) and is bounded, not proved. Failing cases on the unchanged tree are genuine defects (known findings).',
    'note': 'Not decided: context interaction between a parent printer and arbitrarily deep children beyond what the parentheses flag '
            'guarantees. Assumed: grammar actions are deterministic functions of their children; C04 assumptions for leaves.',
}

BASE = 'mindsdb_sql.parser.ast.base'


def _emit(rep, oid, v, fn, clause, replay=None):
    if v.status == PROVED:
        rep.proved(oid, 'pysym', v.detail, function=fn, seconds=v.seconds, clause=clause)
    elif v.status == FAILED:
        rp = replay() if callable(replay) else replay
        if rp is not None and rp.get('fires') is False:
            rp = {'input': None, 'observed': f'stock witness does not show it: {rp.get("observed")}'}
        rep.failed(oid, 'pysym', v.detail, function=fn, seconds=v.seconds, clause=clause, cex=v.cex, replay=rp)
    else:
        rep.undecided(oid, 'pysym', v.detail, function=fn, seconds=v.seconds, clause=clause)


def roundtrip(sql, dname):
    """None if parse(print(parse(sql))) == parse(sql) with equal strings (also for the copy), else description"""
    from mindsdb_sql import parse_sql
    tree = parse_sql(sql, dialect=dname)
    for label, t in (('tree', tree), ('copy', tree.copy())):
        try:
            s1 = t.to_string()
        except Exception as e:
            return f'printing the {label} raises {type(e).__name__}: {str(e)[:80]}'
        try:
            t2 = parse_sql(s1, dialect=dname)
        except Exception as e:
            return f'printed `{s1[:120]}` is rejected: {type(e).__name__}: {str(e).splitlines()[0][:60]}'
        if t2.to_tree() != tree.to_tree():
            return f'printed `{s1[:120]}` parses to a different tree'
        s2 = t2.to_string()
        if s2 != s1:
            return f'second print differs: `{s1[:80]}` vs `{s2[:80]}`'
    return None


def replay_rt(sql, dname):
    try:
        r = roundtrip(sql, dname)
    except Exception as e:
        return {'input': sql, 'dialect': dname, 'fires': False, 'observed': f'not accepted: {type(e).__name__}'}
    return {'input': sql, 'dialect': dname, 'fires': r is not None, 'observed': r or 'round trip ok', 'expected': 'same tree and same string'}


# ------------------------------------------------------------------ wrapper
def wrap_obligations(rep):
    from mindsdb_sql.parser.ast.base import ASTNode
    fn = f'{BASE}:ASTNode.to_string,{BASE}:ASTNode.maybe_add_alias,{BASE}:ASTNode.maybe_add_parentheses'
    for par in (True, False):
        for has_alias in (True, False):
            for want_alias in (True, False):
                def make_args(ex, par=par, has_alias=has_alias, want_alias=want_alias):
                    node = SymObj({ASTNode}, 'node', prov='param')
                    node.subclass_ok = True
                    s = pysym.mk_str('body')
                    a = pysym.mk_str('alias_text')
                    node.fields['get_string'] = Stub(lambda ex_, ar, k: s, 'get_string')
                    node.fields['parentheses'] = par
                    if has_alias:
                        al = SymObj({ASTNode}, 'alias', prov='param')
                        al.subclass_ok = True

                        def al_to_string(ex_, ar, k):
                            ex_.log.append(Event('alias.to_string', kwargs=k, args=ar))
                            return a
                        al.fields['to_string'] = Stub(al_to_string, 'alias.to_string')
                        node.fields['alias'] = al
                    else:
                        node.fields['alias'] = None
                    ex.path_state.update(s=s, a=a)
                    return [node], ({'alias': want_alias} if not want_alias else {})

                def post(ex, o, par=par, has_alias=has_alias, want_alias=want_alias):
                    if o.kind != 'return':
                        return f'raises {o.value.__name__}'
                    s, a = o.state['s'].t, o.state['a'].t
                    want = z3.Concat(z3.StringVal('('), s, z3.StringVal(')')) if par else s
                    if has_alias and want_alias:
                        want = z3.Concat(want, z3.StringVal(' AS '), a)
                        calls = [e for e in o.log if e.kind == 'alias.to_string']
                        if len(calls) != 1 or calls[0].kwargs.get('alias') is not False:
                            return 'the alias is not printed with alias=False exactly once'
                    got = o.value
                    gz = got.t if isinstance(got, SymVal) else z3.StringVal(got)
                    ok, _ = ex.valid(gz == want, pc=o.pc)
                    return None if ok else f'result {got!r} is not {"(" if par else ""}body{")" if par else ""}{" AS alias" if has_alias and want_alias else ""}'
                v = pysym.verify(BASE, 'ASTNode.to_string', make_args, post)
                _emit(rep, f'C01.wrap.par{int(par)}.alias{int(has_alias)}.want{int(want_alias)}', v, fn,
                      'ensures to_string() == ["("] get_string() [")"] [" AS " alias.to_string(alias=False)]')
    # classes overriding the two helpers of the wrapper must satisfy the helper's own contract (the wrapper law above is proved against the base helpers)
    mods_ = [x for x in repo.all_repo_modules() if x.startswith('mindsdb_sql')]
    helpers = [(m, c, meth) for (m, c, meth) in frames.class_defines({'maybe_add_parentheses', 'maybe_add_alias'}, mods_) if c != 'ASTNode']
    rep.census['wrapper_helper_overriders'] = [f'{c}.{meth}' for m, c, meth in helpers]
    if not helpers:
        rep.proved('C01.wrap.helpers', 'frames', 'no class overrides maybe_add_parentheses / maybe_add_alias', function=fn, clause='every node class prints through the base helpers')
    for m, c, meth in helpers:
        K = getattr(repo.import_module(m), c)
        for flag in (True, False):
            def make_args(ex, K=K, flag=flag, meth=meth):
                node = SymObj({K}, 'node', prov='param')
                node.known_not_none = True
                body = pysym.mk_str('body')
                a = pysym.mk_str('alias_text')
                node.fields['parentheses'] = flag
                if meth == 'maybe_add_alias':
                    al = SymObj({ASTNode}, 'alias', prov='param')
                    al.subclass_ok = True
                    al.fields['to_string'] = Stub(lambda ex_, ar, k: a, 'alias.to_string')
                    node.fields['alias'] = al if flag else None
                ex.path_state.update(s=body, a=a)
                return [node, body], {}

            def post(ex, o, flag=flag, meth=meth):
                if o.kind != 'return':
                    return f'raises {o.value.__name__}'
                s_, a_ = o.state['s'].t, o.state['a'].t
                if meth == 'maybe_add_parentheses':
                    want = z3.Concat(z3.StringVal('('), s_, z3.StringVal(')')) if flag else s_
                else:
                    want = z3.Concat(s_, z3.StringVal(' AS '), a_) if flag else s_
                got = o.value
                gz = got.t if isinstance(got, SymVal) else z3.StringVal(got) if isinstance(got, str) else None
                if gz is None:
                    return f'returns {got!r}'
                ok, _ = ex.valid(gz == want, pc=o.pc)
                return None if ok else (f'{"user-written parentheses are dropped" if meth == "maybe_add_parentheses" and flag else "result"}: returns {got!r}')
            v = pysym.verify(m, f'{c}.{meth}', make_args, post)
            sample = {'Constant': 'select -(1), (1) + 2'}.get(c, None)
            _emit(rep, f'C01.wrap.helper.{c}.{meth}.{int(flag)}', v, f'{m}:{c}.{meth}',
                  'an overriding helper satisfies the base contract: parentheses=True => "(" body ")"; alias => body " AS " alias',
                  replay=(lambda sample=sample: replay_rt(sample, 'mindsdb')) if sample else None)
    # classes overriding to_string must honour parentheses and alias themselves
    over = [(m, c) for (m, c, meth) in frames.class_defines({'to_string'}, [x for x in repo.all_repo_modules() if x.startswith('mindsdb_sql')]) if c != 'ASTNode']
    rep.census['to_string_overriders'] = [c for m, c in over]
    parenthesised = set()
    for dname in lrtab.DIALECTS:
        for src, sql, tree in corpus.parsed(dname):
            for pth, n in corpus.walk_nodes(tree):
                if getattr(n, 'parentheses', False):
                    parenthesised.add(type(n).__name__)
    rep.census['classes_seen_parenthesised'] = sorted(parenthesised)
    for m, c in over:
        if c not in parenthesised:
            # the class is never the value of `LPAREN expr RPAREN` / `LPAREN select RPAREN` in any production sentence or test
            # statement: the parentheses clause is not applicable to it (assumption: corpus covers every production)
            rep.assume(f'{c} (overrides to_string) is never produced in a parenthesised position by the grammars (production-exhaustive corpus census)')
            continue
        oid = f'C01.wrap.override.{c}'
        fd = repo.find_function(m, f'{c}.to_string')
        src = ast.unparse(fd)
        honours = 'maybe_add_parentheses' in src or 'self.parentheses' in src
        sample = {'WindowFunction': 'select (sum(a) over (partition by b)) + 1 from t', 'Object': None}.get(c)
        if honours:
            rep.proved(oid, 'frames', 'override consults self.parentheses', function=f'{m}:{c}.to_string', clause='an overriding to_string keeps user-written parentheses')
        else:
            rp = replay_rt(sample, 'mindsdb') if sample else {'input': None, 'observed': 'class is not produced in an expression position by any grammar rule tried'}
            if rp.get('fires') is not True:
                # the reading of the source did not find the parentheses handling (it may live in a helper) and no statement shows parentheses being
                # dropped: not established, not refuted
                rep.undecided(oid, 'frames', f'{c}.to_string overrides the wrapper; that it keeps user-written parentheses could not be read off its source ({rp.get("observed")})',
                              function=f'{m}:{c}.to_string', clause='an overriding to_string keeps user-written parentheses')
                continue
            rep.failed(oid, 'frames', f'{c}.to_string overrides the wrapper and never looks at self.parentheses (user-written parentheses around it are dropped)',
                       function=f'{m}:{c}.to_string', clause='an overriding to_string keeps user-written parentheses', replay=rp)


# ------------------------------------------------------------------ reserved words
def reserved_obligations(rep):
    from mindsdb_sql.parser.ast.select import identifier as idmod
    reserved = set(idmod.get_reserved_words())
    nowrap = idmod.no_wrap_identifier_regex
    for dname in lrtab.DIALECTS:
        d = lrtab.load(dname)
        # token kinds the dialect accepts as a plain name: alternatives of the `id` rule
        id_alts = {p.prod[0] for p in d.prods[1:] if p.name == 'id' and len(p.prod) == 1}
        n = 0
        for name, value in d.Lexer._rules:
            pat = value if isinstance(value, str) else getattr(value, 'pattern', None)
            if pat is None or name.startswith('ignore_') or name == 'ID':
                continue
            # words (plain identifiers by the printer's own test) that the real lexer turns into this keyword token
            try:
                cands = lrtab.sample_regex(pat, d.Lexer.reflags, limit=8)
            except Exception:
                cands = []
            words = [w for w in cands if nowrap.fullmatch(w) and d.lex_kinds(w) == [name]]
            if not words:
                continue                      # the token text is never a plain word (symbols, multi-word keywords)
            word = words[0]
            n += 1
            oid = f'C01.reserved.{dname}.{name}'
            fn = 'mindsdb_sql.parser.ast.select.identifier:get_reserved_words,Identifier.parts_to_str'
            clause = 'a part that prints bare re-lexes as ID or as a keyword the dialect accepts as a name'
            if word.upper() in reserved:
                rep.proved(oid, 'lrtab', 'quoted when printed (in the reserved set)', function=fn, clause=clause)
            elif name in id_alts:
                rep.proved(oid, 'lrtab', f'printed bare, re-lexes as {name}, which the `id` rule accepts', function=fn, clause=clause)
            else:
                sql = f'select `{word.lower()}` from t'
                rep.failed(oid, 'lrtab', f'the part {word.lower()!r} prints bare and re-lexes as keyword token {name}, which is not a name in the {dname} grammar',
                           function=fn, clause=clause, replay=replay_rt(sql, dname))
        rep.census[f'{dname}.keyword_tokens'] = n


# ------------------------------------------------------------------ leaves (re-evaluation of the C04 encoders under C01 ids)
def leaf_obligations(rep):
    sub = type(rep)(rep.prop, rep.tier, rep.level)
    for dname in lrtab.DIALECTS:
        C04.encode_constant(sub, dname)
        C04.variables(sub, dname)
        C04.identifiers(sub, dname)
    for o in sub.obs:
        if '.enc.' in o.id:
            o.id = o.id.replace('C04.', 'C01.leaf.')
            if o.replay and o.replay.get('fires') is True:
                pass
            rep.add(o)
    # the other half of the round trip: what the printers write is read back by the decoders of the quoted tokens (C04.dec.*).  The listed C04 findings stay with
    # C04; an UNLISTED failure of a decoder obligation breaks print -> parse as well and is reported here too
    sub2 = type(rep)('C04', rep.tier, C04.LEVEL)
    for dname in lrtab.DIALECTS:
        try:
            C04.decode_strings(sub2, dname)
        except Exception:
            pass
    for x in sub2.unlisted_failures():
        if hasattr(x, 'status'):
            rep.failed('C01.leaf.' + x.id.split('.', 1)[1], x.engine, x.detail, function=x.function, clause=x.clause, replay=x.replay)


# ------------------------------------------------------------------ per-production inversion (bounded-representative)
def production_cases(rep, tier):
    n = 0
    for dname in lrtab.DIALECTS:
        d = lrtab.load(dname)
        for num, sql in corpus.production_sentences(dname):
            p = d.prods[num]
            n += 1
            try:
                r = roundtrip(sql, dname)
            except Exception:
                continue                       # the shortest sentence is rejected by an action: outside the property
            if r:
                cid = f'C01.prod.{dname}.{p.name}:{" ".join(p.prod)}'[:150]
                if not any(b.id == cid for b in rep.bounded):
                    rep.add_bounded(Bounded(cid, False, sql, r, 'same tree and string', bound='one shortest sentence per production'))
                continue
            # edge values of the literals of the sentence: every integer literal 0, every string literal empty (printers that test `if value:` lose them)
            toks = sql.split()
            variants = []
            if any(t.isdigit() and t != '0' for t in toks):
                variants.append(('zero', ' '.join('0' if t.isdigit() else t for t in toks)))
            if len(toks) > 2:
                # the same sentence written over several indented lines: layout is not part of the tree, and verbatim (raw query) parts must reach a fixed point
                variants.append(('layout', ''.join(t + ('\n   ' if i % 2 else ' ') for i, t in enumerate(toks)).strip()))
            if 'abc' in toks:
                # every plain name written as a quoted name that needs its quotes: the tree must carry the name, the text must keep the quotes
                variants.append(('quoted', ' '.join('`a b`' if t == 'abc' else t for t in toks)))
            if p.name in p.prod:
                # a production that mentions its own nonterminal, applied twice, with every plain name distinct (abc, abd, abe ...): the order in which
                # the repeated part is accumulated by the action must be the order the printer writes it in
                try:
                    ctx_ = d.contexts()
                    me_ = d.min_expansions()
                    pre_, suf_ = ctx_[p.name]
                    inner = [t for s_ in p.prod for t in me_[s_]]
                    i_rec = list(p.prod).index(p.name)
                    kinds2 = pre_ + [t for j, s_ in enumerate(p.prod) for t in (inner if j == i_rec else me_[s_])] + suf_
                    text2 = d.text_for(kinds2) if len(kinds2) <= 80 else None
                except Exception:
                    text2 = None
                if text2:
                    k_ = [0]

                    def fresh_name(tok):
                        if tok != 'abc':
                            return tok
                        k_[0] += 1
                        return 'ab' + 'cdefghijklmnopqrstuvwxyz'[(k_[0] - 1) % 24]
                    variants.append(('twice', ' '.join(fresh_name(t) for t in text2.split())))
            # a symbol of the production that stands for one of several keyword phrases (join kind, scope, level ...): every phrase in this production -
            # printers that treat one phrase specially (`CROSS JOIN` without its ON clause) are seen only with that phrase in that position
            try:
                pre_, suf_, me_ = corpus.production_frame(dname, num)
                for i_s, s_ in enumerate(p.prod):
                    alts_ = [tuple(a_.prod) for a_ in d.prods[1:] if a_.name == s_ and 1 <= len(a_.prod) <= 3 and all(x_ in d.terminals for x_ in a_.prod)]
                    if len(alts_) < 2 or len(alts_) > 40 or s_ == 'id':
                        continue
                    for a_ in alts_:
                        if list(a_) == list(me_[s_]):
                            continue
                        kinds3 = pre_ + [t for j, s2 in enumerate(p.prod) for t in (a_ if j == i_s else me_[s2])] + suf_
                        text3 = d.text_for(kinds3) if len(kinds3) <= 60 else None
                        if text3:
                            variants.append((f'alt.{"_".join(a_)}', text3))
            except Exception:
                pass
            for tag, sql2 in variants:
                n += 1
                try:
                    r2 = roundtrip(sql2, dname)
                except Exception:
                    continue
                if r2:
                    cid = f'C01.prod.{dname}.{p.name}:{" ".join(p.prod)}'[:140] + f'.{tag}'
                    if not any(b.id == cid for b in rep.bounded):
                        rep.add_bounded(Bounded(cid, False, sql2, r2, 'same tree and string', bound='one shortest sentence per production; variants: integer literals set to 0, tokens spread over indented lines, recursive productions applied twice with distinct names'))
        for sql in corpus.test_strings():
            n += 1
            try:
                r = roundtrip(sql, dname)
            except Exception:
                continue
            if r:
                cid = f'C01.corpus.{dname}.{hashlib.sha1(sql.encode()).hexdigest()[:10]}'
                if not any(b.id == cid for b in rep.bounded):
                    rep.add_bounded(Bounded(cid, False, sql, r, 'same tree and string', bound='test-suite statements'))
    # user-written parentheses around every kind of operand under every kind of operator (printers must print children through to_string)
    CONTEXTS = {'not': 'NOT {}', 'minus': '- {}', 'plus-left': '{} + x', 'minus-right': 'x - {}', 'mul-left': '{} * x', 'div-right': 'x / {}', 'eq-left': '{} = x', 'eq-right': 'x = {}',
                'and-left': '{} AND x', 'or-right': 'x OR {}', 'is-null': '{} IS NULL', 'is-not-null': '{} IS NOT NULL', 'in': '{} IN (1, 2)', 'between': '{} BETWEEN 1 AND 2',
                'like': "{} LIKE 'a'", 'function-arg': 'f({}, 1)', 'case-when': 'CASE WHEN {} THEN 1 ELSE 0 END', 'case-then': 'CASE WHEN x THEN {} ELSE 0 END', 'cast': 'CAST({} AS int)',
                'alias': '{} AS y', 'nested': '(({}))'}
    OPERANDS = ['(a = 1 OR b = 2)', '(a + b)', '(NOT a)', '(- a)', '(a AND b)', '(a BETWEEN 1 AND 2)', '(a IS NULL)', '(a)', "('s')", '(1)']
    for dname in lrtab.DIALECTS:
        for cname, tmpl in CONTEXTS.items():
            for opnd in OPERANDS:
                for where in (False, True):
                    if where and cname == 'alias':
                        continue
                    e = tmpl.format(opnd)
                    sql = f'SELECT * FROM t WHERE {e}' if where else f'SELECT {e} FROM t'
                    n += 1
                    try:
                        r = roundtrip(sql, dname)
                    except Exception:
                        continue               # not a sentence of this dialect
                    if r:
                        cid = f'C01.paren.{dname}.{cname}'
                        if not any(b.id == cid for b in rep.bounded):
                            rep.add_bounded(Bounded(cid, False, sql, r, 'same tree and string', bound=f'{len(CONTEXTS)} operator contexts x {len(OPERANDS)} parenthesised operands x select list / WHERE'))
    # key = value parameter lists (USING / SET / PARAMETERS ...): every statement kind that takes one x every kind of value the grammar allows there
    KW_STMTS = {'select-using': 'SELECT * FROM int1.t AS a JOIN mindsdb.m AS b USING p = {}', 'create-model': 'CREATE MODEL m PREDICT y USING p = {}', 'retrain': 'RETRAIN m USING p = {}',
                'finetune': 'FINETUNE m FROM db (select 1) USING p = {}', 'create-agent': 'CREATE AGENT a USING model = {}', 'update-agent': 'UPDATE AGENT a SET p = {}',
                'create-skill': "CREATE SKILL s USING type = 't', p = {}", 'create-chatbot': "CREATE CHATBOT c USING database = 'd', agent = 'a', p = {}", 'create-ml-engine': 'CREATE ML_ENGINE e FROM h USING p = {}',
                'create-kb': "CREATE KNOWLEDGE_BASE k USING model = m, storage = s.t, p = {}", 'evaluate': 'EVALUATE acc FROM (select 1) USING p = {}', 'create-database': 'CREATE DATABASE d WITH ENGINE = "e", PARAMETERS = {{"p": {}}}',
                'create-job-noparam': None}
    KW_VALUES = {'int': '1', 'float': '0.5', 'string': "'s'", 'null': 'null', 'true': 'true', 'false': 'false', 'array': '[1, null]', 'object': '{"k": null}', 'identifier': 'abc', 'dquote': '"s"'}
    for sname, tmpl in KW_STMTS.items():
        if tmpl is None:
            continue
        for vname, vtxt in KW_VALUES.items():
            sql = tmpl.format(vtxt)
            n += 1
            try:
                r = roundtrip(sql, 'mindsdb')
            except Exception:
                continue
            if r:
                cid = f'C01.kwparam.{sname}.{vname}'
                rep.add_bounded(Bounded(cid, False, sql, r, 'same tree and string', bound=f'{len(KW_STMTS) - 1} statement kinds x {len(KW_VALUES)} value kinds'))
    rep.bounded_evals = n
    rep.bounded_rule = ('parenthesised operands of 10 shapes under 21 operator contexts (select list and WHERE, 3 dialects); key = value parameter lists of 12 statement kinds x 10 value kinds; one shortest sentence per grammar production (from the real grammar) and every SQL string constant of /repo/tests, x 3 dialects: parse, print, '
                        're-parse; to_tree() and string must be equal, also for copy(); variants of each sentence: integer literals 0, tokens spread over several indented lines; a failing production / statement is its own case')


def check(rep, tier):
    from vlib import statecensus
    statecensus.obligations(rep, 'C01', 'parser')
    from vlib import preproc
    preproc.obligation(rep, 'C01', tier, dialects=('mindsdb', 'mysql', 'sqlite'), lead_semicolons=True)
    rep.dropped = 'ASTNode.to_string & helpers read with ast.parse; encoders via vlib/codec.py; token tables and productions from the imported classes'
    rep.assume('C04 assumptions for leaf obligations', 'L3 is representative (bounded): one sentence per production does not cover context interaction')
    rep.trust('fst back end', 'pysym executor', 'lrtab sentence generator')
    wrap_obligations(rep)
    reserved_obligations(rep)
    leaf_obligations(rep)
    production_cases(rep, tier)
    rep.notes.append('Leaves / wrapper / keyword table decided for all inputs; per-production inversion is bounded-representative.')
