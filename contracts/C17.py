"""C17 — the renderer honours its fallback contract and never leaks internal errors.

  fallback.*      (pysym, try/except of get_exec_params) for every exception class the handler names, fallback on => the tree's own SQL is
                  returned, fallback off => that exception propagates; nothing else is swallowed or converted
  raise.stmt.*    (frames) every `raise` statement of the renderer raises NotImplementedError / SQLAlchemyError (else it leaks)
  raise.site.*    (pysym / frames) internal raising primitives: get_type's table lookup, the `else` of to_table, the operator tables
  frame.*         (frames) the renderer stores attributes only on objects it created (never on nodes of the caller's tree)
Bounded: every corpus tree x 7 dialect names x fallback on/off through the real renderer; to_tree() before == after."""
import ast, os, traceback
from vlib import repo, lrtab, pysym, corpus, frames
from vlib.core import PROVED, FAILED, UNDECIDED, Bounded
from vlib.pysym import SymObj, SymSeq, SymVal, SymDictU, Stub, Event, Unsupported, PathLimit

LEVEL = 'other'
MANIFEST = {
    'engine': 'pysym+frames',
    'level': 'other',
    'technique': 'symbolic execution of the fallback handler, of the renderer\'s own raising sites and of every @compiles hook for an arbitrary payload; syntactic census of raise statements and attribute stores; exhaustive run of corpus trees through the real renderer as bounded stand-in',
    'text': 'The handler is proved to implement the contract for the exception classes it names; whether the translation can raise other '
            'classes is decided for the renderer\'s own code (raise statements, table lookups, attribute stores) and only monitored for '
            'calls into SQLAlchemy. Genuine leaks on the unchanged tree are listed as known findings.',
    'note': 'Assumed (false in general, hence bounded): calls into SQLAlchemy raise only SQLAlchemyError. Bounded: parser-produced trees of the '
            'production-exhaustive corpus + test statements x {mysql, postgresql, postgres, sqlite, mssql, oracle, Snowflake} x fallback on/off.',
}

RENDER = 'mindsdb_sql.render.sqlalchemy_render'
DIALECT_NAMES = ['mysql', 'postgresql', 'postgres', 'sqlite', 'mssql', 'oracle', 'Snowflake']


def _emit(rep, oid, v, fn, clause, replay=None):
    if v.status == PROVED:
        rep.proved(oid, 'pysym', v.detail, function=fn, seconds=v.seconds, clause=clause)
    elif v.status == FAILED:
        rp = replay() if callable(replay) else replay
        if rp is not None and rp.get('fires') is False:
            rp = {'input': None, 'observed': f'stock witness does not show it: {rp.get("observed")}'}
        rep.failed(oid, 'pysym', v.detail, function=fn, seconds=v.seconds, clause=clause, cex=v.cex, replay=rp)
    else:
        rep.undecided(oid, 'pysym', v.detail, function=fn, seconds=v.seconds, clause=clause)


def render(sql, dialect='mysql', fallback=True):
    from mindsdb_sql import parse_sql
    from mindsdb_sql.render.sqlalchemy_render import SqlalchemyRender
    q = parse_sql(sql)
    before = q.to_tree()
    try:
        out = SqlalchemyRender(dialect).get_string(q, with_failback=fallback)
        err = None
    except Exception as e:
        out, err = None, e
    return q, before, out, err


def replay_render(sql, dialect='mysql', fallback=True, expect_mutation=False):
    from sqlalchemy.exc import SQLAlchemyError
    try:
        q, before, out, err = render(sql, dialect, fallback)
    except Exception as e:
        return {'input': sql, 'dialect': 'mindsdb', 'fires': False, 'observed': f'not parsed: {e}'}
    if expect_mutation:
        after = q.to_tree()
        return {'input': sql, 'dialect': 'mindsdb', 'fires': after != before, 'observed': 'input tree changed by rendering' if after != before else 'tree unchanged', 'expected': 'tree unchanged'}
    bad = err is not None and (fallback or not isinstance(err, (SQLAlchemyError, NotImplementedError)))
    return {'input': sql, 'dialect': 'mindsdb', 'fires': bad, 'observed': f'get_string(dialect={dialect!r}, with_failback={fallback}) raises {type(err).__name__}: {str(err)[:100]}' if err else 'renders',
            'expected': 'a string' if fallback else 'a string, SQLAlchemyError or NotImplementedError'}


# ------------------------------------------------------------------ the handler
HANDLER = {}


def _is_internal(exc):
    from sqlalchemy.exc import SQLAlchemyError
    return exc is not None and not issubclass(exc, (SQLAlchemyError, NotImplementedError))


def fallback_obligations(rep):
    HANDLER.clear()
    from sqlalchemy.exc import SQLAlchemyError
    fn = f'{RENDER}:SqlalchemyRender.get_exec_params'
    class InternalError(Exception):
        """stands for any exception that is neither SQLAlchemyError nor NotImplementedError (KeyError, TypeError, AttributeError, a private error class ...)"""
    # exception classes the renderer module defines itself (RenderError ...): each must be treated like any other internal error by the handler
    own = []
    _m = repo.import_module(RENDER)
    for _n, _v in sorted(vars(_m).items()):
        if isinstance(_v, type) and issubclass(_v, BaseException) and getattr(_v, '__module__', None) == RENDER and not issubclass(_v, (SQLAlchemyError, NotImplementedError)):
            own.append((f'own-{_n}', _v))
    for exc_name, exc in [('SQLAlchemyError', SQLAlchemyError), ('NotImplementedError', NotImplementedError), ('internal', InternalError), ('none', None)] + own:
        for site in ('get_query', 'render'):
            if exc is None and site == 'render':
                continue
            for fb in (True, False):
                for dname in ('postgresql', 'other'):
                    oid = f'C17.fallback.{exc_name}.{site}.{"on" if fb else "off"}.{dname}'

                    def make_args(ex, exc=exc, site=site, fb=fb, dname=dname):
                        selfo = SymObj(None, 'self', prov='param')
                        selfo.known_not_none = True
                        dialect = SymObj(None, 'dialect', prov='param')
                        dialect.known_not_none = True
                        dialect.fields['name'] = 'postgresql' if dname == 'postgresql' else pysym.mk_str('dialect_name')
                        if dname != 'postgresql':
                            ex.assume(dialect.fields['name'].t != pysym.z3.StringVal('postgresql'))
                        selfo.fields['dialect'] = dialect
                        q = SymObj(None, 'ast_query', prov='param')
                        q.known_not_none = True
                        stmt = SymObj(None, 'stmt', prov='fresh')
                        sql = pysym.mk_str('rendered_sql')
                        own = pysym.mk_str('own_sql')

                        def get_query(ex_, a, k):
                            ex_.log.append(Event('get_query', query=a[0]))
                            if exc is not None and site == 'get_query':
                                raise pysym.SymRaise(exc, ('from get_query',))
                            return (stmt, None)
                        selfo.fields['get_query'] = Stub(get_query, 'get_query')

                        def render_fn(ex_, a, k, node=None):
                            ex_.log.append(Event('render', stmt=a[0]))
                            if exc is not None and site == 'render':
                                raise pysym.SymRaise(exc, ('from render',))
                            return sql
                        ex.stubs[(RENDER, 'render_dml_query')] = render_fn
                        ex.stubs[(RENDER, 'render_ddl_query')] = render_fn
                        ex.stubs[('mindsdb_sql.parser.ast.base', 'ASTNode.__str__')] = lambda ex_, a, k, node=None: own
                        # assumed contract of re.sub / str.replace on the fallback text: a string
                        ex.stubs[('re', 'sub')] = lambda ex_, a, k, node=None: pysym.mk_str(ex_.fresh_name('re.sub'))
                        _assume_re_scanners(ex)
                        ex.method_stubs['__str__'] = lambda ex_, obj, a, k: own
                        ex.path_state.update(sql=sql, own=own, q=q)
                        return [selfo, q], {'with_failback': fb, 'with_params': False}

                    def post(ex, o, exc=exc, fb=fb, dname=dname):
                        import z3
                        if exc is None:
                            if o.kind != 'return' or o.value[0] is not o.state['sql']:
                                return f'without an error the rendered SQL is not returned: {o.kind} {o.value!r}'
                            return None
                        if not fb:
                            if o.kind == 'raise' and o.value is exc and not _is_internal(exc):
                                return None
                            if o.kind == 'raise' and _is_internal(exc) and issubclass(o.value, (NotImplementedError, SQLAlchemyError)):
                                return None
                            if _is_internal(exc):
                                return f'fallback off: an internal error of the translation leaves get_exec_params as {getattr(o.value, "__name__", o.value)!r} (allowed: SQLAlchemyError, NotImplementedError)'
                            return f'fallback off: {o.kind} {o.value!r} instead of re-raising {exc.__name__}'
                        if o.kind != 'return':
                            return f'fallback on: raises {o.value.__name__}' + (' (an internal error of the translation is not caught)' if _is_internal(exc) else '')
                        s, params = o.value
                        if params is not None:
                            return 'fallback returns parameters'
                        if dname != 'postgresql':
                            if s is not o.state['own']:
                                return f'fallback on: returns {s!r}, not str(ast_query)'
                        elif not isinstance(s, SymVal):
                            return f'fallback on (postgresql): returns {s!r}'
                        return None
                    v = pysym.verify(RENDER, 'SqlalchemyRender.get_exec_params', make_args, post)
                    _emit(rep, oid, v, fn, 'fallback on: any exception from get_query/render => returns (str(ast_query), None); off => SQLAlchemyError/NotImplementedError re-raised, anything else leaves as one of the two; no error => rendered SQL',
                          replay=(lambda: replay_render('select cast(a as foo) from t' if exc_name == 'internal' else 'insert into tbl (a, a) values (1, 2)', fallback=fb)) if exc_name == 'internal' or exc_name.startswith('own-') else None)
                    if exc_name == 'internal' or exc_name.startswith('own-'):
                        HANDLER[(exc_name, site, fb, dname)] = v.status


def _assume_re_scanners(ex):
    """assumed contracts of the scanning functions of `re` on a str (assumption register): they do not raise; finditer / findall / split give a
    sequence of matches / strings; a match has 0 <= start() <= end(), group() is a str"""
    z3 = pysym.z3

    def mk_match(ex_, label):
        m = SymObj(None, label, prov='fresh')
        m.known_not_none = True
        a, b = pysym.mk_int(ex_.fresh_name(label + '.start')), pysym.mk_int(ex_.fresh_name(label + '.end'))
        ex_.assume(z3.And(a.t >= 0, a.t <= b.t))
        m.fields['start'] = Stub(lambda e, x, k: a, 'start')
        m.fields['end'] = Stub(lambda e, x, k: b, 'end')
        m.fields['span'] = Stub(lambda e, x, k: (a, b), 'span')
        m.fields['group'] = Stub(lambda e, x, k: pysym.mk_str(e.fresh_name(label + '.group')), 'group')
        return m
    ex.stubs[('re', 'finditer')] = lambda ex_, a, k, node=None: SymSeq(ex_.fresh_name('re.finditer'), mk_match, prov='fresh')
    for nm in ('findall', 'split'):
        ex.stubs[('re', nm)] = lambda ex_, a, k, node=None, nm=nm: SymSeq(ex_.fresh_name('re.' + nm), lambda e, l: pysym.mk_str(e.fresh_name(l)), prov='fresh')


# ------------------------------------------------------------------ raise statements and sites of the renderer's own code
def raise_census(rep):
    from sqlalchemy.exc import SQLAlchemyError
    m = repo.import_module(RENDER)
    tree = repo.module_ast(RENDER)
    src = repo.module_src(RENDER)
    n = 0
    bad_sites = []
    for fn_node in ast.walk(tree):
        if not isinstance(fn_node, ast.FunctionDef):
            continue
        for node in ast.walk(fn_node):
            if isinstance(node, ast.Raise) and node.exc is not None:
                n += 1
                e = node.exc
                name = None
                if isinstance(e, ast.Call) and isinstance(e.func, ast.Name):
                    name = e.func.id
                elif isinstance(e, ast.Name):
                    name = e.id
                import builtins
                cls = (getattr(m, name, None) or getattr(builtins, name, None)) if name else None
                if isinstance(cls, type):
                    if not issubclass(cls, (NotImplementedError, SQLAlchemyError)):
                        bad_sites.append((fn_node.name, node.lineno, cls.__name__, ast.get_source_segment(src, node)))
                elif name == 'e' or (isinstance(e, ast.Name)):
                    continue          # re-raise of the caught exception
                else:
                    bad_sites.append((fn_node.name, node.lineno, '?', ast.get_source_segment(src, node)))
                # the message expression itself must not raise: attribute access on the node inside the f-string
                if isinstance(e, ast.Call):
                    for sub in ast.walk(e):
                        if isinstance(sub, ast.Attribute) and sub.attr == '__name__' and isinstance(sub.value, ast.Name) and sub.value.id != 'type':
                            bad_sites.append((fn_node.name, node.lineno, 'AttributeError', f'{ast.unparse(sub)} in the message: instances have no __name__'))
    rep.census['raise_statements'] = n
    if HANDLER and all(st == PROVED for st in HANDLER.values()):
        # C17.fallback.internal.*: whatever the translation raises is caught (fallback on) or leaves as NotImplementedError (fallback off)
        rep.proved('C17.raise.stmt', 'frames', f'{n} raise statements; {len(bad_sites)} raise other classes or can fail while building the message, all converted by the handler of get_exec_params (C17.fallback.internal.*)',
                   function=f'{RENDER}', clause='raise census: every exception of the translation is NotImplementedError / SQLAlchemyError or is converted by the handler')
        return
    handler_failed = any(st == FAILED for st in HANDLER.values())
    if HANDLER and not handler_failed:
        # the handler obligations are open (engine limit, not a refutation): the census cannot conclude either way
        rep.undecided('C17.raise.stmt', 'frames', f'{len(bad_sites)} raise statements raise other classes and the handler contract C17.fallback.internal.* is undecided', function=f'{RENDER}',
                      clause='raise census: every exception of the translation is NotImplementedError / SQLAlchemyError or is converted by the handler')
        return
    seen = set()
    for fname, line, cls, text in bad_sites:
        oid = f'C17.raise.stmt.{fname}.{cls}'
        if oid in seen:
            continue
        seen.add(oid)
        sample = {('to_expression', 'Exception'): 'select ? as x', ('prepare_insert', 'RenderError'): 'insert into t (a, a) values (1, 2)',
                  ('to_table', 'AttributeError'): 'select * from db (select 1) t1 join t2'}.get((fname, cls))
        rp = replay_render(sample) if sample else None
        if rp is not None and rp.get('fires') is False:
            rp = {'input': None, 'observed': rp['observed']}
        rep.failed(oid, 'frames', f'{fname} (line {line}) raises {cls}, which get_exec_params does not convert: {text}', function=f'{RENDER}:SqlalchemyRender.{fname}',
                   clause='every raise statement of the renderer raises NotImplementedError or SQLAlchemyError', replay=rp)
    if not bad_sites:
        rep.proved('C17.raise.stmt', 'frames', f'{n} raise statements, all NotImplementedError/SQLAlchemyError', function=f'{RENDER}', clause='raise census')
    else:
        rep.proved('C17.raise.stmt.others', 'frames', f'{n - len(bad_sites)} of {n} raise statements raise NotImplementedError/SQLAlchemyError', function=f'{RENDER}', clause='raise census')


def site_obligations(rep):
    import z3
    # get_type: lookup of an unknown type name
    fn = f'{RENDER}:SqlalchemyRender.get_type'

    def make_args(ex):
        selfo = SymObj(None, 'self', prov='param')
        selfo.known_not_none = True
        tm = SymDictU('types_map', None, None, prov='param')
        selfo.fields['types_map'] = tm

        def known(ex_):
            if 'known' not in ex_.path_state:
                ex_.path_state['known'] = ex_.choose(2, 'type name known', ['yes', 'no']) == 0
            return ex_.path_state['known']

        def getitem(ex_, d, a, k):
            if not known(ex_):
                raise pysym.SymRaise(KeyError, (a[0],))
            return SymObj(None, 'sa_type', prov='param')
        ex.method_stubs['__getitem__'] = getitem
        ex.method_stubs['__contains__'] = lambda ex_, d, a, k: known(ex_)
        ex.method_stubs['get'] = lambda ex_, d, a, k: (SymObj(None, 'sa_type', prov='param') if known(ex_) else (a[1] if len(a) > 1 else None))
        ex.stubs[('re', 'match')] = lambda ex_, a, k, node=None: (None if ex_.choose(2, f're.match({a[0]!r})', ['no', 'yes']) == 0 else SymObj(None, 'match', prov='fresh'))
        from vlib.pysym import models
        orig = models.symval_method

        def sm(ex_, recv, name, args, kwargs, node):
            if name == 'upper':
                return SymVal('str', z3.Function('str.upper', z3.StringSort(), z3.StringSort())(recv.t))
            return orig(ex_, recv, name, args, kwargs, node)
        models.symval_method = sm
        return [selfo, pysym.mk_str('typename')], {}

    def post(ex, o):
        from sqlalchemy.exc import SQLAlchemyError
        if o.kind == 'raise' and not issubclass(o.value, (NotImplementedError, SQLAlchemyError)):
            return f'an unknown type name raises {o.value.__name__}'
        return None
    ex = pysym.Executor()
    v = pysym.verify(RENDER, 'SqlalchemyRender.get_type', make_args, post, ex=ex)
    _emit(rep, 'C17.raise.site.get_type', v, fn, 'raises subset {NotImplementedError, SQLAlchemyError}', replay=lambda: replay_render('select cast(a as foo) from t'))

    # unary operator table: keys cover every operator the grammars build UnaryOperation with
    fd = repo.find_function(RENDER, 'SqlalchemyRender.to_expression')
    opmap = None
    # the table the UnaryOperation branch indexes: a dict literal (local or module level) that maps NOT and - to method names
    for n in list(ast.walk(fd)) + list(ast.walk(repo.module_ast(RENDER))):
        if isinstance(n, ast.Assign) and isinstance(n.value, ast.Dict):
            keys = {k.value for k in n.value.keys if isinstance(k, ast.Constant)}
            if {'NOT', '-'} <= {str(k).upper() for k in keys} and opmap is None:
                opmap = keys
    grammar_ops = set()
    for dname in lrtab.DIALECTS:
        d = lrtab.load(dname)
        for p in d.prods[1:]:
            if p.name == 'expr' and len(p.prod) == 2 and p.prod[1] == 'expr' and p.prod[0] in d.terminals:
                lx = d.lexemes().get(p.prod[0])
                if lx:
                    grammar_ops.add(lx.upper())
    if opmap is None:
        rep.undecided('C17.raise.site.unary-opmap', 'frames', 'opmap table not found in to_expression', function=f'{RENDER}:SqlalchemyRender.to_expression')
    elif grammar_ops <= opmap:
        rep.proved('C17.raise.site.unary-opmap', 'frames', f'unary operators of the grammars {sorted(grammar_ops)} are all keys of opmap {sorted(opmap)}',
                   function=f'{RENDER}:SqlalchemyRender.to_expression', clause='opmap[t.op.upper()] cannot raise KeyError on parser-produced UnaryOperation')
    else:
        miss = sorted(grammar_ops - opmap)
        rep.failed('C17.raise.site.unary-opmap', 'frames', f'unary operators {miss} are not in opmap: KeyError', function=f'{RENDER}:SqlalchemyRender.to_expression',
                   replay=replay_render(f'select {miss[0].lower()} a from t'))


# ------------------------------------------------------------------ compile hooks registered with @compiles run inside statement compilation
def hook_obligations(rep):
    """every module-level function decorated with @compiles(...) is executed symbolically for an arbitrary string payload: whatever it raises
    escapes through get_string/get_exec_params, so it may only raise what the fallback handler catches"""
    tree = repo.module_ast(RENDER)
    hooks = [fd for fd in tree.body if isinstance(fd, ast.FunctionDef) and any(isinstance(d, ast.Call) and getattr(d.func, 'id', None) == 'compiles' for d in fd.decorator_list)]
    rep.census['compile_hooks'] = [h.name for h in hooks]
    for fd in hooks:
        dialects = [a.value for d in fd.decorator_list if isinstance(d, ast.Call) for a in d.args[1:] if isinstance(a, ast.Constant)]

        def make_args(ex):
            el = SymObj(None, 'element', prov='param')
            el.known_not_none = True
            el.fields['info'] = pysym.mk_str('info')
            comp = SymObj(None, 'compiler', prov='param')
            comp.known_not_none = True
            return [el, comp], {}

        # a hook runs while the statement is compiled, i.e. inside the render step of get_exec_params: what it raises meets the same handler as any
        # other internal error of the translation (C17.fallback.internal.render.*)
        hst = [st for (en, site, fb, dn), st in HANDLER.items() if en == 'internal' and site == 'render']
        converted = bool(hst) and all(st == PROVED for st in hst)
        handler_open = bool(hst) and not converted and not any(st == FAILED for st in hst)
        other = []

        def post(ex, o, other=other):
            from sqlalchemy.exc import SQLAlchemyError
            if o.kind == 'raise' and not issubclass(o.value, (NotImplementedError, SQLAlchemyError)):
                other.append(o.value.__name__)
                if converted or handler_open:
                    return None
                return f'raises {o.value.__name__} for some payload string'
            return None
        v = pysym.verify(RENDER, fd.name, make_args, post, node=fd)
        if v.status == PROVED and other and handler_open:
            v = pysym.Verdict(UNDECIDED, f'raises {sorted(set(other))} and the handler contract C17.fallback.internal.render.* is undecided', v.seconds)

        def rp(dialects=dialects):
            for sql in ("select interval '90' from t", "select interval '' from t", "select interval '1 day' from t", "select a from t where b > c - interval '01:30:00'"):
                for dn in (dialects or DIALECT_NAMES):
                    for fb in (True, False):
                        r = replay_render(sql, dn, fb)
                        if r['fires']:
                            return r
            return {'input': "select interval '90' from t", 'dialect': 'mindsdb', 'fires': False, 'observed': 'renders for every dialect name'}
        _emit(rep, f'C17.raise.hook.{fd.name}', v, f'{RENDER}:{fd.name}', 'requires element.info: str; raises subset {NotImplementedError, SQLAlchemyError}, or anything else when the handler of get_exec_params converts it (C17.fallback.internal.render.*)', replay=rp)


# ------------------------------------------------------------------ frame: the caller's tree is not written
def frame_obligations(rep):
    tree = repo.module_ast(RENDER)
    src = repo.module_src(RENDER)
    offenders = []
    n = 0
    for fn in ast.walk(tree):
        if not isinstance(fn, ast.FunctionDef):
            continue
        local_fresh = set()
        for node in ast.walk(fn):
            if isinstance(node, ast.Assign) and isinstance(node.value, ast.Call) and len(node.targets) == 1 and isinstance(node.targets[0], ast.Name):
                local_fresh.add(node.targets[0].id)          # bound to the result of a call (fresh object or SQLAlchemy element)
        for node in ast.walk(fn):
            targets = node.targets if isinstance(node, (ast.Assign, ast.Delete)) else ([node.target] if isinstance(node, (ast.AugAssign, ast.AnnAssign, ast.For)) else [])
            if isinstance(node, ast.Call) and isinstance(node.func, ast.Name) and node.func.id in ('setattr', 'delattr') and node.args:
                # setattr(obj, name, value): a store on obj
                targets = [ast.Attribute(value=node.args[0], attr='<setattr>', ctx=ast.Store())]
            flat = []
            stack_ = list(targets)
            while stack_:
                x_ = stack_.pop()
                if isinstance(x_, (ast.Tuple, ast.List)):
                    stack_ += list(x_.elts)
                elif isinstance(x_, ast.Starred):
                    stack_.append(x_.value)
                else:
                    flat.append(x_)
            for t in flat:
                base = t
                while isinstance(base, (ast.Attribute, ast.Subscript)):
                    base = base.value
                if isinstance(t, (ast.Attribute, ast.Subscript)) and isinstance(base, ast.Name):
                    n += 1
                    if base.id == 'self' or base.id in local_fresh:
                        continue
                    # parameter-reachable or loop variable over a parameter: a write into the caller's objects
                    recv = t.value if isinstance(t, ast.Attribute) else t.value
                    if isinstance(t, ast.Subscript) and isinstance(base, ast.Name) and _is_local_container(fn, base.id):
                        continue
                    offenders.append((fn.name, node.lineno, (ast.get_source_segment(src, node) or ast.unparse(node)) if len(flat) == 1 else ast.unparse(t) + ' = ...'))
    if offenders:
        seen_ids = set()
        for fname, line, text in offenders:
            oid = f'C17.frame.{fname}.{text.split("=")[0].strip().replace(" ", "")}'
            if oid in seen_ids:
                continue          # the same slot stored at several sites of one function: one obligation
            seen_ids.add(oid)
            rep.failed(oid, 'frames', f'{fname} (line {line}) stores into an object it did not create: `{text}`', function=f'{RENDER}:SqlalchemyRender.{fname}',
                       clause='the renderer writes only its own objects', replay=_frame_replay(fname))
    else:
        rep.proved('C17.frame', 'frames', f'{n} attribute/subscript stores, all on self or on objects created in the same function', function=RENDER,
                   clause='the renderer writes only its own objects (input tree untouched)')
    rep.census['stores_examined'] = n


FRAME_WITNESS = {
    'prepare_create_table': ['create table t (a serial, b int)'],
    'prepare_union': ['SELECT a FROM pg.public.t1 UNION SELECT a FROM pg.public.t2 ORDER BY a DESC LIMIT 10', 'SELECT a FROM t1 UNION SELECT a FROM t2 ORDER BY a LIMIT 3'],
    'prepare_select': ['SELECT a FROM pg.public.t1 ORDER BY a LIMIT 1', 'SELECT a, count(b, c) FROM t GROUP BY a'],
}


def _frame_replay(fname):
    for sql in FRAME_WITNESS.get(fname, []):
        for fb in (True, False):
            r = replay_render(sql, 'postgresql', fb, expect_mutation=True)
            if r.get('fires'):
                return r
    return None


def _is_local_container(fn, name):
    for node in ast.walk(fn):
        if isinstance(node, ast.Assign) and len(node.targets) == 1 and isinstance(node.targets[0], ast.Name) and node.targets[0].id == name \
                and isinstance(node.value, (ast.Dict, ast.List, ast.Set, ast.ListComp, ast.DictComp)):
            return True
    return False


# ------------------------------------------------------------------ bounded
def bounded(rep, tier):
    from sqlalchemy.exc import SQLAlchemyError
    from mindsdb_sql.render.sqlalchemy_render import SqlalchemyRender
    n = 0
    fails = {}
    renders = {}
    names = DIALECT_NAMES if tier == 'thorough' else ['mysql', 'postgres', 'Snowflake']
    extra = ['select cast(a as foo) from t', 'select count(a, b) from t', 'create table t (a serial, b int)', 'select ? as x', 'select (1, 2) from t', 'select a from t where (a, b) = (1, 2)']
    from mindsdb_sql import parse_sql
    trees = [(src, sql, tree) for src, sql, tree in corpus.parsed('mindsdb')]
    for sql in extra:
        try:
            trees.append(('extra', sql, parse_sql(sql)))
        except Exception:
            pass
    if tier == 'quick':
        trees = trees[::2] + [t for t in trees if t[0] == 'extra']
    for src, sql, tree in trees:
        for dn in names:
            for fb in (True, False):
                n += 1
                r = renders.get(dn)
                if r is None:
                    try:
                        r = renders[dn] = SqlalchemyRender(dn)
                    except Exception as e:
                        from vlib.core import exc_class_id
                        fails.setdefault(f'C17.bounded.constructor.{dn}', (f'SqlalchemyRender({dn!r})', f'{type(e).__name__}: {str(e)[:80]}'))
                        renders[dn] = False
                        continue
                if r is False:
                    continue
                before = tree.to_tree()
                try:
                    r.get_string(tree, with_failback=fb)
                    err = None
                except Exception as e:
                    err = e
                try:
                    changed = tree.to_tree() != before
                except Exception:
                    changed = True
                if changed:
                    fails.setdefault(f'C17.bounded.mutates.{type(tree).__name__}', (sql, f'rendering for {dn} changed the input tree'))
                    try:
                        tree = parse_sql(sql)
                    except Exception:
                        pass
                if err is not None and (fb or not isinstance(err, (SQLAlchemyError, NotImplementedError))):
                    from vlib.core import exc_class_id
                    fails.setdefault(f'C17.bounded.{exc_class_id(err)}', (sql, f'get_string({dn!r}, with_failback={fb}) raises {type(err).__name__}: {str(err)[:80]}'))
    rep.bounded_evals = n
    rep.bounded_rule = (f'{len(trees)} parser-produced trees (production-exhaustive corpus + test statements + unsupported-shape samples) x {len(names)} dialect names x fallback on/off; '
                        'fallback on: must not raise; off: only SQLAlchemyError/NotImplementedError; to_tree() before == after; failures grouped by exception class x renderer function')
    for cid, (inp, obs) in sorted(fails.items()):
        rep.add_bounded(Bounded(cid, False, inp, obs, 'fallback contract', bound='corpus trees'))


def dialect_obligations(rep):
    """every supported dialect name - the keys of the table in SqlalchemyRender.__init__, read from its AST - yields a working renderer (the
    constructor must not raise for any of them, whatever their spelling)"""
    from mindsdb_sql.render.sqlalchemy_render import SqlalchemyRender
    from mindsdb_sql import parse_sql
    fd = repo.find_function(RENDER, 'SqlalchemyRender.__init__')
    names = []
    for n in ast.walk(fd):
        if isinstance(n, ast.Dict) and n.keys and all(isinstance(k, ast.Constant) and isinstance(k.value, str) for k in n.keys) and {'mysql', 'sqlite'} <= {k.value for k in n.keys}:
            names = [k.value for k in n.keys]
    if not names:
        names = list(DIALECT_NAMES)
    for name in sorted(set(names) | set(DIALECT_NAMES)):
        oid = f'C17.dialect.{name}'
        clause = 'SqlalchemyRender(<supported dialect name>) constructs and renders a simple statement with fallback on and off'
        try:
            r = SqlalchemyRender(name)
            a = r.get_string(parse_sql('select a, b from tbl where a > 1 limit 2'), with_failback=False)
            b = r.get_string(parse_sql('select a, b from tbl where a > 1 limit 2'))
            assert isinstance(a, str) and isinstance(b, str)
            rep.proved(oid, 'pysym', 'constructed; renders', function=f'{RENDER}:SqlalchemyRender.__init__', clause=clause)
        except Exception as e:
            rep.failed(oid, 'pysym', f'{type(e).__name__}: {e}'[:150], function=f'{RENDER}:SqlalchemyRender.__init__', clause=clause,
                       replay={'input': f'SqlalchemyRender({name!r}).get_string(parse_sql("select a, b from tbl where a > 1 limit 2"))', 'dialect': 'mindsdb', 'fires': True, 'observed': f'{type(e).__name__}: {e}'[:150], 'expected': 'SQL text'})


def check(rep, tier):
    from vlib import statecensus
    statecensus.obligations(rep, 'C17', 'render')
    dialect_obligations(rep)
    rep.dropped = 'method bodies read with ast.parse; SQLAlchemy calls are stubs / not executed symbolically'
    rep.assume('calls into SQLAlchemy raise only SQLAlchemyError (known to be false for some shapes: bounded stand-in)',
               'frame census is syntactic: a store through a name bound to a call result is treated as a store into a fresh object')
    rep.trust('pysym executor', 'frames census')
    fallback_obligations(rep)
    raise_census(rep)
    site_obligations(rep)
    hook_obligations(rep)
    frame_obligations(rep)
    bounded(rep, tier)
    rep.notes.append('Handler proved; own raise sites and stores decided; SQLAlchemy-originated leaks only monitored.')
