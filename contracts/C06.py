"""C06 — SQL rendered through SQLAlchemy means the same as the parsed statement (PARTIAL: dispatch lemmas).

The meaning of rendered text lives in SQLAlchemy's compiler and the target engine; what is decided here are the renderer's own
dispatch decisions, each over its complete finite domain, by running the real translation and reading the SQLAlchemy *element tree*
(not the text) against a reference table written from the property statement:
  join.<type>      every join_type string the grammars can produce  ->  inner / left outer / right outer / full outer, operands in order
  order.<dir>.<nulls>, order.window.*   sort direction and NULLS FIRST/LAST are kept (select level and inside OVER)
  setop.<op>.<all>, distinct, limit/offset
  op.<operator>    every binary / unary operator the grammars build maps to the reference SQLAlchemy operator
Assumed (listed): SQLAlchemy's documented meaning of Join.isouter/full, UnaryExpression modifiers, CompoundSelect keywords, operators.
Bounded stand-in: original text vs sqlite rendering executed on sqlite3 over small tables with NULLs and duplicates."""
import itertools, sqlite3
import re
from vlib import repo, lrtab, corpus
from vlib.core import PROVED, FAILED, UNDECIDED, Bounded

LEVEL = 'other'
MANIFEST = {
    'engine': 'pysym',
    'level': 'other',
    'technique': 'dispatch lemmas: each renderer decision is evaluated over its complete finite domain (join types, sort modifiers, set operators, operator tokens of the grammars x operand kinds, chains of three set-operation operands under bag semantics) on the real code and compared, at the level of SQLAlchemy element trees, with a reference table; sqlite3 differential execution as bounded stand-in',
    'text': 'Only the renderer\'s own decisions are decided (exhaustively over finite domains read from the grammars); the meaning of the emitted '
            'text is assumed from SQLAlchemy\'s documented API. LEFT OUTER / RIGHT / FULL OUTER joins rendered as inner joins and dropped NULLS '
            'FIRST/LAST inside window ORDER BY are genuine defects (known findings). Data-dependent equivalence is only sampled on sqlite3.',
    'note': 'Assumed: SQLAlchemy 2.x element semantics (Join.isouter/full, nulls_first/last, desc, CompoundSelect.keyword, operator objects). '
            'Not decided: precedence/parenthesisation of the emitted text, anything data-dependent beyond the sqlite3 samples.',
}

from sqlalchemy.exc import SQLAlchemyError
RENDER = 'mindsdb_sql.render.sqlalchemy_render'
FN = f'{RENDER}:SqlalchemyRender.prepare_select,{RENDER}:SqlalchemyRender.to_expression'


from mindsdb_sql.exceptions import ParsingException


def stmt_of(sql, dialect='sqlite'):
    from mindsdb_sql import parse_sql
    from mindsdb_sql.render.sqlalchemy_render import SqlalchemyRender
    q = parse_sql(sql)
    r = SqlalchemyRender(dialect)
    return r, r.prepare_select(q), q


def text_of(sql, dialect='sqlite'):
    from mindsdb_sql import parse_sql
    from mindsdb_sql.render.sqlalchemy_render import SqlalchemyRender
    return SqlalchemyRender(dialect).get_string(parse_sql(sql), with_failback=False)


def join_types_of_grammars():
    """every join_type string a Join node can carry: census over the parsed corpus of all dialects plus the keyword combinations of the join rules"""
    from mindsdb_sql.parser import ast
    from mindsdb_sql import parse_sql
    kinds = set()
    for dn in lrtab.DIALECTS:
        for src, sql, tree in corpus.parsed(dn):
            for p, n in corpus.walk_nodes(tree):
                if isinstance(n, ast.Join) and n.join_type:
                    kinds.add(n.join_type.upper())
    for jt in ('JOIN', 'INNER JOIN', 'LEFT JOIN', 'LEFT OUTER JOIN', 'RIGHT JOIN', 'RIGHT OUTER JOIN', 'FULL JOIN', 'FULL OUTER JOIN', 'CROSS JOIN', 'OUTER JOIN'):
        try:
            q = parse_sql(f'select * from a {jt} b on a.id = b.id')
            kinds.add(q.from_table.join_type.upper())
        except Exception:
            pass
    return sorted(kinds)


REF_JOIN = {
    'JOIN': 'inner', 'INNER JOIN': 'inner', 'CROSS JOIN': 'inner',          # with an ON condition a cross join is the inner join on it
    'LEFT JOIN': 'left', 'LEFT OUTER JOIN': 'left',
    'RIGHT JOIN': 'right', 'RIGHT OUTER JOIN': 'right',
    'FULL JOIN': 'full', 'FULL OUTER JOIN': 'full',
}          # a bare `OUTER JOIN` has no standard meaning: unconstrained


def join_kind_of(stmt):
    """(kind, left table name, right table name) read from the SQLAlchemy element tree"""
    froms = stmt.get_final_froms()
    j = froms[0]
    import sqlalchemy as sa
    if not isinstance(j, sa.sql.selectable.Join):
        return ('no-join', None, None)
    kind = 'full' if j.full else ('left' if j.isouter else 'inner')
    return (kind, getattr(j.left, 'name', None), getattr(j.right, 'name', None))


def join_obligations(rep):
    kinds = join_types_of_grammars()
    rep.census['join_types'] = kinds
    for jt in kinds:
        oid = f'C06.join.{jt.replace(" ", "_")}'
        sql = f'select * from a {jt} b on a.id = b.id'
        clause = 'rendered join = Ref(join_type) with operands in order (RIGHT may be rendered as LEFT with swapped operands), or the join kind is refused with NotImplementedError'
        ref = REF_JOIN.get(jt)
        if ref is None:
            continue
        try:
            r, stmt, q = stmt_of(sql)
            kind, l, rr = join_kind_of(stmt)
        except Exception as e:
            if isinstance(e, (NotImplementedError, SQLAlchemyError)):
                rep.proved(oid, 'pysym', f'refused ({type(e).__name__}) rather than mistranslated', function=FN, clause=clause)
            else:
                rep.failed(oid, 'pysym', f'rendering raises {type(e).__name__}: {e}'[:150], function=FN, clause=clause, replay=replay_exec(sql))
            continue
        ok = (ref is not None) and ((kind == ref and (l, rr) == ('a', 'b')) or (ref == 'right' and kind == 'left' and (l, rr) == ('b', 'a')))
        if ok:
            rep.proved(oid, 'pysym', f'{jt} -> {kind} join of ({l}, {rr})', function=FN, clause=clause)
        else:
            rep.failed(oid, 'pysym', f'{jt} is rendered as a {kind} join of ({l}, {rr}); reference: {ref} join of (a, b)', function=FN, clause=clause, replay=replay_exec(sql))


def join_chain_obligations(rep):
    """chains of two joins over three tables: every ordered pair of join kinds; the element tree must be Join(Join(a, b, kind1), c, kind2) - the kind of one
    join must not leak into the next one (per-iteration state of the loop that folds the join list)"""
    import sqlalchemy as sa
    kinds = [k for k in join_types_of_grammars() if REF_JOIN.get(k) in ('inner', 'left', 'full')]
    for j1 in kinds:
        for j2 in kinds:
            oid = f'C06.join.chain.{j1.replace(" ", "_")}.{j2.replace(" ", "_")}'
            sql = f'select * from a {j1} b on a.id = b.id {j2} c on b.id = c.id'
            clause = 'a chain a J1 b J2 c is rendered as Join(Join(a, b, Ref(J1)), c, Ref(J2)), or refused'
            try:
                r, stmt, q = stmt_of(sql)
                j = stmt.get_final_froms()[0]
            except Exception as e:
                if isinstance(e, (NotImplementedError, SQLAlchemyError)):
                    rep.proved(oid, 'pysym', f'refused ({type(e).__name__}) rather than mistranslated', function=FN, clause=clause)
                else:
                    rep.failed(oid, 'pysym', f'rendering raises {type(e).__name__}: {e}'[:150], function=FN, clause=clause, replay=replay_exec(sql))
                continue

            def kind_of(x):
                return 'full' if x.full else ('left' if x.isouter else 'inner')
            ok = isinstance(j, sa.sql.selectable.Join) and isinstance(j.left, sa.sql.selectable.Join) and getattr(j.right, 'name', None) == 'c' \
                and (getattr(j.left.left, 'name', None), getattr(j.left.right, 'name', None)) == ('a', 'b') \
                and kind_of(j.left) == REF_JOIN[j1] and kind_of(j) == REF_JOIN[j2]
            if ok:
                rep.proved(oid, 'pysym', f'{REF_JOIN[j1]} then {REF_JOIN[j2]}', function=FN, clause=clause)
            else:
                got = f'{kind_of(j.left) if isinstance(j.left, sa.sql.selectable.Join) else "?"} then {kind_of(j) if isinstance(j, sa.sql.selectable.Join) else "?"}'
                rep.failed(oid, 'pysym', f'`{sql}` is rendered as {got}; reference: {REF_JOIN[j1]} then {REF_JOIN[j2]}', function=FN, clause=clause, replay=replay_exec(sql))


def aggregate_obligations(rep):
    """DISTINCT inside an aggregate is kept whatever the argument is (column, expression, function call, qualified column, constant), in every clause"""
    args = {'col': 'a', 'qualified': 't.a', 'expr': 'a + 1', 'mul': 'a * 2', 'func': 'upper(b)', 'case': 'case when a > 1 then a else 0 end', 'cast': 'cast(a as int)'}
    for fname in ('count', 'sum', 'avg', 'min', 'group_concat'):
        for an, atext in args.items():
            for clause_name, tmpl in (('select', 'select {f} from t'), ('having', 'select b from t group by b having {f} > 1'), ('order', 'select b from t group by b order by {f}')):
                oid = f'C06.agg.distinct.{fname}.{an}.{clause_name}'
                sql = tmpl.format(f=f'{fname}(distinct {atext})')
                clause = 'f(DISTINCT x) is rendered with DISTINCT for every argument x, or refused'
                try:
                    txt = text_of(sql)
                except Exception as e:
                    if isinstance(e, (NotImplementedError, SQLAlchemyError)):
                        rep.proved(oid, 'pysym', f'refused ({type(e).__name__})', function=FN, clause=clause)
                    else:
                        rep.failed(oid, 'pysym', f'rendering raises {type(e).__name__}: {e}'[:150], function=FN, clause=clause, replay=replay_exec(sql))
                    continue
                if re.search(r'\(\s*distinct\b', txt, re.I):
                    rep.proved(oid, 'pysym', 'DISTINCT kept', function=FN, clause=clause)
                else:
                    rep.failed(oid, 'pysym', f'`{sql}` is rendered as `{txt}`: DISTINCT is lost', function=FN, clause=clause, replay=replay_exec(sql))


def alias_obligations(rep):
    """`<expression> AS name` in the select list: the rendered statement names that output column `name`, for every kind of expression the grammar produces
    (read from the SQLAlchemy element tree: the key of the selected column)"""
    exprs = {'column': 'a', 'qualified': 't.a', 'constant': '1', 'string': "'s'", 'null': 'NULL', 'binary': 'a + 1', 'comparison': 'a > 1', 'logical': 'a > 1 and b < 2', 'not': 'not a', 'neg': '- a',
             'function': 'upper(c)', 'aggregate': 'count(*)', 'agg-distinct': 'count(distinct a)', 'case': 'case when a > 1 then 1 else 0 end', 'case-arg': "case a when 1 then 'x' end", 'between': 'a between 1 and 2',
             'in-list': 'a in (1, 2)', 'is-null': 'a is null', 'like': "c like 'x%'", 'cast': 'cast(a as int)', 'subselect': '(select max(a) from u)', 'window': 'sum(a) over (partition by b)',
             'concat': "c || 'x'", 'paren': '(a + 1)'}
    for name, e in exprs.items():
        oid = f'C06.alias.{name}'
        sql = f'select {e} as out1, b from t'
        clause = 'a select-list item `e AS name` is rendered as an output column called name, whatever kind of expression e is (or refused)'
        try:
            r, stmt, q = stmt_of(sql)
            cols = list(stmt.selected_columns)
            key = getattr(cols[0], 'key', None) or getattr(cols[0], 'name', None)
        except Exception as ex_:
            if isinstance(ex_, (NotImplementedError, SQLAlchemyError, ParsingException)):
                rep.proved(oid, 'pysym', f'refused / not in the dialect ({type(ex_).__name__})', function=FN, clause=clause)
            else:
                rep.failed(oid, 'pysym', f'rendering raises {type(ex_).__name__}: {ex_}'[:150], function=FN, clause=clause, replay=replay_exec(sql))
            continue
        if key == 'out1':
            rep.proved(oid, 'pysym', 'output column out1', function=FN, clause=clause)
        else:
            txt = ' '.join(text_of(sql).split())
            rep.failed(oid, 'pysym', f'`{sql}` is rendered as `{txt[:120]}`: the output column is called {key!r}, not out1', function=FN, clause=clause,
                       replay={'input': sql, 'dialect': 'mindsdb', 'fires': ' AS out1' not in txt and ' AS "out1"' not in txt, 'observed': txt[:160], 'expected': '... AS out1'})


def order_obligations(rep):
    import sqlalchemy as sa
    from sqlalchemy.sql import operators
    dirs = {'default': '', 'ASC': ' ASC', 'DESC': ' DESC'}
    nulls = {'default': '', 'NULLS FIRST': ' NULLS FIRST', 'NULLS LAST': ' NULLS LAST'}

    def mods(el):
        out = set()
        while isinstance(el, sa.sql.elements.UnaryExpression):
            out.add(getattr(el.modifier, '__name__', str(el.modifier)))
            el = el.element
        return out
    for (dk, dt), (nk, nt) in itertools.product(dirs.items(), nulls.items()):
        want = set()
        if dk == 'DESC':
            want.add('desc_op')
        if nk == 'NULLS FIRST':
            want.add('nulls_first_op')
        if nk == 'NULLS LAST':
            want.add('nulls_last_op')
        for where in ('select', 'window'):
            oid = f'C06.order.{where}.{dk}.{nk.replace(" ", "_")}'
            sql = f'select a from t order by b{dt}{nt}' if where == 'select' else f'select id, sum(id) over (partition by a order by b{dt}{nt}) from t'
            clause = 'DESC and NULLS FIRST/LAST of every ordering term are kept (a dropped explicit ASC is harmless)'
            try:
                r, stmt, q = stmt_of(sql)
                if where == 'select':
                    el = list(stmt._order_by_clauses)[0]
                else:
                    over = None
                    for c_ in stmt._raw_columns:
                        while type(c_).__name__ != 'Over' and hasattr(c_, 'element'):
                            c_ = c_.element
                        if type(c_).__name__ == 'Over':
                            over = c_
                    el = list(over.order_by)[0]
                got = mods(el) - {'asc_op'}
            except Exception as e:
                rep.failed(oid, 'pysym', f'{type(e).__name__}: {e}'[:150], function=FN, clause=clause, replay=replay_exec(sql))
                continue
            if got == want:
                rep.proved(oid, 'pysym', f'modifiers {sorted(got)}', function=FN, clause=clause)
            else:
                rep.failed(oid, 'pysym', f'`order by b{dt}{nt}` ({where}) is rendered with modifiers {sorted(got)}, expected {sorted(want)}', function=FN, clause=clause, replay=replay_exec(sql))


def setop_obligations(rep):
    for op, allflag in itertools.product(('UNION', 'INTERSECT', 'EXCEPT'), (False, True)):
        oid = f'C06.setop.{op}.{"all" if allflag else "distinct"}'
        sql = f'select a from t {op}{" ALL" if allflag else ""} select a from u'
        clause = 'set operator and ALL flag are kept, operands in order'
        try:
            r, stmt, q = stmt_of(sql)
            kw = str(stmt.keyword).split('.')[-1]
            ops = [list(s.get_final_froms())[0].name for s in stmt.selects]
        except Exception as e:
            rep.failed(oid, 'pysym', f'{type(e).__name__}: {e}'[:150], function=FN, clause=clause, replay=replay_exec(sql))
            continue
        want = op + ('_ALL' if allflag else '')
        if kw == want and ops == ['t', 'u']:
            rep.proved(oid, 'pysym', f'{kw} of {ops}', function=FN, clause=clause)
        else:
            rep.failed(oid, 'pysym', f'rendered as {kw} of {ops}, expected {want} of [t, u]', function=FN, clause=clause, replay=replay_exec(sql))
    # chains of three operands: the rendered compound structure (possibly flattened by the renderer) must denote what the parsed tree denotes,
    # decided by bag semantics over all small bags (values 1, 2 with multiplicity <= 2) for every pair of operators and ALL flags
    from collections import Counter
    from mindsdb_sql.parser import ast as A_

    def bag(op, unique, X, Y):
        X, Y = Counter(X), Counter(Y)
        r = X + Y if op == 'union' else (X & Y if op == 'intersect' else (X - Y if not unique else Counter({k: 1 for k in X if k not in Y})))
        if unique:
            r = Counter({k: 1 for k in r if r[k] > 0})
        return +r

    def den_ast(n, env):
        if isinstance(n, (A_.Union, A_.Except, A_.Intersect)):
            return bag(type(n).__name__.lower(), bool(n.unique), den_ast(n.left, env), den_ast(n.right, env))
        return Counter(env[str(n.from_table.parts[-1])])

    def den_sa(st, env):
        while type(st).__name__ not in ('CompoundSelect', 'Select') and hasattr(st, 'element'):
            st = st.element
        if type(st).__name__ == 'CompoundSelect':
            kw = str(st.keyword).split('.')[-1]
            op, uniq = kw.replace('_ALL', '').lower(), not kw.endswith('_ALL')
            items = [den_sa(x, env) for x in st.selects]
            acc = items[0]
            for it in items[1:]:
                acc = bag(op, uniq, acc, it)
            return acc
        while not hasattr(st, 'get_final_froms') and hasattr(st, 'element'):
            st = st.element
        return Counter(env[list(st.get_final_froms())[0].name])
    bags = [(), (1,), (1, 1), (2,), (1, 2), (1, 1, 2), (1, 2, 2)]
    flavours = [(o_, a_) for o_ in ('UNION', 'INTERSECT', 'EXCEPT') for a_ in (False, True)]
    for (o1, a1), (o2, a2) in itertools.product(flavours, flavours):
        oid = f'C06.setop.chain.{o1}{"_ALL" if a1 else ""}.{o2}{"_ALL" if a2 else ""}'
        sql = f'select a from t {o1}{" ALL" if a1 else ""} select a from u {o2}{" ALL" if a2 else ""} select a from w'
        clause = 'the compound select built for a chain of three operands denotes the same bag as the parsed tree, for all bags over two values with multiplicity <= 2'
        try:
            r, stmt, q = stmt_of(sql)
            bad = None
            for X in bags:
                for Y in bags:
                    for Z in bags:
                        env = {'t': X, 'u': Y, 'w': Z}
                        if den_ast(q, env) != den_sa(stmt, env):
                            bad = (X, Y, Z, den_ast(q, env), den_sa(stmt, env))
                            break
                    if bad:
                        break
                if bad:
                    break
        except Exception as e:
            from sqlalchemy.exc import SQLAlchemyError
            if isinstance(e, (NotImplementedError, SQLAlchemyError)):
                rep.proved(oid, 'pysym', f'refused ({type(e).__name__}) rather than mistranslated', function=FN, clause=clause)
            else:
                rep.failed(oid, 'pysym', f'{type(e).__name__}: {e}'[:150], function=FN, clause=clause, replay=None)
            continue
        if bad is None:
            rep.proved(oid, 'pysym', 'same bag for all 343 assignments', function=FN, clause=clause)
        else:
            X, Y, Z, want, got = bad
            rep.failed(oid, 'pysym', f'with t={list(X)}, u={list(Y)}, w={list(Z)} the parsed tree denotes {sorted(want.elements())}, the rendered compound {sorted(got.elements())} (rendered: {" ".join(str(stmt).split())[:120]})',
                       function=FN, clause=clause, replay={'input': sql, 'dialect': 'mindsdb', 'fires': True, 'observed': f'rendered as `{" ".join(text_of(sql).split())}`', 'expected': 'the same nesting and ALL flags'})
    # distinct / limit / offset
    for name, sql, probe in (('distinct', 'select distinct a from t', lambda s: bool(s._distinct)),
                             ('no-distinct', 'select a from t', lambda s: not s._distinct),
                             ('limit-offset', 'select a from t limit 3 offset 2', lambda s: (s._limit, s._offset) == (3, 2)),
                             ('clauses-once', 'select a from t where a > 1 group by a having count(*) > 0', lambda s: len(s._where_criteria) == 1 and len(s._having_criteria) == 1 and len(s._group_by_clauses) == 1)):
        oid = f'C06.{name}'
        try:
            r, stmt, q = stmt_of(sql)
            ok = probe(stmt)
        except Exception as e:
            ok = False
        (rep.proved if ok else rep.failed)(oid, 'pysym', 'kept' if ok else 'not kept', function=FN, clause='DISTINCT / LIMIT / OFFSET / WHERE / GROUP BY / HAVING appear exactly once as written',
                                            **({} if ok else {'replay': replay_exec(sql)}))


def operator_obligations(rep):
    from sqlalchemy.sql import operators
    import sqlalchemy as sa
    ref = {'+': operators.add, '-': operators.sub, '*': operators.mul, '/': operators.truediv, '%': operators.mod, '=': operators.eq, '!=': operators.ne, '<>': operators.ne,
           '>': operators.gt, '<': operators.lt, '>=': operators.ge, '<=': operators.le, 'like': operators.like_op, 'not like': operators.not_like_op,
           'in': operators.in_op, 'not in': operators.not_in_op, '||': operators.concat_op, 'and': operators.and_, 'or': operators.or_, 'is': operators.is_, 'is not': operators.is_not}
    d = lrtab.load('mindsdb')
    lx = d.lexemes()
    toks = sorted({p.prod[1] for p in d.prods[1:] if p.name == 'expr' and len(p.prod) == 3 and p.prod[0] == 'expr' and p.prod[2] in ('expr', 'constant') and p.prod[1] in d.terminals})
    rep.census['binary_operator_tokens'] = toks
    for tok in toks:
        text = lx.get(tok)
        if text is None:
            continue
        rhs = '(1, 2)' if tok in ('IN', 'NOT_IN') else ('NULL' if tok in ('IS', 'IS_NOT') else ("'k'" if tok.startswith('JSON') else 'b'))
        sql = f'select a {text} {rhs} from t'
        oid = f'C06.op.{tok}'
        clause = 'the SQLAlchemy operator of the rendered element is the reference operator for the SQL operator (unknown operators are passed through as text)'
        try:
            r, stmt, q = stmt_of(sql)
            el = stmt._raw_columns[0]
            while not hasattr(el, 'operator') and hasattr(el, 'element'):
                el = el.element
            op = getattr(el, 'operator', None)
            srcop = q.targets[0].op
        except Exception as e:
            from sqlalchemy.exc import SQLAlchemyError
            if isinstance(e, (NotImplementedError, SQLAlchemyError)):
                rep.proved(oid, 'pysym', f'refused ({type(e).__name__}) rather than mistranslated', function=FN, clause=clause)
            else:
                rep.failed(oid, 'pysym', f'{type(e).__name__}: {e}'[:150], function=FN, clause=clause, replay=None)
            continue
        want = ref.get(srcop)
        if want is not None:
            ok = op is want
            detail = f'{srcop!r} -> {getattr(op, "__name__", op)}'
        else:
            ok = getattr(op, 'opstring', None) == srcop
            detail = f'{srcop!r} passed through as custom operator {getattr(op, "opstring", op)!r}'
        if ok:
            rep.proved(oid, 'pysym', detail, function=FN, clause=clause)
        else:
            rep.failed(oid, 'pysym', f'{detail}; reference {getattr(want, "__name__", want)}', function=FN, clause=clause, replay=replay_exec(sql))
    # operand kinds: the operator and both operands are kept whatever the operands are (column, number, string, NULL)
    kinds = {'col': ('x', ('col', 'x')), 'int': ('7', ('const', 7)), 'str': ("'s'", ('const', 's')), 'null': ('NULL', ('const', None))}

    def leaf(el):
        while type(el).__name__ in ('Label', 'Grouping') and hasattr(el, 'element'):
            el = el.element
        tn = type(el).__name__
        if tn == 'BindParameter':
            return ('const', el.value)
        if tn == 'Null':
            return ('const', None)
        if tn == 'ColumnClause':
            return ('col', el.name)
        return ('other', tn)
    n_ev = 0
    for tok in toks:
        text = lx.get(tok)
        if text is None or tok in ('IN', 'NOT_IN', 'IS', 'IS_NOT') or tok.startswith('JSON'):
            continue
        for (lk, (ltxt, lref)), (rk, (rtxt, rref)) in itertools.product(kinds.items(), kinds.items()):
            if (lk, rk) == ('col', 'col'):
                continue
            ltxt2 = 'a' if lk == 'col' else ltxt
            lref2 = ('col', 'a') if lk == 'col' else lref
            sql = f'select id from t where {ltxt2} {text} {rtxt}'
            oid = f'C06.opnd.{tok}.{lk}.{rk}'
            clause = 'for every operand kind (column, number, string, NULL) on either side: same reference operator, same two operands in order (no coercion such as `= NULL` -> IS NULL)'
            n_ev += 1
            try:
                r, stmt, q = stmt_of(sql)
                el = stmt._where_criteria[0]
                while not hasattr(el, 'operator') and hasattr(el, 'element'):
                    el = el.element
                op = getattr(el, 'operator', None)
                srcop = q.where.op
                got = (leaf(getattr(el, 'left', None)), leaf(getattr(el, 'right', None)))
            except Exception as e:
                from sqlalchemy.exc import SQLAlchemyError
                if isinstance(e, (NotImplementedError, SQLAlchemyError)):
                    rep.proved(oid, 'pysym', f'refused ({type(e).__name__}) rather than mistranslated', function=FN, clause=clause)
                else:
                    rep.failed(oid, 'pysym', f'{type(e).__name__}: {e}'[:150], function=FN, clause=clause, replay=None)
                continue
            want = ref.get(srcop)
            ok = ((op is want) or getattr(op, 'opstring', None) == srcop) if want is not None else (getattr(op, 'opstring', None) == srcop)
            if type(el).__name__ == 'BooleanClauseList':
                got = tuple(leaf(c_) for c_ in el.clauses)
            if ok and got == (lref2, rref):
                rep.proved(oid, 'pysym', f'{srcop!r} -> {getattr(op, "__name__", getattr(op, "opstring", op))} of {got}', function=FN, clause=clause)
            else:
                rep.failed(oid, 'pysym', f'`{ltxt2} {text} {rtxt}` is rendered as {getattr(op, "__name__", getattr(op, "opstring", op))} of {got}; reference {getattr(want, "__name__", srcop)} of {(lref2, rref)}',
                           function=FN, clause=clause, replay=replay_exec(sql))
    rep.census['operand_kind_cases'] = n_ev


# ------------------------------------------------------------------ list-shaped clauses keep every item, in order
def _col_name(el):
    import sqlalchemy as sa
    while isinstance(el, (sa.sql.elements.UnaryExpression, sa.sql.elements.Label, sa.sql.elements.Grouping)):
        el = el.element
    return getattr(el, 'name', None) or str(el)


def _mods(el):
    import sqlalchemy as sa
    out = set()
    while isinstance(el, sa.sql.elements.UnaryExpression):
        out.add(getattr(el.modifier, '__name__', str(el.modifier)))
        el = el.element
    return out - {'asc_op'}


def _over_of(stmt):
    for c_ in stmt._raw_columns:
        while type(c_).__name__ != 'Over' and hasattr(c_, 'element'):
            c_ = c_.element
        if type(c_).__name__ == 'Over':
            return c_
    return None


def list_obligations(rep):
    """ORDER BY (select level and inside OVER), PARTITION BY, GROUP BY and the select list with 1..3 items: the rendered clause has the same
    items in the same order, each with its own direction (finite case analysis on the SQLAlchemy element tree)"""
    cols = ['b', 'c', 'id']
    dirs = ['', ' DESC', ' ASC']
    for n in (1, 2, 3):
        for rot in range(n):
            items = [(cols[(i + rot) % 3], dirs[(i + rot) % 3]) for i in range(n)]
            want = [(c, {'desc_op'} if d == ' DESC' else set()) for c, d in items]
            olist = ', '.join(c + d for c, d in items)
            plain = ', '.join(c for c, _ in items)
            cases = {
                'order.select': (f'select a from t order by {olist}', lambda st: [(_col_name(e), _mods(e)) for e in st._order_by_clauses], want),
                'order.window': (f'select id, sum(id) over (partition by a order by {olist}) from t', lambda st: [(_col_name(e), _mods(e)) for e in _over_of(st).order_by], want),
                'partition.window': (f'select id, sum(id) over (partition by {plain} order by a) from t', lambda st: [(_col_name(e), set()) for e in _over_of(st).partition_by], [(c, set()) for c, _ in items]),
                'group': (f'select count(*) from t group by {plain}', lambda st: [(_col_name(e), set()) for e in st._group_by_clauses], [(c, set()) for c, _ in items]),
                'targets': (f'select {plain} from t', lambda st: [(_col_name(e), set()) for e in st._raw_columns], [(c, set()) for c, _ in items]),
            }
            for cname, (sql, read, exp) in cases.items():
                oid = f'C06.list.{cname}.n{n}.r{rot}'
                clause = 'every item of a list-shaped clause is rendered, in the written order, with its own sort direction'
                try:
                    r, stmt, q = stmt_of(sql)
                    got = read(stmt)
                except Exception as e:
                    if isinstance(e, (NotImplementedError, SQLAlchemyError)):
                        rep.proved(oid, 'pysym', f'refused ({type(e).__name__}) rather than mistranslated', function=FN, clause=clause)
                    else:
                        rep.failed(oid, 'pysym', f'{type(e).__name__}: {e}'[:150], function=FN, clause=clause, replay=replay_exec(sql))
                    continue
                if got == exp:
                    rep.proved(oid, 'pysym', f'{len(got)} item(s) in order', function=FN, clause=clause)
                else:
                    rep.failed(oid, 'pysym', f'`{sql}`: rendered items {got}, expected {exp}', function=FN, clause=clause, replay=replay_exec(sql))


# ------------------------------------------------------------------ DML / DDL: the statement keeps its row restriction, its assignments and its rows
def _get_query(sql, dialect='sqlite'):
    from mindsdb_sql import parse_sql
    from mindsdb_sql.render.sqlalchemy_render import SqlalchemyRender
    q = parse_sql(sql)
    r = SqlalchemyRender(dialect)
    stmt, params = r.get_query(q, with_params=False)
    return stmt, q


def dml_obligations(rep):
    FN2 = f'{RENDER}:SqlalchemyRender.prepare_update,{RENDER}:SqlalchemyRender.prepare_delete,{RENDER}:SqlalchemyRender.prepare_insert'
    cases = []
    for where in (None, 'a = 2', 'a = 2 AND b > 1'):
        w = f' WHERE {where}' if where else ''
        cases.append((f'update.{"where" + str(where.count("AND") + 1) if where else "nowhere"}', f'UPDATE t SET b = 0, c = 1{w}', where, ['b', 'c']))
        cases.append((f'delete.{"where" + str(where.count("AND") + 1) if where else "nowhere"}', f'DELETE FROM t{w}', where, None))
    for tag, sql, where, setcols in cases:
        oid = f'C06.dml.{tag}'
        clause = 'UPDATE / DELETE keep their WHERE clause (same comparison tree) and UPDATE assigns exactly the written columns'
        try:
            stmt, q = _get_query(sql)
        except Exception as e:
            if isinstance(e, (NotImplementedError, SQLAlchemyError)):
                rep.proved(oid, 'pysym', f'refused ({type(e).__name__}) rather than mistranslated', function=FN2, clause=clause)
            else:
                rep.failed(oid, 'pysym', f'{type(e).__name__}: {e}'[:150], function=FN2, clause=clause, replay=replay_exec_dml(sql))
            continue
        crit = list(getattr(stmt, '_where_criteria', ()) or ())
        problems = []
        if where is None and crit:
            problems.append(f'a WHERE clause {[str(c) for c in crit]} appears')
        if where is not None:
            if not crit:
                problems.append('the WHERE clause is dropped: every row is affected')
            else:
                txt = ' AND '.join(str(c.compile(compile_kwargs={'literal_binds': True})) for c in crit)
                if ' '.join(txt.split()) != where:
                    problems.append(f'WHERE is rendered as `{txt}`')
        if setcols is not None:
            vals = getattr(stmt, '_values', None) or {}
            got = sorted(getattr(k, 'name', str(k)) for k in vals)
            if got != sorted(setcols):
                problems.append(f'assigned columns {got}, written {sorted(setcols)}')
        if problems:
            rep.failed(oid, 'pysym', f'`{sql}`: ' + '; '.join(problems), function=FN2, clause=clause, replay=replay_exec_dml(sql))
        else:
            rep.proved(oid, 'pysym', f'where={"kept" if where else "absent"}' + (f', sets {setcols}' if setcols else ''), function=FN2, clause=clause)


def ddl_limit_obligations(rep):
    """CREATE TABLE keeps every column constraint it understands (NULL / NOT NULL / unspecified, PRIMARY KEY, DEFAULT); LIMIT / OFFSET keep their
    values, including 0 (finite case analysis on the SQLAlchemy objects the real renderer builds)"""
    FN3 = f'{RENDER}:SqlalchemyRender.prepare_create_table'
    for nl, pk, df in itertools.product(('', 'NULL', 'NOT NULL'), (False, True), (False, True)):
        col = 'a int' + (' PRIMARY KEY' if pk else '') + (" DEFAULT '1'" if df else '') + (f' {nl}' if nl else '')
        sql = f'CREATE TABLE z ({col}, b int)'
        oid = f'C06.ddl.column.{nl.replace(" ", "_") or "unspecified"}.pk{int(pk)}.default{int(df)}'
        clause = 'the rendered column has the written nullability (NOT NULL kept, NULL kept, nothing invented), key flag and default'
        try:
            stmt, q = _get_query(sql)
            c = list(stmt.element.columns)[0]
        except Exception as e:
            if isinstance(e, (NotImplementedError, SQLAlchemyError)):
                rep.proved(oid, 'pysym', f'refused ({type(e).__name__}) rather than mistranslated', function=FN3, clause=clause)
            else:
                from mindsdb_sql.exceptions import ParsingException
                if isinstance(e, ParsingException):
                    continue            # the dialect does not accept this spelling: outside the property
                rep.failed(oid, 'pysym', f'{type(e).__name__}: {e}'[:150], function=FN3, clause=clause, replay=replay_exec_dml(sql))
            continue
        src = q.columns[0]
        problems = []
        want_nullable = {None: None, True: True, False: False}[src.nullable]
        # sqlalchemy: primary-key columns are NOT NULL by default; otherwise nullable defaults to True
        eff = c.nullable
        if want_nullable is False and eff is not False:
            problems.append('NOT NULL is dropped')
        if want_nullable is True and eff is not True:
            problems.append('NULL is rendered as NOT NULL')
        if want_nullable is None and not pk and eff is not True:
            problems.append('NOT NULL is invented')
        if bool(c.primary_key) != bool(src.is_primary_key):
            problems.append(f'primary key flag {c.primary_key} (written {src.is_primary_key})')
        if (c.server_default is not None) != (src.default is not None):
            problems.append('DEFAULT ' + ('invented' if c.server_default is not None else 'dropped'))
        if problems:
            rep.failed(oid, 'pysym', f'`{sql}`: ' + '; '.join(problems), function=FN3, clause=clause,
                       replay={'input': sql, 'dialect': 'mindsdb', 'fires': True, 'observed': ' '.join(text_of(sql, 'sqlite').split()), 'expected': col})
        else:
            rep.proved(oid, 'pysym', f'nullable={eff}, pk={c.primary_key}, default={"yes" if c.server_default is not None else "no"}', function=FN3, clause=clause)
    for lim, off in itertools.product((0, 1, 5), (None, 0, 2)):
        sql = f'SELECT a FROM t ORDER BY a LIMIT {lim}' + (f' OFFSET {off}' if off is not None else '')
        oid = f'C06.limit.l{lim}.o{"none" if off is None else off}'
        clause = 'LIMIT n / OFFSET m are rendered with their values for every n, m >= 0 (LIMIT 0 returns no row)'
        try:
            r, stmt, q = stmt_of(sql)
            gl = stmt._limit
            go = stmt._offset
        except Exception as e:
            if isinstance(e, (NotImplementedError, SQLAlchemyError)):
                rep.proved(oid, 'pysym', f'refused ({type(e).__name__})', function=FN, clause=clause)
            else:
                rep.failed(oid, 'pysym', f'{type(e).__name__}: {e}'[:150], function=FN, clause=clause, replay=replay_exec(sql))
            continue
        if gl != lim or (go or None) != (off or None) and go != off:
            rep.failed(oid, 'pysym', f'`{sql}` is rendered with LIMIT {gl} OFFSET {go}', function=FN, clause=clause, replay=replay_exec(sql))
        else:
            rep.proved(oid, 'pysym', f'LIMIT {gl} OFFSET {go}', function=FN, clause=clause)


DML_EXEC = [
    'UPDATE t SET b = 0 WHERE a = 2', 'UPDATE t SET b = 0, c = \'k\' WHERE a = 2 AND id > 2', 'UPDATE t SET b = b + 1', 'UPDATE t SET b = a WHERE c IS NULL',
    'DELETE FROM t WHERE a = 2', 'DELETE FROM t WHERE a = 2 OR b IS NULL', 'DELETE FROM t', 'DELETE FROM t WHERE id IN (SELECT id FROM u)',
    "INSERT INTO t (id, a, b, c) VALUES (10, 1, 2, 'n')", "INSERT INTO t (id, c) VALUES (10, 'n'), (11, 'it''s')", 'INSERT INTO t (id, a) SELECT id, a FROM u',
    'CREATE TABLE z (id int, name varchar)', 'DROP TABLE u',
]


def _dump(con):
    out = {}
    for (name,) in con.execute("SELECT name FROM sqlite_master WHERE type = 'table' ORDER BY name").fetchall():
        cols = [r[1] for r in con.execute(f'PRAGMA table_info({name})').fetchall()]
        out[name] = (cols, sorted(map(repr, con.execute(f'SELECT * FROM {name}').fetchall())))
    return out


def replay_exec_dml(sql):
    try:
        con1, con2 = sqlite_env(), sqlite_env()
        con1.execute(sql)
    except Exception as e:
        return {'input': sql, 'dialect': 'mindsdb', 'fires': False, 'observed': f'the original does not run on sqlite: {type(e).__name__}: {e}'[:120]}
    try:
        txt = text_of(sql, 'sqlite')
    except (NotImplementedError, SQLAlchemyError, ParsingException) as e:
        return {'input': sql, 'dialect': 'mindsdb', 'fires': False, 'observed': f'refused: {type(e).__name__}'}
    try:
        con2.execute(txt)
    except Exception as e:
        return {'input': sql, 'dialect': 'mindsdb', 'fires': True, 'observed': f'rendered `{" ".join(txt.split())}` fails on sqlite: {type(e).__name__}: {e}'[:300], 'expected': 'the effect of the original statement'}
    want, got = _dump(con1), _dump(con2)
    diff = {k: (want.get(k), got.get(k)) for k in set(want) | set(got) if want.get(k) != got.get(k)}
    return {'input': sql, 'dialect': 'mindsdb', 'fires': bool(diff), 'observed': f'rendered `{" ".join(txt.split())}` leaves {({k: v[1] for k, v in diff.items()})}'[:300],
            'expected': f'{({k: v[0] for k, v in diff.items()})}'[:200]}


# ------------------------------------------------------------------ differential execution
def sqlite_env():
    con = sqlite3.connect(':memory:')
    for t in ('a', 'b', 't', 'u'):
        con.execute(f'CREATE TABLE {t} (id, a, b, c)')
    con.executemany('INSERT INTO a VALUES (?,?,?,?)', [(1, 1, 10, 'x'), (2, 2, None, 'y'), (3, 2, 30, None), (5, None, 50, 'z')])
    con.executemany('INSERT INTO b VALUES (?,?,?,?)', [(1, 5, 50, 'x'), (2, 2, 60, 'q'), (2, 7, None, 'y'), (9, 9, 90, None)])
    con.executemany('INSERT INTO t VALUES (?,?,?,?)', [(1, 1, 3, 'x'), (2, 2, None, 'y'), (3, 2, 1, None), (4, None, 2, 'x'), (5, 1, 3, 'x')])
    con.executemany('INSERT INTO u VALUES (?,?,?,?)', [(1, 2, 3, 'x'), (2, 2, None, 'y'), (3, 8, 1, None)])
    return con


def run_both(sql):
    con = sqlite_env()
    want = con.execute(sql).fetchall()
    txt = text_of(sql, 'sqlite')
    got = con.execute(txt).fetchall()
    return want, got, txt


def replay_exec(sql):
    try:
        con = sqlite_env()
        want = con.execute(sql).fetchall()
    except Exception as e:
        return {'input': sql, 'dialect': 'mindsdb', 'fires': False, 'observed': f'the original does not run on sqlite: {type(e).__name__}: {e}'[:120]}
    try:
        txt = text_of(sql, 'sqlite')
    except (NotImplementedError, SQLAlchemyError, ParsingException) as e:
        return {'input': sql, 'dialect': 'mindsdb', 'fires': False, 'observed': f'refused: {type(e).__name__}'}
    try:
        got = con.execute(txt).fetchall()
    except Exception as e:
        # the original runs, the rendering does not: not the same statement
        return {'input': sql, 'dialect': 'mindsdb', 'fires': True, 'observed': f'rendered `{" ".join(txt.split())}` fails on sqlite: {type(e).__name__}: {e}'[:300], 'expected': f'{want}'[:200]}
    ordered = 'order by' in sql.lower()
    same = (want == got) if ordered else (sorted(map(repr, want)) == sorted(map(repr, got)))
    return {'input': sql, 'dialect': 'mindsdb', 'fires': not same, 'observed': f'rendered `{" ".join(txt.split())}` returns {got}'[:300], 'expected': f'{want}'[:200]}


EXEC_QUERIES = [
    'select a.id, b.id from a join b on a.id = b.id', 'select a.id, b.id from a left join b on a.id = b.id', 'select a.id, b.id from a left outer join b on a.id = b.id',
    'select a.id, b.id from a right join b on a.id = b.id', 'select a.id, b.id from a full join b on a.id = b.id', 'select a.id, b.id from a full outer join b on a.id = b.id',
    'select a.id, b.id from a inner join b on a.id = b.id', 'select a.id, b.id from a cross join b on a.id = b.id',
    'select a, b from t order by b desc, a', 'select a, b from t order by b nulls first, a', 'select a, b from t order by b desc nulls last, id',
    'select distinct a from t', 'select a from t union select a from u', 'select a from t union all select a from u', 'select a from t intersect select a from u', 'select a from t except select a from u',
    'select a, count(*) from t group by a having count(*) > 1', 'select id, a from t where a = 2 or b > 2', 'select id from t where not a = 2', 'select id from t where a in (1, 2) and b is not null',
    'select id from t where b between 1 and 3', 'select id, a + b * 2, a - b - 1, (a + b) * 2 from t', "select id, case when a = 1 then 'one' when a = 2 then 'two' else 'other' end from t",
    'select id, sum(b) over (partition by a order by id) from t', 'select id, sum(b) over (partition by a order by b nulls last, id) from t',
    'select a from t limit 2 offset 1', 'select a from t order by a limit 0', 'select id from t where a in (select a from u order by a limit 0)', 'select x.a from (select a from t order by a limit 1 offset 1) as x', 'select x.a from (select a from t where a > 1) as x', 'with w as (select a from t) select a from w', 'select id from t where a in (select a from u)',
    'select id from t where a = NULL', 'select id from t where a <> NULL', 'select id from t where not a = NULL', 'select id from t where NULL = a', 'select a.id from a join b on a.b = NULL',
    "select id, c || 'z' from t", 'select id from t where c like \'x%\'', 'select cast(a as varchar) from t', 'select - a, a % 2 from t where a is not null',
]


def _family_queries():
    """generated families: every predicate form with and without negation (row sets differ on the test tables), and string constants with characters
    that need care in a literal, in every statement kind"""
    out = []
    preds = {'exists': 'exists (select 1 from u where u.a = t.a)', 'in-sub': 'a in (select a from u)', 'in-list': 'a in (1, 8)', 'between': 'b between 2 and 3', 'like': "c like 'x%'",
             'is-null': 'b is null', 'eq': 'a = 2', 'lt': 'b < 3', 'is-true': '(a = 2) is true', 'is-col': 'a is b', 'is-not-null': 'b is not null'}
    neg = {'exists': 'not exists (select 1 from u where u.a = t.a)', 'in-sub': 'a not in (select a from u where a is not null)', 'in-list': 'a not in (1, 8)', 'between': 'b not between 2 and 3',
           'like': "c not like 'x%'", 'is-null': 'b is not null', 'eq': 'not a = 2', 'lt': 'not b < 3', 'is-true': '(a = 2) is not true', 'is-col': 'a is not b', 'is-not-null': 'b is null'}
    for k in preds:
        # the generic negation: NOT ( p ) and NOT p for every predicate form (a renderer that builds NOT from the negation its library knows may lose it)
        out.append((f'pred.NOT-paren-{k}', f'select id from t where not ({preds[k]})'))
        out.append((f'pred.NOT-paren-not-{k}', f'select id from t where not ({neg[k]})'))
        out.append((f'pred.NOT-NOT-{k}', f'select id from t where not (not ({preds[k]}))'))
        out.append((f'pred.NOT-in-target-{k}', f'select id, not ({preds[k]}) from t'))
        out.append((f'pred.{k}', f'select id from t where {preds[k]}'))
        out.append((f'pred.not-{k}', f'select id from t where {neg[k]}'))
        out.append((f'pred.{k}.and', f'select id from t where id > 1 and {preds[k]}'))
        out.append((f'pred.not-{k}.or', f'select id from t where id = 1 or {neg[k]}'))
    # every clause on its own and in the combinations a renderer may couple wrongly (HAVING without GROUP BY, ORDER BY / LIMIT without WHERE, DISTINCT with ORDER BY)
    for name, q_ in (('having-no-group', 'select count(*) from t having count(*) > 10'), ('having-no-group-true', 'select count(*) from t having count(*) > 1'),
                     ('group-no-having', 'select b, count(*) from t group by b'), ('group-having', 'select b, count(*) from t group by b having count(*) > 1'),
                     ('order-limit', 'select id from t order by id desc limit 2'), ('distinct-order', 'select distinct b from t order by b'), ('offset', 'select id from t order by id limit 2 offset 1'),
                     ('where-group-order', 'select b, max(a) from t where id > 1 group by b order by b')):
        out.append((f'clause.{name}', q_))
    for name, lit in (('squote', "it''s"), ('two-squotes', "a''b''c"), ('only-squote', "''"), ('backslash', 'a\\b'), ('percent', '50%'), ('dquote', 'say "x"'), ('comment', "x'' -- y"), ('semicolon', 'a;b'),
                      ('backtick', 'a`b'), ('colon', ':p1'), ('newline', 'a\nb')):
        out.append((f'lit.{name}.select', f"select id, '{lit}' from t where c = 'x'"))
        out.append((f'lit.{name}.where', f"select id from t where c = '{lit}' or c <> '{lit}' order by id"))
    return out


def _family_dml():
    out = []
    for name, lit in (('squote', "it''s"), ('comment', "x'' -- y"), ('backslash', 'a\\b'), ('colon', ':p1'), ('percent', '50%')):
        out.append((f'lit.{name}.update', f"UPDATE t SET c = '{lit}' WHERE a = 2"))
        out.append((f'lit.{name}.insert', f"INSERT INTO t (id, c) VALUES (20, '{lit}')"))
        out.append((f'lit.{name}.delete', f"DELETE FROM t WHERE c <> '{lit}'"))
    for k, cond in (('exists', 'exists (select 1 from u where u.a = t.a)'), ('not-exists', 'not exists (select 1 from u where u.a = t.a)'), ('not-in', 'a not in (1, 8)'), ('not-between', 'b not between 2 and 3')):
        out.append((f'pred.{k}.delete', f'DELETE FROM t WHERE {cond}'))
        out.append((f'pred.{k}.update', f'UPDATE t SET b = 0 WHERE {cond}'))
    return out


def bounded(rep, tier):
    n = 0
    fam = _family_queries()
    for name, sql in fam:
        n += 1
        r = replay_exec(sql)
        if r['fires']:
            rep.add_bounded(Bounded(f'C06.bounded.exec.{name}', False, sql, r['observed'], r.get('expected'), bound=f'{len(fam)} generated queries'))
    famd = _family_dml()
    for name, sql in famd:
        n += 1
        r = replay_exec_dml(sql)
        if r['fires']:
            rep.add_bounded(Bounded(f'C06.bounded.exec.{name}', False, sql, r['observed'], r.get('expected'), bound=f'{len(famd)} generated statements'))
    for i, sql in enumerate(EXEC_QUERIES):
        n += 1
        r = replay_exec(sql)
        if r['fires']:
            rep.add_bounded(Bounded(f'C06.bounded.exec.q{i:02d}', False, sql, r['observed'], r.get('expected'), bound=f'{len(EXEC_QUERIES)} queries'))
    for i, sql in enumerate(DML_EXEC):
        n += 1
        r = replay_exec_dml(sql)
        if r['fires']:
            rep.add_bounded(Bounded(f'C06.bounded.exec.dml{i:02d}', False, sql, r['observed'], r.get('expected'), bound=f'{len(DML_EXEC)} statements'))
    rep.bounded_evals = n
    rep.bounded_rule = 'UPDATE / DELETE / INSERT / CREATE TABLE / DROP TABLE: original vs sqlite rendering executed on two copies of the database, all table contents compared; queries over join kinds, ordering with NULLS, set operations, grouping, expressions, CASE, windows, sub-queries, CTE: original text vs sqlite rendering executed on sqlite3 (4 small tables with NULLs and duplicates); ordered comparison when the query orders'


def stateless_obligation(rep, prop):
    """a renderer object keeps no state between calls: outside __init__ no method stores to / mutates an attribute of self (so the text rendered for a
    tree cannot depend on what the same renderer rendered before)"""
    from vlib import frames
    sites = frames.self_state_writes(RENDER, 'SqlalchemyRender')
    oid = f'{prop}.stateless'
    clause = 'SqlalchemyRender methods other than __init__ do not write attributes of self (no per-renderer caches or modes)'
    if not sites:
        rep.proved(oid, 'frames', 'no store to / mutation of self.* outside __init__', function=f'{RENDER}:SqlalchemyRender', clause=clause)
    else:
        rep.failed(oid, 'frames', f'per-renderer state written at run time: {[ (s_.where, s_.text) for s_ in sites][:3]}', function=f'{RENDER}:SqlalchemyRender', clause=clause,
                   replay=replay_reused_renderer())


def replay_reused_renderer():
    """history witness: statements rendered by one renderer vs each rendered by a fresh renderer"""
    from mindsdb_sql import parse_sql
    from mindsdb_sql.render.sqlalchemy_render import SqlalchemyRender
    seqs = [['INSERT INTO t (a, b) VALUES (1, 2)', 'INSERT INTO t (b, a) VALUES (10, 20)', 'INSERT INTO t (b) VALUES (7)', 'UPDATE t SET b = 1 WHERE a = 2', 'DELETE FROM t WHERE b = 3'],
            ['SELECT 1, 1.0, true', 'SELECT 1.0, 1, 2', 'SELECT true, 1'], ['SELECT `Order Id` FROM t', 'SELECT a AS `Order Id` FROM `Order Id`'],
            ["SELECT 'a''b', 'c'", "SELECT 'c', 'a''b' FROM t WHERE x = 'c'"]]
    for dn in ('mysql', 'postgresql', 'sqlite', 'mssql'):
        for seq in seqs:
            shared = SqlalchemyRender(dn)
            for i, sql in enumerate(seq):
                try:
                    want = SqlalchemyRender(dn).get_string(parse_sql(sql), with_failback=False)
                    got = shared.get_string(parse_sql(sql), with_failback=False)
                except Exception:
                    continue
                if got != want:
                    return {'input': f'[{dn}] {seq[:i + 1]}', 'dialect': 'mindsdb', 'fires': True, 'observed': f'after {seq[:i]} the renderer gives `{" ".join(got.split())}`', 'expected': f'`{" ".join(want.split())}` (fresh renderer)'}
    return {'input': 'statement sequences on one renderer', 'dialect': 'mindsdb', 'fires': False, 'observed': 'same text as a fresh renderer'}


def check(rep, tier):
    from vlib import statecensus
    statecensus.obligations(rep, 'C06', 'render')
    stateless_obligation(rep, 'C06')
    rep.dropped = 'nothing is extracted: the real prepare_select / to_expression are run on every element of each finite decision domain; SQLAlchemy element trees are inspected'
    rep.assume('SQLAlchemy element semantics (Join.isouter/full; desc/nulls_first/nulls_last modifiers; CompoundSelect.keyword; operator objects) as documented',
               'the domains (join_type strings, operator tokens) are read from the grammars/corpus of the current tree',
               'semantic equivalence over all data is NOT decided (sqlite3 samples only)')
    rep.trust('SQLAlchemy', 'sqlite3 3.40 as reference engine')
    join_obligations(rep)
    join_chain_obligations(rep)
    aggregate_obligations(rep)
    alias_obligations(rep)
    order_obligations(rep)
    list_obligations(rep)
    dml_obligations(rep)
    ddl_limit_obligations(rep)
    setop_obligations(rep)
    operator_obligations(rep)
    bounded(rep, tier)
    rep.notes.append('Dispatch lemmas exhaustive over their finite domains; meaning of emitted text assumed.')
