"""C10 — every table and model in a query is routed to the place its name resolves to.

Deductive (pysym + z3; strings symbolic, `lower` an uninterpreted idempotent function, catalog membership an uninterpreted predicate):
  resolve.spec     resolve_database_table(t) == (lower(first part) if it names a known database and t has > 1 parts else default namespace,
                   t without that qualifier); raises PlanningException iff there is no namespace
  resolve.agree    for every identifier and catalog the join path's resolver (PlanJoinTablesQuery.resolve_table) routes to the same
                   integration and leaves the same table name as resolve_database_table          [relational, two real functions]
  model.*          get_predictor: key = lower(namespace.name), version suffix split off and kept, namespace defaulting
  strip.*          the push-down callback removes exactly a leading part equal (case-insensitively) to the integration
  init.*           catalog normalisation: names vs dicts, list vs legacy dict give the same databases / predictor index
Bounded: plans of the scenario family — integrations used == independently resolved integrations of the tables in the query;
invariance under letter case of qualifiers and under catalog form."""
import copy
import z3
from vlib import repo, pysym, plans
from vlib.core import PROVED, FAILED, UNDECIDED, Bounded
from vlib.pysym import SymObj, SymSeq, SymVal, SymDictU, Stub, Event, Unsupported, PathLimit

LEVEL = 'other'
MANIFEST = {
    'engine': 'pysym',
    'level': 'other',
    'technique': 'symbolic execution of both name resolvers against one specification and against each other (relational obligation), with uninterpreted lower() / catalog membership; sub-select inlining decision by case analysis over integration sets; metamorphic plan checks and a per-fetch foreign-table oracle as bounded stand-in',
    'text': 'The two resolvers, the predictor lookup, the qualifier-stripping callback and the catalog normalisation are proved against '
            'their specifications for all identifiers and catalogs; agreement of the two resolvers is a relational obligation over the '
            'real bodies. Routing over all table positions additionally depends on the walker (C13 findings are inherited, bounded here).',
    'note': 'Assumed: str.lower is a function with lower(lower(x)) == lower(x); catalog lists hold lower-cased names (established by '
            'QueryPlanner.__init__, init.* obligations). Bounded: generated/harvested scenarios; table discovery for the oracle is an '
            'independent reflective walk.',
}

QP = 'mindsdb_sql.planner.query_planner'
PJ = 'mindsdb_sql.planner.plan_join'
LOWER = z3.Function('str.lower', z3.StringSort(), z3.StringSort())
INDB = z3.Function('in_databases', z3.StringSort(), z3.BoolSort())


def _emit(rep, oid, v, fn, clause, replay=None):
    if v.status == PROVED:
        rep.proved(oid, 'pysym', v.detail, function=fn, seconds=v.seconds, clause=clause)
    elif v.status == FAILED:
        rp = replay() if callable(replay) else replay
        if rp is not None and rp.get('fires') is False:
            rp = {'input': None, 'observed': f'stock witness does not show it: {rp.get("observed")}'}
        rep.failed(oid, 'pysym', v.detail, function=fn, seconds=v.seconds, clause=clause, cex=v.cex, replay=rp)
    else:
        rep.undecided(oid, 'pysym', v.detail, function=fn, seconds=v.seconds, clause=clause)


def mk_planner(ex, default):
    """abstract QueryPlanner: databases membership is the uninterpreted predicate INDB on lower-cased names"""
    planner = SymObj(None, 'planner', prov='param')
    from mindsdb_sql.planner.query_planner import QueryPlanner as _QP
    planner.self_class = _QP          # members the contract does not describe (an extracted helper method) are the real ones of QueryPlanner
    planner.known_not_none = True
    dbs = SymSeq('planner.databases', lambda e, l: pysym.mk_str(l), prov='param')
    planner.fields['databases'] = dbs
    planner.fields['default_namespace'] = default

    def contains(ex_, cont, a, k):
        if cont is dbs:
            x = a[0]
            zx = x.t if isinstance(x, SymVal) else z3.StringVal(x)
            return SymVal('bool', INDB(zx))
        raise Unsupported('membership in another sequence')
    ex.method_stubs['__contains__'] = contains
    # str(identifier) inside error messages: an uninterpreted string
    ex.stubs[('mindsdb_sql.parser.ast.base', 'ASTNode.__str__')] = lambda ex_, a, k, node=None: pysym.mk_str(ex_.fresh_name('str(node)'))
    _install_lower(ex)
    return planner, dbs


def mk_ident(ex, n, with_alias):
    from mindsdb_sql.parser.ast import Identifier
    t = SymObj({Identifier}, 'table', prov='param')
    t.closed = True
    parts = ex.param_container([pysym.mk_str(f'part{i}') for i in range(n)])
    alias = None
    if with_alias:
        alias = SymObj({Identifier}, 'table.alias', prov='param')
        alias.closed = True
        alias.fields.update(parts=ex.param_container([pysym.mk_str('alias0')]), alias=None, parentheses=False)
    t.fields.update(parts=parts, alias=alias, parentheses=False)
    return t, parts


def z(x):
    return x.t if isinstance(x, SymVal) else z3.StringVal(x)


def spec_resolution(parts, default_t):
    """(condition 'qualified', database term when qualified)"""
    p0 = z(parts[0])
    qualified = z3.And(z3.BoolVal(len(parts) > 1), INDB(LOWER(p0)))
    return qualified, LOWER(p0)


def resolver_obligations(rep):
    from mindsdb_sql.exceptions import PlanningException
    from mindsdb_sql.parser.ast import Identifier
    for n in (1, 2, 3):
        for dflt in ('none', 'some'):
            for with_alias in (False, True):
                tag = f'parts{n}.default-{dflt}.{"alias" if with_alias else "noalias"}'

                def setup(ex, n=n, dflt=dflt, with_alias=with_alias):
                    default = None if dflt == 'none' else pysym.mk_str('default_namespace')
                    planner, dbs = mk_planner(ex, default)
                    t, parts = mk_ident(ex, n, with_alias)
                    ex.path_state.update(planner=planner, t=t, parts=list(parts), default=default)
                    return planner, t

                # ---- spec of resolve_database_table
                def make_args(ex, setup=setup):
                    planner, t = setup(ex)
                    return [planner, t], {}

                def post(ex, o, n=n):
                    st = o.state
                    parts, default = st['parts'], st['default']
                    qualified, dbterm = spec_resolution(parts, default)
                    if o.kind == 'raise':
                        if not issubclass(o.value, PlanningException):
                            return f'raises {o.value.__name__}'
                        ok, _ = ex.valid(z3.And(z3.Not(qualified), z3.BoolVal(default is None)), pc=o.pc)
                        return None if ok else 'raises PlanningException although the name resolves'
                    db, ident = o.value
                    ok, _ = ex.valid(z3.Implies(qualified, z(db) == dbterm) if not isinstance(db, type(None)) else z3.Not(qualified), pc=o.pc)
                    if not ok:
                        return 'a qualified table is not routed to lower(qualifier)'
                    if default is not None:
                        ok, _ = ex.valid(z3.Implies(z3.Not(qualified), z(db) == z(default)) if db is not None else z3.BoolVal(False), pc=o.pc)
                        if not ok:
                            return 'an unqualified table is not routed to the default namespace'
                    elif db is None:
                        return 'returns no database instead of raising'
                    rp = ident.fields.get('parts')
                    q, _ = ex.valid(qualified, pc=o.pc)
                    nq, _ = ex.valid(z3.Not(qualified), pc=o.pc)
                    want = parts[1:] if q else (parts if nq else None)
                    if want is None:
                        return 'path does not determine whether the name is qualified'
                    if not (isinstance(rp, list) and len(rp) == len(want) and all(a is b for a, b in zip(rp, want))):
                        return f'returned table parts {rp!r}, expected {want!r}'
                    if any(w[0] is st['t'] or w[0] is st['t'].fields['parts'] for w in o.writes):
                        return "the caller's identifier is modified"
                    return None
                v = pysym.verify(QP, 'QueryPlanner.resolve_database_table', make_args, post)
                _emit(rep, f'C10.resolve.spec.{tag}', v, f'{QP}:QueryPlanner.resolve_database_table',
                      'ensures db == (lower(parts[0]) if len(parts) > 1 and lower(parts[0]) in databases else default); parts without the qualifier; raises PlanningException iff no namespace; input untouched',
                      replay=lambda: replay_case())

                # ---- agreement of the two resolvers
                def run(ex, setup=setup):
                    planner, t = setup(ex)
                    pj = SymObj(None, 'self', prov='param')
                    pj.known_not_none = True
                    pj.fields['planner'] = planner
                    c1 = pysym.closure_of(QP, 'QueryPlanner.resolve_database_table')
                    c2 = pysym.closure_of(PJ, 'PlanJoinTablesQuery.resolve_table')
                    c1.no_stub = c2.no_stub = True
                    r1 = r2 = None
                    e1 = e2 = None
                    try:
                        r1 = ex.call_closure(c1, [planner, t], {})
                    except pysym.SymRaise as e:
                        e1 = e
                    try:
                        r2 = ex.call_closure(c2, [pj, t], {})
                    except pysym.SymRaise as e:
                        e2 = e
                    return (r1, e1, r2, e2)

                def post_agree(ex, o):
                    if o.kind != 'return':
                        return f'raises {o.value.__name__}'
                    r1, e1, r2, e2 = o.value
                    if (e1 is None) != (e2 is None):
                        return f'one resolver raises ({(e1 or e2).cls.__name__}) where the other returns'
                    if e1 is not None:
                        return None if e1.cls is e2.cls else 'different exceptions'
                    db1, id1 = r1
                    db2 = r2.fields.get('integration')
                    tbl2 = r2.fields.get('table')
                    if (db1 is None) != (db2 is None):
                        return 'one resolver finds a database, the other none'
                    if db1 is not None:
                        ok, model = ex.valid(z(db1) == z(db2), pc=o.pc)
                        if not ok:
                            return f'integrations differ: resolve_database_table -> {db1!r}, resolve_table -> {db2!r}'
                    p1, p2 = id1.fields.get('parts'), tbl2.fields.get('parts')
                    if not (isinstance(p1, list) and isinstance(p2, list) and len(p1) == len(p2) and all(a is b for a, b in zip(p1, p2))):
                        return f'table names differ: {p1!r} vs {p2!r}'
                    return None
                ex = pysym.Executor()
                ex.axioms.append(z3.ForAll([z3.String('s')], LOWER(LOWER(z3.String('s'))) == LOWER(z3.String('s'))))
                _install_lower(ex)
                try:
                    outs = ex.explore(run)
                    bad = next((r for r in (post_agree(ex, o) for o in outs) if r), None)
                    v = pysym.Verdict(FAILED, bad) if bad else pysym.Verdict(PROVED, f'{len(outs)} path(s)', ex.solver_time)
                except (Unsupported, PathLimit) as e:
                    v = pysym.Verdict(UNDECIDED, f'{type(e).__name__}: {e}')
                _emit(rep, f'C10.resolve.agree.{tag}', v, f'{QP}:QueryPlanner.resolve_database_table,{PJ}:PlanJoinTablesQuery.resolve_table',
                      'ensures resolve_table(t).integration == resolve_database_table(t)[0] and both leave the same table name, for every identifier and catalog',
                      replay=lambda n=n: replay_case(n))


def _install_lower(ex):
    from vlib.pysym import models
    orig = models.symval_method

    def sm(ex_, recv, name, args, kwargs, node):
        if name == 'lower' and recv.sort == 'str' and not args:
            return SymVal('str', LOWER(recv.t))
        return orig(ex_, recv, name, args, kwargs, node)
    models.symval_method = sm
    # map(str.lower, parts) / str.lower(x)
    ex.stubs[('builtins', 'str.lower')] = lambda ex_, a, k, node=None: SymVal('str', LOWER(z(a[0])))


def replay_case(n=2):
    """INT1.tbl1 JOIN int2.tbl2 must fetch tbl1 from int1"""
    from mindsdb_sql import parse_sql
    from mindsdb_sql.planner import plan_query
    from mindsdb_sql.planner.steps import FetchDataframeStep
    sql = 'SELECT * FROM INT1.tbl1 AS t1 JOIN int2.tbl2 AS t2 ON t1.id = t2.id'
    if n == 1:
        sql = 'SELECT * FROM int1 AS t1 JOIN int2.tbl2 AS t2 ON t1.id = t2.id'
    if n >= 3:
        # a schema that is spelled like another integration: only the first part is the qualifier
        sql = 'SELECT * FROM int1.int2.tbl1 AS t1 JOIN int2.tbl2 AS t2 ON t1.id = t2.id'
    try:
        plan = plan_query(parse_sql(sql), integrations=['int1', 'int2'], default_namespace='mindsdb', predictor_metadata=[])
        ints = [s.integration for s in plan.steps if isinstance(s, FetchDataframeStep)]
    except Exception as e:
        return {'input': sql, 'dialect': 'mindsdb', 'fires': True, 'observed': f'{type(e).__name__}: {e}'[:150]}
    want = ['int1', 'int2'] if n != 1 else ['mindsdb', 'int2']
    return {'input': sql, 'dialect': 'mindsdb', 'fires': ints != want, 'observed': f'fetches from {ints}', 'expected': f'{want}'}


# ------------------------------------------------------------------ get_predictor
def predictor_obligations(rep):
    fn = f'{QP}:QueryPlanner.get_predictor'
    for n in (1, 2, 3):
        for dflt in ('none', 'some'):
            for version in (False, True):
                tag = f'parts{n}.default-{dflt}.{"versioned" if version else "plain"}'

                def make_args(ex, n=n, dflt=dflt, version=version):
                    _install_lower(ex)
                    default = None if dflt == 'none' else pysym.mk_str('default_namespace')
                    planner = SymObj(None, 'self', prov='param')
                    planner.known_not_none = True
                    planner.fields['default_namespace'] = default
                    info = SymDictU('predictor_info', None, None, prov='param')
                    planner.fields['predictor_info'] = info
                    t, parts = mk_ident(ex, n, False)
                    digits = z3.Plus(z3.Range('0', '9'))
                    last = parts[-1]
                    if version:
                        ex.assume(z3.InRe(last.t, digits))
                    else:
                        ex.assume(z3.Not(z3.InRe(last.t, digits)))
                    found = SymDictU('metadata', None, None, prov='param')

                    def get(ex_, d, a, k):
                        ex_.log.append(Event('lookup', key=a[0]))
                        if ex_.choose(2, 'predictor known', ['yes', 'no']) == 0:
                            return found
                        return a[1] if len(a) > 1 else None
                    ex.method_stubs['dict.get'] = get
                    ex.path_state.update(parts=list(parts), default=default, found=found, n=n, version=version)
                    return [planner, t], {}

                def post(ex, o):
                    st = o.state
                    if o.kind != 'return':
                        return f'raises {o.value.__name__}'
                    look = [e for e in o.log if e.kind == 'lookup']
                    if len(look) != 1:
                        return f'{len(look)} metadata lookups'
                    parts = st['parts']
                    name_parts = parts[:-1] if (st['version'] and len(parts) > 1) else parts
                    name = name_parts[-1]
                    ns = name_parts[-2] if len(name_parts) > 1 else st['default']
                    want = z(name) if ns is None else z3.Concat(z(ns), z3.StringVal('.'), z(name))
                    ok, _ = ex.valid(z(look[0].key) == LOWER(want), pc=o.pc)
                    if not ok:
                        return f'metadata key is {look[0].key!r}, expected lower(namespace.name) with the version suffix split off'
                    if o.value is not None and o.value is not st['found'] and getattr(o.value, 'copy_of', None) is not st['found']:
                        return f'returns {o.value!r}, neither the metadata found nor a copy of it'
                    if o.value is st['found'] or getattr(o.value, 'copy_of', None) is st['found']:
                        ups = dict((k, v) for k, v in o.value.updates if isinstance(k, str))
                        ver = ups.get('version', '<unset>')
                        wantv = parts[-1] if (st['version'] and len(parts) > 1) else None
                        if ver is not wantv:
                            return f'version recorded as {ver!r}, expected {wantv!r}'
                    return None
                v = pysym.verify(QP, 'QueryPlanner.get_predictor', make_args, post)
                _emit(rep, f'C10.model.lookup.{tag}', v, fn,
                      'ensures one lookup with key lower([namespace .] name), a trailing all-digit part (when more than one part) is the version and is kept; the version recorded for this reference does not depend on earlier lookups',
                      replay=lambda version=version: replay_lookup(version))


def replay_lookup(versioned):
    """history witness: the same model looked up with another spelling first, then with this one; the version must be the one of THIS reference"""
    from mindsdb_sql import parse_sql
    from mindsdb_sql.parser.ast import Identifier
    from mindsdb_sql.planner.query_planner import QueryPlanner
    try:
        pl = QueryPlanner(parse_sql('select 1'), integrations=['int1'], predictor_metadata=[{'name': 'pred', 'integration_name': 'proj'}], default_namespace='mindsdb')
        first, second = ('proj.pred', 'proj.pred.3') if versioned else ('proj.pred.3', 'proj.pred')
        pl.get_predictor(Identifier(first))
        info = pl.get_predictor(Identifier(second))
        want = '3' if versioned else None
        got = info.get('version') if info else '<model not found>'
        return {'input': f'get_predictor({first}); get_predictor({second})', 'dialect': 'mindsdb', 'fires': got != want, 'observed': f'version {got!r}', 'expected': f'{want!r}'}
    except Exception as e:
        return {'input': 'get_predictor history', 'dialect': 'mindsdb', 'fires': False, 'observed': f'{type(e).__name__}: {e}'[:120]}


# ------------------------------------------------------------------ sub-selects: inline only if everything in them lives on the main integration
def nested_obligations(rep):
    from mindsdb_sql.parser.ast import Select, Parameter, Identifier
    fn = f'{QP}:QueryPlanner.get_nested_selects_plan_fnc.find_selects'
    cases = {'main-only': ({'main'}, 0), 'main+other': ({'main', 'other'}, 0), 'other-only': ({'other'}, 0), 'none': (set(), 0), 'main+model': ({'main'}, 1), 'other+model': ({'other'}, 1)}
    for cname, (ints, mdb) in cases.items():
        for force in (False, True):
            for kind in ('select', 'other'):
                if kind == 'other' and (cname != 'main-only' or force):
                    continue

                def run(ex, ints=ints, mdb=mdb, force=force, kind=kind):
                    planner = SymObj(None, 'self', prov='param')
                    planner.known_not_none = True
                    asked = []

                    def gqi(ex_, a, k):
                        asked.append(a[0])
                        return {'integrations': set(ints), 'mdb_entities': [object()] * mdb, 'predictors': [], 'user_functions': []}
                    planner.fields['get_query_info'] = Stub(gqi, 'get_query_info')
                    planned = []

                    def plan_select(ex_, a, k):
                        st_ = SymObj(None, 'last_step', prov='fresh')
                        st_.known_not_none = True
                        st_.fields['result'] = SymObj(None, 'sub_result', prov='fresh')
                        planned.append((a[0], st_))
                        return st_
                    planner.fields['plan_select'] = Stub(plan_select, 'plan_select')
                    clo = pysym.closure_of(QP, 'QueryPlanner.get_nested_selects_plan_fnc')
                    clo.no_stub = True
                    cb = ex.call_closure(clo, [planner, 'main'], {'force': force})
                    node = SymObj({Select if kind == 'select' else Identifier}, 'node', prov='param')
                    node.known_not_none = True
                    node.fields.update(parentheses=True, alias=None)
                    r = ex.call(cb, [node], {'is_table': False, 'is_target': False, 'parent_query': None})
                    ex.path_state.update(node=node, planned=planned, r=r)
                    return r

                def post(ex, o, ints=ints, mdb=mdb, force=force, kind=kind):
                    if o.kind != 'return':
                        return f'raises {getattr(o.value, "__name__", o.value)}'
                    st = o.state
                    inline_ok = (not force) and ints == {'main'} and mdb == 0
                    if kind == 'other':
                        return None if (st['r'] is None and not st['planned']) else 'a node that is not a sub-select is replaced'
                    if st['r'] is None:
                        if not inline_ok:
                            return f'a sub-select using integrations {sorted(ints)} and {mdb} mindsdb entit{"y" if mdb == 1 else "ies"} (force={force}) is left inside the query sent to the main integration'
                        return None
                    if len(st['planned']) != 1 or st['planned'][0][0] is not st['node']:
                        return 'the sub-select is replaced without being planned exactly once'
                    r = st['r']
                    if not (isinstance(r, SymObj) and r.cls is Parameter and r.fields.get('value') is st['planned'][0][1].fields['result']):
                        return f'the sub-select is replaced by {r!r}, not by a placeholder for its own result'
                    return None
                ex = pysym.Executor()
                try:
                    outs = ex.explore(run)
                    bad = next((r for r in (post(ex, o) for o in outs) if r), None)
                    v = pysym.Verdict(FAILED, bad) if bad else pysym.Verdict(PROVED, f'{len(outs)} path(s)', ex.solver_time)
                except (Unsupported, PathLimit) as e:
                    v = pysym.Verdict(UNDECIDED, f'{type(e).__name__}: {e}')
                _emit(rep, f'C10.nested.{cname}.force{int(force)}.{kind}', v, fn,
                      'a sub-select stays inside the pushed query only if every table of it lives on the main integration and it uses no mindsdb entity (and the integration is not an api); otherwise it is planned once and replaced by a placeholder for its result',
                      replay=lambda: replay_nested())


def replay_nested():
    from mindsdb_sql.planner.steps import FetchDataframeStep
    for sql in ('SELECT * FROM int1.tbl1 WHERE a IN (SELECT x.id FROM int1.tbl2 AS x JOIN int2.tbl3 AS y ON x.id = y.id)',
                'SELECT a, (SELECT max(y.b) FROM int1.tbl2 AS x JOIN int2.tbl3 AS y ON x.id = y.id) FROM int1.tbl1'):
        try:
            q, pl, plan, e, kw = plans.run_scenario({'source': 'replay', 'sql': sql, 'catalog': 'names'})
            if e is not None:
                continue
            for st_ in plan.steps:
                if isinstance(st_, FetchDataframeStep):
                    for t in tables_of(st_.query):
                        first = t.parts[0].lower() if len(t.parts) > 1 else None
                        if first in set(pl.databases) and first != str(st_.integration).lower():
                            return {'input': sql, 'dialect': 'mindsdb', 'fires': True, 'observed': f'the query sent to {st_.integration!r} mentions {t.to_string()!r}: `{str(st_.query)[:160]}`', 'expected': 'only tables of that integration'}
        except Exception as e:
            return {'input': sql, 'dialect': 'mindsdb', 'fires': False, 'observed': f'{type(e).__name__}: {e}'[:120]}
    return {'input': 'sub-selects joining two integrations', 'dialect': 'mindsdb', 'fires': False, 'observed': 'every fetch mentions only its own tables'}


# ------------------------------------------------------------------ qualifier stripping callback
def strip_obligations(rep):
    from mindsdb_sql.parser.ast import Identifier
    fn = f'{QP}:QueryPlanner.prepare_integration_select._prepare_integration_select'
    for n in (1, 2, 3):
        def run(ex, n=n):
            planner, _dbs = mk_planner(ex, pysym.mk_str('default_namespace'))
            captured = {}

            def qt(ex_, a, k, node=None):
                captured['cb'] = a[1]
                return None
            ex.stubs[('mindsdb_sql.planner.utils', 'query_traversal')] = qt
            database = pysym.mk_str('database')
            query = SymObj(None, 'query', prov='param')
            clo = pysym.closure_of(QP, 'QueryPlanner.prepare_integration_select')
            clo.no_stub = True
            ex.call_closure(clo, [planner, database, query], {})
            t, parts = mk_ident(ex, n, False)
            orig = list(parts)
            pq = SymObj(None, 'parent_query', prov='param')
            pq.known_not_none = True
            pq.closed = True          # no from_table attribute: the aliasing part of the callback is skipped
            r = ex.call(captured['cb'], [t], {'is_table': True, 'is_target': False, 'parent_query': pq})
            ex.path_state.update(t=t, orig=orig, database=database)
            return r

        def post(ex, o, n=n):
            if o.kind != 'return':
                return f'raises {o.value.__name__}'
            st = o.state
            parts = st['t'].fields['parts']
            cond = z3.And(z3.BoolVal(n > 1), LOWER(z(st['orig'][0])) == z(st['database']))
            yes, _ = ex.valid(cond, pc=o.pc)
            no, _ = ex.valid(z3.Not(cond), pc=o.pc)
            if not (yes or no):
                return 'path does not determine whether the qualifier matches'
            want = st['orig'][1:] if yes else st['orig']
            if not (len(parts) == len(want) and all(a is b for a, b in zip(parts, want))):
                return f'parts after the callback {parts!r}, expected {want!r}'
            return None
        ex = pysym.Executor()
        try:
            outs = ex.explore(run)
            bad = next((r for r in (post(ex, o) for o in outs) if r), None)
            v = pysym.Verdict(FAILED, bad) if bad else pysym.Verdict(PROVED, f'{len(outs)} path(s)', ex.solver_time)
        except (Unsupported, PathLimit) as e:
            v = pysym.Verdict(UNDECIDED, f'{type(e).__name__}: {e}')
        _emit(rep, f'C10.strip.parts{n}', v, fn, 'ensures the first part is removed iff there is more than one part and lower(first part) == integration; nothing else changes')


# ------------------------------------------------------------------ catalog normalisation
def init_obligations(rep):
    fn = f'{QP}:QueryPlanner.__init__'
    from mindsdb_sql.planner.query_planner import QueryPlanner

    def build(ex, form):
        _install_lower(ex)
        s1, s2 = pysym.mk_str('name1'), pysym.mk_str('name2')
        if form == 'names':
            ints = [s1, s2]
        else:
            ints = [{'name': s1, 'type': 'data'}, {'name': s2, 'type': 'data'}]
        planner = SymObj({QueryPlanner}, 'planner', prov='fresh')
        clo = pysym.closure_of(QP, 'QueryPlanner.__init__')
        clo.no_stub = True
        ex.call_closure(clo, [planner], {'integrations': ints, 'default_namespace': 'mindsdb', 'predictor_metadata': []})
        return planner

    def run(ex):
        a = build(ex, 'names')
        b = build(ex, 'dicts')
        return (a, b)

    def post(ex, o):
        if o.kind != 'return':
            return f'raises {o.value.__name__}'
        a, b = o.value
        ka, kb = list(a.fields['integrations'].keys()), list(b.fields['integrations'].keys())
        if len(ka) != len(kb):
            return f'integration keys differ: {ka!r} vs {kb!r}'
        for x, y in zip(ka, kb):
            ok, _ = ex.valid(z(x) == z(y), pc=o.pc)
            if not ok:
                return f'integration key {x!r} (names form) vs {y!r} (dict form)'
            ok, _ = ex.valid(z(x) == LOWER(z3.String('name1')) if x is ka[0] else z(x) == LOWER(z3.String('name2')), pc=o.pc)
            if not ok:
                return f'integration key {x!r} is not the lower-cased name'
        da, db = a.fields['databases'], b.fields['databases']
        if len(da) != len(db):
            return 'databases differ between catalog forms'
        return None
    ex = pysym.Executor()
    try:
        outs = ex.explore(run)
        bad = next((r for r in (post(ex, o) for o in outs) if r), None)
        v = pysym.Verdict(FAILED, bad) if bad else pysym.Verdict(PROVED, f'{len(outs)} path(s)', ex.solver_time)
    except (Unsupported, PathLimit) as e:
        v = pysym.Verdict(UNDECIDED, f'{type(e).__name__}: {e}')
    _emit(rep, 'C10.init.names-vs-dicts', v, fn, 'ensures integrations given as names and as {name, type: data} dicts yield the same lower-cased keys and databases')

    # predictor catalog: list-of-dicts form and legacy {name: info} form yield the same lower-cased project names and model keys
    def build_p(ex, form, with_project):
        _install_lower(ex)
        proj = pysym.mk_str('project')
        info = {'integration_name': proj} if with_project else {}
        if form == 'list':
            info = dict(info, name='Pred')
            pm = [info]
        else:
            pm = {'Pred': info}
        planner = SymObj({QueryPlanner}, 'planner', prov='fresh')
        clo = pysym.closure_of(QP, 'QueryPlanner.__init__')
        clo.no_stub = True
        ex.call_closure(clo, [planner], {'integrations': [], 'default_namespace': 'mindsdb', 'predictor_metadata': pm})
        return planner

    for with_project in (True, False):
        def run_p(ex, with_project=with_project):
            return (build_p(ex, 'list', with_project), build_p(ex, 'legacy', with_project))

        def post_p(ex, o, with_project=with_project):
            if o.kind != 'return':
                return f'raises {o.value.__name__}'
            want_proj = LOWER(z3.String('project')) if with_project else z3.StringVal('mindsdb')
            for form, pl in zip(('list', 'legacy'), o.value):
                projs = pl.fields['projects']
                if not isinstance(projs, list):
                    return f'[{form} form] projects = {projs!r}'
                rest = [q for q in projs if not (isinstance(q, str) and q == 'mindsdb')]
                if with_project:
                    if len(rest) != 1:
                        return f'[{form} form] projects = {projs!r}, expected the default namespace and the one project of the catalog'
                    ok, _ = ex.valid(z(rest[0]) == want_proj, pc=o.pc)
                    if not ok:
                        return f'[{form} form] project name {rest[0]!r} is not the lower-cased project of the catalog entry (qualified model names written in another case are not recognised)'
                elif rest or 'mindsdb' not in projs:
                    return f'[{form} form] projects = {projs!r}, expected only the default namespace'
                dbs = pl.fields['databases']
                if not (isinstance(dbs, list) and len(dbs) == len(projs) and all(any(d is q for q in projs) for d in dbs)):
                    return f'[{form} form] databases = {dbs!r} differ from projects {projs!r} (no integrations given)'
                keys = list(pl.fields['predictor_info'].keys())
                if len(keys) != 1:
                    return f'[{form} form] predictor_info keys {keys!r}'
                wk = LOWER(z3.Concat(z3.String('project'), z3.StringVal('.Pred'))) if with_project else None
                if wk is not None:
                    ok, _ = ex.valid(z(keys[0]) == wk, pc=o.pc)
                    if not ok:
                        return f'[{form} form] model key {keys[0]!r} is not lower(project.name)'
                elif not (isinstance(keys[0], str) and keys[0] == 'mindsdb.pred'):
                    return f'[{form} form] model key {keys[0]!r}, expected mindsdb.pred'
            return None
        ex = pysym.Executor()
        try:
            outs = ex.explore(run_p)
            bad = next((r for r in (post_p(ex, o) for o in outs) if r), None)
            v = pysym.Verdict(FAILED, bad) if bad else pysym.Verdict(PROVED, f'{len(outs)} path(s)', ex.solver_time)
        except (Unsupported, PathLimit) as e:
            v = pysym.Verdict(UNDECIDED, f'{type(e).__name__}: {e}')
        _emit(rep, f'C10.init.predictors.list-vs-legacy.{"project" if with_project else "default"}', v, fn,
              'ensures both catalog forms yield projects == [lower(project)] (default: the predictor namespace), databases likewise, model key lower(project.name)',
              replay=replay_catalog_form)


def replay_catalog_form():
    from mindsdb_sql import parse_sql
    from mindsdb_sql.planner import plan_query
    from mindsdb_sql.planner.steps import ApplyPredictorStep
    sql = 'select * from int1.tbl1 as t join Proj.pred as m'
    out = {}
    for form, pm in (('list', [{'name': 'pred', 'integration_name': 'Proj'}]), ('legacy', {'pred': {'integration_name': 'Proj'}})):
        try:
            p = plan_query(parse_sql(sql), integrations=['int1'], predictor_metadata=pm, default_namespace='mindsdb')
            ap = [s for s in p.steps if isinstance(s, ApplyPredictorStep)]
            out[form] = (ap[0].namespace, str(ap[0].predictor)) if ap else None
        except Exception as e:
            out[form] = f'{type(e).__name__}: {e}'[:80]
    return {'input': sql + ' with the catalog entry {name: pred, integration_name: Proj} in list form and in legacy dict form', 'dialect': 'mindsdb',
            'fires': out['list'] != out['legacy'] or out['list'] != ('proj', 'pred'), 'observed': repr(out), 'expected': "('proj', 'pred') for both forms"}


# ------------------------------------------------------------------ bounded
def tables_of(query):
    """independent reflective discovery of table identifiers: from_table / join sides of every Select, DML targets"""
    from mindsdb_sql.parser import ast
    from vlib import corpus
    out = []
    for path, n in corpus.walk_nodes(query):
        if isinstance(n, ast.Select) and n.from_table is not None:
            stack = [n.from_table]
            while stack:
                x = stack.pop()
                if isinstance(x, ast.Join):
                    stack += [x.right, x.left]
                elif isinstance(x, ast.Identifier):
                    out.append(x)
        if isinstance(n, (ast.Insert, ast.Update, ast.Delete)) and isinstance(getattr(n, 'table', None), ast.Identifier):
            out.append(n.table)
    return out


def plan_signature(plan):
    from mindsdb_sql.planner.steps import FetchDataframeStep
    sig = []
    for s in plan.steps:
        item = type(s).__name__
        if isinstance(s, FetchDataframeStep):
            item += f'@{s.integration}'
        for k in ('namespace', 'predictor'):
            if hasattr(s, k):
                item += f'[{k}={getattr(s, k)}]'
        sig.append(item)
    return sig


def bounded(rep, tier):
    from mindsdb_sql import parse_sql
    from mindsdb_sql.planner.query_planner import QueryPlanner
    from mindsdb_sql.planner.steps import FetchDataframeStep
    import re
    n = 0
    fails = {}
    cats = plans.catalogs()
    for qname, sql in plans.generated_queries(tier):
        # catalogs whose default namespace is a data integration / absent: name resolution has one more case there (quick: the families about names)
        more = ('default-int1', 'no-default') if (tier != 'quick' or qname.startswith(('three-part', 'single-join-qualified', 'cte', 'subselect', 'model-version', 'ts-version', 'case-qualifier', 'single-int'))) else ()
        for cname in ('names', 'dicts') + more:
            n += 1
            sc = {'source': f'gen:{cname}:{qname}', 'sql': sql, 'catalog': cname}
            try:
                q, pl, plan, e, kw = plans.run_scenario(sc)
            except Exception:
                continue
            if e is not None or plan is None:
                continue
            # (a) integrations fetched from == integrations the table names resolve to
            dbs = set(pl.databases)
            want = set()
            ctes = set()
            orig = parse_sql(sql)
            from mindsdb_sql.parser import ast
            if isinstance(orig, ast.Select) and orig.cte:
                ctes = {c.name.parts[-1] for c in orig.cte}
            # WITH clauses of nested selects (operands of set operations, sub-selects): their names are CTE references inside that select
            nested_ctes = {}
            for _pth, x_ in __import__('vlib.corpus', fromlist=['x']).walk_nodes(orig):
                if isinstance(x_, ast.Select) and x_.cte and x_ is not orig:
                    names_ = {c.name.parts[-1] for c in x_.cte}
                    for t_ in tables_of(x_):
                        if not any(t_ is tt for c in x_.cte for tt in tables_of(c.query)):
                            nested_ctes.setdefault(id(t_), set()).update(names_)
            dml_targets = {id(x.table) for pth, x in __import__('vlib.corpus', fromlist=['x']).walk_nodes(orig) if isinstance(x, (ast.Insert, ast.Update, ast.Delete))}
            # a name inside the body of a CTE refers to an EARLIER CTE of that name only (a CTE does not see itself): `WITH t AS (SELECT * FROM t)` reads the table t
            visible = {}
            if isinstance(orig, ast.Select) and orig.cte:
                earlier = set()
                for c_ in orig.cte:
                    for t_ in tables_of(c_.query):
                        visible[id(t_)] = set(earlier)
                    earlier.add(c_.name.parts[-1])
            for t in tables_of(orig):
                if len(t.parts) == 1 and (t.parts[0] in visible.get(id(t), ctes) or t.parts[0] in nested_ctes.get(id(t), ())):
                    continue
                if id(t) in dml_targets:
                    continue                      # DML targets are named in the DML step, not fetched
                first = t.parts[0].lower() if len(t.parts) > 1 else None
                db = first if first in dbs else pl.default_namespace
                # a name qualified by a DATA integration is a table of that integration, whatever its schema.table part is spelled like (`int1.proj.pred2`)
                in_data_integration = first in dbs and first not in {str(p_).lower() for p_ in (getattr(pl, 'projects', None) or [])}
                if (in_data_integration or pl.get_predictor(t) is None) and db is not None:
                    want.add(db)
            def all_fetches(steps):
                # fetch steps of the plan, including those nested in MultipleSteps / map-reduce containers
                for s_ in steps:
                    if isinstance(s_, FetchDataframeStep):
                        yield s_
                    sub = getattr(s_, 'steps', None) if type(s_).__name__ == 'MultipleSteps' else (getattr(s_, 'step', None) if type(s_).__name__ == 'MapReduceStep' else None)
                    if sub is not None:
                        yield from all_fetches(sub if isinstance(sub, list) else [sub])
            fetch_steps = list(all_fetches(plan.steps))
            got = {s.integration for s in fetch_steps}
            # a sub-select of DELETE / UPDATE that reads the integration of the target table stays inside the DML step: no fetch is needed for it
            dml_dbs = set()
            for _pth, x_ in __import__('vlib.corpus', fromlist=['x']).walk_nodes(orig):
                if isinstance(x_, (ast.Delete, ast.Update)) and isinstance(x_.table, ast.Identifier):
                    f_ = x_.table.parts[0].lower() if len(x_.table.parts) > 1 else None
                    dml_dbs.add(f_ if f_ in dbs else pl.default_namespace)
            if got != want and not (got <= want and (want - got) <= dml_dbs):
                fails.setdefault(f'C10.bounded.integrations.{qname.split(":")[0]}', (sql, f'[{cname}] fetches from {sorted(map(str, got))}, tables resolve to {sorted(map(str, want))}'))
            # (a') no fetch query mentions a table that belongs to another integration
            # (a schema of integration X may be spelled like another database: `X.Y.tbl` is the table Y.tbl of X)
            residual = {}
            for t in tables_of(orig):
                if len(t.parts) > 2 and isinstance(t.parts[0], str) and t.parts[0].lower() in dbs:
                    residual.setdefault(t.parts[0].lower(), set()).add(tuple(str(p_).lower() for p_ in t.parts[1:]))
            for st_ in fetch_steps:
                if st_.query is not None:
                    for t in tables_of(st_.query):
                        first = t.parts[0].lower() if len(t.parts) > 1 else None
                        if tuple(str(p_).lower() for p_ in t.parts) in residual.get(str(st_.integration).lower(), ()):
                            continue
                        if first in dbs and first != str(st_.integration).lower():
                            fails.setdefault(f'C10.bounded.foreign-table.{qname.split(":")[0]}', (sql, f'[{cname}] the query sent to {st_.integration!r} mentions {t.to_string()!r}: `{str(st_.query)[:140]}`'))
            # (a'') every model application names the model the query names: namespace it resolves to + name + version, for every kind of apply step
            def all_applies(steps):
                for s_ in steps:
                    if type(s_).__name__.startswith('Apply') and hasattr(s_, 'predictor'):
                        yield s_
                    sub = getattr(s_, 'steps', None) if type(s_).__name__ == 'MultipleSteps' else (getattr(s_, 'step', None) if type(s_).__name__ == 'MapReduceStep' else None)
                    if sub is not None:
                        yield from all_applies(sub if isinstance(sub, list) else [sub])
            want_models = set()
            for t in tables_of(orig):
                try:
                    info = pl.get_predictor(t)
                except Exception:
                    info = None
                if info is None or (len(t.parts) == 1 and t.parts[0] in visible.get(id(t), ctes)):
                    continue
                if len(t.parts) > 1 and str(t.parts[0]).lower() in dbs and str(t.parts[0]).lower() not in {str(p_).lower() for p_ in (getattr(pl, 'projects', None) or [])}:
                    continue                      # a table of a data integration, not a model
                parts_l = [str(p_).lower() for p_ in t.parts]
                ns = str(info.get('integration_name') or '').lower()
                tail = parts_l[1:] if len(parts_l) > 1 and parts_l[0] == ns else parts_l
                want_models.add((ns, tuple(tail)))
            got_models = {(str(a_.namespace).lower(), tuple(str(p_).lower() for p_ in a_.predictor.parts)) for a_ in all_applies(plan.steps)}
            if got_models != want_models and (want_models or got_models) and not (want_models and not got_models):
                fails.setdefault(f'C10.bounded.model-identity.{qname.split(":")[0]}', (sql, f'[{cname}] models applied: {sorted(got_models)}, models named by the query: {sorted(want_models)}'))
            # (b) letter case of qualifiers does not matter
            sql_up = re.sub(r'\b(int1|int2|api1|proj|mindsdb)\.', lambda m: m.group(1).upper() + '.', sql)
            if sql_up != sql:
                n += 1
                try:
                    q2, pl2, plan2, e2, _ = plans.run_scenario({'source': 'case', 'sql': sql_up, 'catalog': cname})
                    if e2 is None and plan_signature(plan2) != plan_signature(plan):
                        fails.setdefault(f'C10.bounded.case.{qname.split(":")[0]}', (sql_up, f'plan {plan_signature(plan2)} differs from lower-case spelling {plan_signature(plan)}'))
                    elif e2 is not None:
                        fails.setdefault(f'C10.bounded.case.{qname.split(":")[0]}', (sql_up, f'{type(e2).__name__}: {e2}'[:150]))
                except Exception as ex_:
                    pass
        # (c) catalog form does not matter
        sigs = {}
        for cname in ('names', 'dicts'):
            try:
                q, pl, plan, e, kw = plans.run_scenario({'source': 'form', 'sql': sql, 'catalog': cname})
                sigs[cname] = plan_signature(plan) if e is None else type(e).__name__
            except Exception:
                pass
        if len(sigs) == 2 and sigs['names'] != sigs['dicts'] and 'api1' not in sql and 'proj' not in sql:
            fails.setdefault(f'C10.bounded.catalog-form.{qname.split(":")[0]}', (sql, f'{sigs}'))
    rep.bounded_evals = n
    rep.bounded_rule = ('generated query family x {names, dicts} catalogs: set of integrations fetched from == independently resolved integrations of the tables '
                        '(reflective table discovery); same plan signature for upper-cased qualifiers; same signature for both catalog forms')
    for cid, (inp, obs) in sorted(fails.items()):
        rep.add_bounded(Bounded(cid, False, inp, obs, 'routing follows name resolution', bound='scenario family'))


def check(rep, tier):
    from vlib import statecensus
    statecensus.obligations(rep, 'C10', 'planner')
    from vlib import walkerdep
    walkerdep.obligations(rep, tier, 'C10')
    from vlib import userdep
    userdep.obligations(rep, tier, 'C10', which=('info',))
    from vlib import fetchdep
    fetchdep.obligations(rep, tier, 'C10')
    rep.dropped = 'method bodies read with ast.parse; nested callback executed as a closure'
    rep.assume('str.lower is an idempotent function (uninterpreted)', 'planner.databases holds lower-cased names (C10.init)',
               'routing over table positions relies on query_traversal (C13 findings inherited)')
    rep.trust('pysym executor', 'z3')
    resolver_obligations(rep)
    predictor_obligations(rep)
    nested_obligations(rep)
    strip_obligations(rep)
    init_obligations(rep)
    bounded(rep, tier)
    rep.notes.append('Resolvers proved against the spec and against each other; routing over positions bounded.')
