"""Shared codec machinery for C01 / C04 / C07 / C16: alphabet, real-function extraction, denotation specs."""
import re
from vlib import repo, lrtab, codec
from vlib.fst import Fst, Dfa, FstError, regex_dfa, equivalent, validate, check_minterms

# one representative per character class that the lexers' string/identifier/variable regexes and the codec constants can
# distinguish (completeness checked by fst.check_minterms on every run)
ALPHABET = list("'\"\\`@.$_aA0 \n\té-*%:;/(٣")

Q, DQ, BS, BT = "'", '"', '\\', '`'


def star():
    return Dfa.star_any(ALPHABET)


def chars_dfa(pred):
    cs = [c for c in ALPHABET if pred(c)]
    return Dfa(ALPHABET, [{c: 0 for c in cs}], 0, {0})


def containing(sub):
    return star().concat(Dfa.literal(ALPHABET, sub)).concat(star())


def lexer_action(dname, tok):
    """(function object, FunctionDef, pattern) of the token action as resolved on the real lexer class"""
    d = lrtab.load(dname)
    f = d.Lexer._token_funcs.get(tok)
    pat = None
    for name, value in d.Lexer._rules:
        if name == tok:
            pat = value if isinstance(value, str) else getattr(value, 'pattern', None)
    if f is None:
        return None, None, pat
    fds = repo.find_functions(f.__module__, f.__qualname__)
    fd = None
    for c in fds:
        if c.lineno == f.__code__.co_firstlineno or min([c.lineno] + [x.lineno for x in c.decorator_list]) == f.__code__.co_firstlineno:
            fd = c
    if fd is None and len(fds) == 1:
        fd = fds[0]
    return f, fd, pat


def lexer_fst(dname, tok):
    """transducer of the lexer action on the token text (identity when the token has no action or does not touch t.value)"""
    f, fd, pat = lexer_action(dname, tok)
    if fd is None:
        return Fst.identity(ALPHABET), pat, None
    T = codec.function_transducer(fd, ALPHABET, ['t.value'], result='path', result_path='t.value', module=f.__module__)
    return T, pat, f


def parser_action(dname, name, rule):
    d = lrtab.load(dname)
    from vlib import pysym
    out = []
    for K in d.Parser.__mro__:
        if K.__module__.startswith('mindsdb_sql'):
            for fd in repo.find_functions(K.__module__, f'{K.__qualname__}.{name}'):
                if rule in pysym.sly_rules_of(fd):
                    out.append((K, fd))
            if out:
                break
    return out[0] if out else (None, None)


def parser_fst(dname, name, rule):
    K, fd = parser_action(dname, name, rule)
    if fd is None:
        raise FstError(f'no action {name} for rule {rule} in {dname}')
    return codec.function_transducer(fd, ALPHABET, ['p[0]', f'p.{rule}'], result='return', module=K.__module__)


def real_lex_value(dname, text):
    """(type, value) list produced by the real lexer"""
    d = lrtab.load(dname)
    return [(t.type, t.value) for t in d.Lexer().tokenize(text)]


# ------------------------------------------------------------------ denotation specs (from the property statement)
def den_quoted(delim, doubling, backslash, keep_pairs=False):
    """what a quoted literal denotes: delimiters removed; (doubling) doubled delimiter -> one; (backslash) backslash followed
    by a quote character or a backslash -> that character; every other character denotes itself.  Backslash followed by any
    other character is outside the domain (the statement is silent on it)."""
    A = ALPHABET
    t = Fst(A)
    start, body, esc, closed = t.new(), t.new(), t.new(), t.new()
    t.init = start
    t.add(start, delim, '', body)
    for ch in A:
        if ch == delim:
            t.add(body, ch, '', closed)
        elif ch == BS and backslash:
            t.add(body, ch, '', esc)
        else:
            t.add(body, ch, ch, body)
    if backslash:
        for ch in (Q, DQ, BS):
            # keep_pairs: the documented deviation of the mindsdb decoder (a doubled backslash stays a pair) - used to pin everything ELSE in the backslash region
            t.add(esc, ch, (BS + BS) if (keep_pairs and ch == BS) else ch, body)
    if doubling:
        t.add(closed, delim, delim, body)
    t.finals[closed] = ['']
    return t


def den_variable(sigils):
    """@name | @'text' | @`text` | @"text"  ->  name / text"""
    A = ALPHABET
    t = Fst(A)
    s = [t.new() for _ in range(sigils + 1)]
    t.init = s[0]
    for i in range(sigils):
        t.add(s[i], '@', '', s[i + 1])
    after = s[-1]
    bare = t.new()
    for ch in A:
        if ch not in (Q, DQ, BT, '@'):
            t.add(after, ch, ch, bare)
            t.add(bare, ch, ch, bare)
    t.finals[bare] = ['']
    for d in (Q, DQ, BT):
        inside, closed = t.new(), t.new()
        t.add(after, d, '', inside)
        for ch in A:
            if ch == d:
                t.add(inside, ch, '', closed)
            else:
                t.add(inside, ch, ch, inside)
        t.finals[closed] = ['']
    return t


def den_ident():
    """plain word -> itself; `text` -> text"""
    A = ALPHABET
    t = Fst(A)
    s0, plain, inside, closed = t.new(), t.new(), t.new(), t.new()
    t.init = s0
    for ch in A:
        if ch == BT:
            t.add(s0, ch, '', inside)
            t.add(inside, ch, '', closed)
        else:
            t.add(s0, ch, ch, plain)
            t.add(plain, ch, ch, plain)
            t.add(inside, ch, ch, inside)
    t.finals[plain] = ['']
    t.finals[closed] = ['']
    return t


def minterm_check(patterns, constants):
    return check_minterms(ALPHABET, patterns, constants)

