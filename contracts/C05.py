"""C05 — a statement is accepted only if its whole token stream is one grammar sentence.

Deductive: (lrtab, exhaustive) table facts that make every table-directed move a valid LR(0) move; (pysym) contracts
of the three error() callbacks, of parse_sql and of the lexers' error()/ignore rules; (pysym, abstract fixpoint over
the real loop body) the driver invariant `errored => the run returns None`.
Bounded stand-in: accepted(parse_sql) => an independent Earley recogniser accepts the complete token sequence."""
import os, random, re, time
from vlib import lrtab, repo, pysym
from vlib.core import Bounded, PROVED, FAILED, UNDECIDED
from vlib.pysym import SymObj, SymSeq, SymVal, Stub, Event, Unsupported

LEVEL = 'proof'
MANIFEST = {
    'engine': 'lrtab+pysym',
    'level': 'proof',
    'technique': 'exhaustive table obligations (LR soundness side conditions) + symbolic execution of error callbacks, parse_sql and the SLY driver loop body under contracts',
    'text': 'Acceptance soundness is reduced to finitely many obligations: the generated tables only contain valid LR(0) moves of the '
            'grammar (checked against an independent automaton; reductions pop exactly their right-hand side; single accept entry; no '
            'error rows/productions; empty input not accepted), the driver performs exactly table-directed shift/reduce/accept moves and, '
            'once the error branch is taken, can only return None (inductive invariant computed over the real loop body with the error() '
            'contracts), parse_sql hands the whole stripped text to one tokenize/parse pair and turns None into ParsingException, and the '
            'lexers skip nothing but whitespace/comments.',
    'note': 'Assumed: T2 (LR soundness: a run of valid LR(0) moves ending in accept derives the input), CPython semantics of the modelled '
            'constructs, Lexer.tokenize yields every non-ignored lexeme in order (its body is a generator, abstracted as an iterator; '
            'checked only by the bounded stand-in), grammar actions do not touch parser state. Bounded stand-in: grammar sentences and '
            'their 1-token mutations / garbage affixes must be Earley-sentences whenever parse_sql accepts.',
}


# ------------------------------------------------------------------ table obligations
def table_obligations(rep, dname):
    d = lrtab.load(dname)
    lr0 = d.lr0
    fn = f'{d.parser_module}:{d.parser_class_name}(grammar),sly.yacc:LRTable.lr_parse_table'
    n_states = len(d.action)
    if lr0.mismatch:
        rep.failed(f'C05.tab.consistent.{dname}', 'lrtab', '; '.join(lr0.mismatch[:5]), function=fn)
        return False
    # every reduce entry is on a completed item of its state; every shift is an LR(0) move (from the homomorphism)
    bad = []
    n_reduce = n_shift = 0
    for s in range(n_states):
        comp = set(lr0.completed(s))
        for a, t in d.action[s].items():
            if t is None:
                continue
            if t > 0:
                n_shift += 1
            elif t < 0:
                n_reduce += 1
                if -t not in comp:
                    bad.append(f'state {s} on {a}: reduce by {-t} but that item is not complete here')
        if s in d.defaulted:
            t = d.defaulted[s]
            if not (t < 0 and -t in comp):
                bad.append(f'defaulted state {s}: {t}')
    if bad:
        rep.failed(f'C05.tab.consistent.{dname}', 'lrtab', '; '.join(bad[:5]), function=fn, cex={'rows': bad[:20]})
    else:
        rep.proved(f'C05.tab.consistent.{dname}', 'lrtab', f'{n_states} states, {n_shift} shift and {n_reduce} reduce entries are LR(0) moves '
                   f'of the independent automaton', function=fn,
                   clause='forall state, token: table entry is a shift along an LR(0) edge or a reduce of an item complete in that state')
    # stack shape: a reduction by p in s pops exactly rhs(p), and goto is defined afterwards
    preds = [dict() for _ in range(n_states)]      # state -> {pred_state: symbol}
    acc_sym = {}
    shape_bad = []
    for s in range(n_states):
        for a, t in d.action[s].items():
            if t is not None and t > 0:
                preds[t].setdefault(s, a)
                if acc_sym.setdefault(t, a) != a:
                    shape_bad.append(f'state {t} entered on both {acc_sym[t]} and {a}')
        for nt, t in d.goto[s].items():
            preds[t].setdefault(s, nt)
            if acc_sym.setdefault(t, nt) != nt:
                shape_bad.append(f'state {t} entered on both {acc_sym[t]} and {nt}')
    per_prod = {}
    for s in range(n_states):
        red = {-t for t in d.action[s].values() if t is not None and t < 0}
        if s in d.defaulted:
            red.add(-d.defaulted[s])
        for p in red:
            rhs = list(d.prods[p].prod)
            cur = {s}
            ok = True
            for sym in reversed(rhs):
                if any(acc_sym.get(x) != sym for x in cur):
                    ok = False
                    break
                nxt = set()
                for x in cur:
                    nxt.update(preds[x].keys())
                cur = nxt
                if not cur:
                    ok = False
                    break
            if ok:
                for x in cur:
                    if d.prods[p].name not in d.goto[x]:
                        ok = False
            per_prod.setdefault(p, []).append((s, ok))
    for p, rows in sorted(per_prod.items()):
        oid = f'C05.tab.shape.{dname}.p{p}'
        badrows = [s for s, ok in rows if not ok]
        if badrows or shape_bad:
            rep.failed(oid, 'lrtab', f'reduce by `{d.prods[p]}` in state(s) {badrows[:5]} does not pop its own right-hand side / goto undefined; {shape_bad[:2]}', function=fn)
        else:
            rep.proved(oid, 'lrtab', f'{len(rows)} state(s)', function=fn,
                       clause='every stack reaching a state that reduces by p ends with rhs(p), and goto[below][lhs(p)] is defined')
    # accept
    start = d.prods[0].prod[0]
    acc_state = d.goto[0].get(start)
    zeros = [(s, a) for s in range(n_states) for a, t in d.action[s].items() if t == 0]
    if zeros == [(acc_state, '$end')]:
        rep.proved(f'C05.tab.accept.{dname}', 'lrtab', f'only accept entry: state {acc_state} on $end', function=fn,
                   clause="table[s][a] == 0  <=>  s == goto[0][start] and a == '$end'")
    else:
        rep.failed(f'C05.tab.accept.{dname}', 'lrtab', f'accept entries {zeros[:5]}, expected [({acc_state}, $end)]', function=fn)
    # no error rows / productions
    err_rows = [s for s in range(n_states) if 'error' in d.action[s]]
    err_prods = [str(p) for p in d.prods if 'error' in p.prod]
    if err_rows or err_prods:
        rep.failed(f'C05.tab.noerror.{dname}', 'lrtab', f'error rows {err_rows[:5]} / productions {err_prods[:3]}: panic-mode recovery can resynchronise', function=fn)
    else:
        rep.proved(f'C05.tab.noerror.{dname}', 'lrtab', 'no action row has an `error` key, no production mentions `error`', function=fn,
                   clause="forall s: 'error' not in table[s]")
    # empty input not accepted, state 0 not defaulted
    if '$end' in d.action[0] or 0 in d.defaulted:
        rep.failed(f'C05.tab.noeps.{dname}', 'lrtab', f"state 0 acts on $end ({d.action[0].get('$end')}) or is defaulted", function=fn)
    else:
        rep.proved(f'C05.tab.noeps.{dname}', 'lrtab', 'state 0 has no $end action and is not defaulted', function=fn,
                   clause="'$end' not in table[0] and 0 not in defaulted_states")
    # defaulted states hold a single reduce
    bad = [s for s, t in d.defaulted.items() if not (t < 0 and list(d.action[s].values()).count(t) == len(d.action[s]))]
    if bad:
        rep.failed(f'C05.tab.defaulted.{dname}', 'lrtab', f'defaulted states {bad[:5]} have other actions', function=fn)
    else:
        rep.proved(f'C05.tab.defaulted.{dname}', 'lrtab', f'{len(d.defaulted)} defaulted states, each with exactly one reduce', function=fn,
                   clause='forall s in defaulted_states: all entries of table[s] are the same reduce')
    rep.census[f'{dname}.states'] = n_states
    rep.census[f'{dname}.productions'] = len(d.prods)
    return True


# ------------------------------------------------------------------ error() contracts
def error_contract(rep, dname):
    d = lrtab.load(dname)
    import inspect
    errf = d.Parser.error
    mod = errf.__module__
    qual = errf.__qualname__
    fn = f'{mod}:{qual}'
    oid = f'C05.err.{dname}'
    from mindsdb_sql.exceptions import ParsingException

    def mk(has_used, p_kind):
        def make_args(ex):
            selfo = SymObj(None, 'self', prov='param')
            selfo.known_not_none = True
            selfo.closed = True
            toks = SymObj(None, 'self.tokens', prov='param')
            toks.known_not_none = True
            toks.is_iterator = True
            selfo.fields['tokens'] = toks

            def next_stub(ex_, it, rest, kw):
                if ex_.choose(2, 'next(tokens)', ['token', 'exhausted']) == 0:
                    t = SymObj(None, ex_.fresh_name('tok'), prov='fresh')
                    t.known_not_none = True
                    t.truth_known = True
                    return t
                return rest[0] if rest else None
            ex.method_stubs['__next__'] = next_stub
            if has_used:
                selfo.fields['used_tokens'] = SymSeq('self.used_tokens', lambda ex_, l: SymObj(None, l), prov='param')

            def list_stub(ex_, obj, args, kwargs):
                ex_.log.append(Event('Drain', it=obj))
                return SymSeq(ex_.fresh_name('rest'), lambda e, l: SymObj(None, l), prov='fresh')
            ex.method_stubs['list'] = list_stub
            if p_kind == 'token':
                p = SymObj(None, 'p', prov='param')
                p.known_not_none = True
                p.truth_known = True
                p.fields['type'] = pysym.mk_str('p.type')
                p.fields['value'] = pysym.mk_str('p.value')
            else:
                p = None
            ex.path_state['tokens_obj'] = toks
            exp = SymSeq('expected_tokens', lambda e, l: pysym.mk_str(l), prov='param')
            return [selfo, p], {'expected_tokens': exp}
        return make_args

    def post(ex, o):
        if o.kind == 'raise':
            if issubclass(o.value, ParsingException):
                return None
            return f'error() raises {o.value.__name__}'
        if o.value is not None and not (isinstance(o.value, SymObj) and False):
            return f'error() returns {o.value!r}: a truthy return value makes the driver resume after the error (recovery)'
        drains = [e for e in o.log if e.kind == 'Drain' and e.it is o.state['tokens_obj']]
        if not drains:
            return 'error() returns None without consuming self.tokens: the driver would go on reading tokens after the error'
        return None
    verdicts = []
    for has_used in (True, False):
        for pk in ('token', 'eof'):
            verdicts.append(pysym.verify(mod, qual, mk(has_used, pk), post))
    worst = next((v for v in verdicts if v.status == FAILED), None) or next((v for v in verdicts if v.status == UNDECIDED), None)
    secs = sum(v.seconds for v in verdicts)
    clause = 'ensures (result is None and drained(self.tokens)) or raises ParsingException; never returns a token'
    if worst is None:
        rep.proved(oid, 'pysym', f'{sum(v.paths for v in verdicts)} path(s) over 4 precondition cases', function=fn, seconds=secs, clause=clause)
    elif worst.status == FAILED:
        rep.failed(oid, 'pysym', worst.detail, function=fn, seconds=secs, clause=clause, cex=worst.cex, replay=replay_garbage(dname))
    else:
        rep.undecided(oid, 'pysym', worst.detail, function=fn, seconds=secs, clause=clause)


GARBAGE = ['x y ; select 1', 'x y select 1', 'select 1 2 ; select 3', ') select 1', 'select ( ; select 1']


def replay_garbage(dname):
    """inputs outside the language that a broken error path lets through"""
    from mindsdb_sql import parse_sql
    d = lrtab.load(dname)
    E = lrtab.Earley(d)
    fired = []
    for g in GARBAGE:
        try:
            r = parse_sql(g, dialect=dname)
        except Exception:
            continue
        kinds = d.lex_kinds(re.sub(r'[\s;]+$', '', g))
        if kinds is not None and not E.accepts(kinds):
            fired.append(g)
    if fired:
        return {'input': fired[0], 'fires': True, 'observed': 'accepted', 'expected': 'rejected (not a sentence of the grammar)', 'dialect': dname, 'also_fires': fired}
    return {'input': None, 'observed': 'none of the stock non-sentences is accepted'}


# ------------------------------------------------------------------ parse_sql contract
def api_contract(rep):
    from mindsdb_sql.exceptions import ParsingException
    fn = 'mindsdb_sql:parse_sql'
    state = {}

    def make_args(ex):
        sql = pysym.mk_str('sql')
        stripped = pysym.mk_str('stripped')
        lexer = SymObj(None, 'lexer', prov='fresh')
        lexer.known_not_none = True
        parser = SymObj(None, 'parser', prov='fresh')
        parser.known_not_none = True
        tokens = SymObj(None, 'tokens', prov='fresh')
        tokens.known_not_none = True
        result = SymObj(None, 'parse_result', prov='fresh')
        ex.path_state['st'] = dict(sql=sql, stripped=stripped, lexer=lexer, parser=parser, tokens=tokens, result=result)

        def re_sub(ex_, args, kwargs, node=None):
            ex_.log.append(Event('re.sub', pattern=args[0], repl=args[1], s=args[2], extra=(list(args[3:]), dict(kwargs))))
            return stripped
        ex.stubs[('re', 'sub')] = re_sub

        def glp(ex_, args, kwargs, node=None):
            ex_.log.append(Event('get_lexer_parser', dialect=args[0]))
            return (lexer, parser)
        ex.stubs[('mindsdb_sql', 'get_lexer_parser')] = glp
        lexer.fields['tokenize'] = Stub(lambda ex_, a, k: (ex_.log.append(Event('tokenize', text=a[0], extra=(a[1:], k))), tokens)[1], 'tokenize')
        parser.fields['parse'] = Stub(lambda ex_, a, k: (ex_.log.append(Event('parse', tokens=a[0])), result)[1], 'parse')
        parser.fields['error_info'] = SymObj(None, 'error_info', prov='fresh')

        def eh_process(ex_, args, kwargs, node=None):
            ex_.log.append(Event('process'))
            return pysym.mk_str('message')
        ex.stubs[('mindsdb_sql', 'ErrorHandling.process')] = eh_process
        return [sql], {'dialect': pysym.mk_str('dialect')}

    def post(ex, o):
        st = o.state['st']
        subs = [e for e in o.log if e.kind == 're.sub']
        toks = [e for e in o.log if e.kind == 'tokenize']
        prs = [e for e in o.log if e.kind == 'parse']
        if len(subs) != 1 or subs[0].s is not st['sql'] or subs[0].pattern != r'[\s;]+$' or subs[0].repl != '' or subs[0].extra != ([], {}):
            return f'input is not stripped exactly by re.sub(r"[\\s;]+$", "", sql): {subs}'
        if len(toks) != 1 or toks[0].text is not st['stripped'] or toks[0].extra != ([], {}):
            return f'tokenize is not called exactly once on the whole stripped text: {toks}'
        if len(prs) != 1 or prs[0].tokens is not st['tokens']:
            return f'parse is not called exactly once on that token stream: {prs}'
        if o.kind == 'return':
            if o.value is not st['result']:
                return f'returns {o.value!r}, not the parse result'
            if st['result'].cls_set == frozenset({type(None)}):
                return 'returns None when the parse result is None'
            return None
        if not issubclass(o.value, ParsingException):
            return f'raises {o.value.__name__}'
        if st['result'].cls_set != frozenset({type(None)}):
            return 'raises although the parser returned a tree'
        return None
    v = pysym.verify('mindsdb_sql', 'parse_sql', make_args, post)
    clause = ('ensures exactly one tokenize(re.sub(r"[\\s;]+$","",sql)) and one parse(tokens); result is None => raises ParsingException; '
              'else returns the result')
    _emit(rep, 'C05.api.parse_sql', v, fn, clause, replay=lambda: replay_garbage('mindsdb'))


def _emit(rep, oid, v, fn, clause, replay=None):
    if v.status == PROVED:
        rep.proved(oid, 'pysym', v.detail, function=fn, seconds=v.seconds, clause=clause)
    elif v.status == FAILED:
        rep.failed(oid, 'pysym', v.detail, function=fn, seconds=v.seconds, clause=clause, cex=v.cex, replay=replay() if replay else None)
    else:
        rep.undecided(oid, 'pysym', v.detail, function=fn, seconds=v.seconds, clause=clause)


# ------------------------------------------------------------------ lexer: nothing but whitespace/comments is skipped
def lexer_contract(rep, dname):
    d = lrtab.load(dname)
    L = d.Lexer
    fn = f'{d.lexer_module}:{d.lexer_class_name}'
    oid = f'C05.lex.ignore.{dname}'
    problems = []
    if not set(L.ignore) <= set(' \t\r\n\f\v'):
        problems.append(f'ignore = {L.ignore!r} skips non-whitespace characters')
    allowed = {'multi_comment': r'/\*[\s\S]*?\*/', 'line_comment': r'--[^\n]*', 'newline': r'\n+'}
    for name, value in L._rules:
        if name.startswith('ignore_'):
            pat = value if isinstance(value, str) else getattr(value, 'pattern', None)
            if pat not in (allowed.get(name[7:]), '(' + allowed.get(name[7:], '') + ')'):
                problems.append(f'ignored pattern {name} = {pat!r} is not a known whitespace/comment pattern')
    for t in sorted(L._ignored_tokens):
        if t not in allowed:
            problems.append(f'token kind {t} is ignored')
    # token functions may drop a token by returning None: only ignore_newline may
    for name, f in L._token_funcs.items():
        if name in ('newline',):
            continue
        src = repo.find_functions(f.__module__, f.__qualname__)
        import ast
        for fd in src:
            rets = [n for n in ast.walk(fd) if isinstance(n, ast.Return)]
            if not rets or any(r.value is None or not (isinstance(r.value, ast.Name) and r.value.id == fd.args.args[1].arg) for r in rets):
                problems.append(f'token action {name} may return something else than its token (token dropped or replaced)')
    if problems:
        rep.failed(oid, 'lrtab', '; '.join(problems[:4]), function=fn, replay=None)
    else:
        rep.proved(oid, 'lrtab', f'ignore={L.ignore!r}; ignored patterns: comments/newlines only; {len(L._token_funcs)} token actions return their token',
                   function=fn, clause='only whitespace, newlines and comments are skipped between tokens; every token action returns its token')
    # Lexer.error raises on every path
    errf = L.error
    from sly.lex import LexError

    def make_args(ex):
        selfo = SymObj(None, 'self', prov='param')
        selfo.known_not_none = True
        selfo.fields['text'] = pysym.mk_str('text')
        selfo.fields['index'] = pysym.mk_int('index')
        t = SymObj(None, 't', prov='param')
        t.known_not_none = True
        t.fields['value'] = pysym.mk_str('t.value')
        t.fields['index'] = pysym.mk_int('t.index')
        ex.assume(pysym.z3.Length(t.fields['value'].t) > 0)
        # text.split('\n') -> unknown list of lines
        ex.method_stubs['__str_split__'] = None
        return [selfo, t], {}

    def post(ex, o):
        if o.kind == 'raise' and issubclass(o.value, LexError):
            return None
        return f'Lexer.error does not raise LexError on this path ({o.kind} {o.value!r}): the illegal character would be skipped'
    ex = pysym.Executor()
    _install_split(ex)
    v = pysym.verify(errf.__module__, errf.__qualname__, make_args, post, ex=ex)
    fn_e = f'{errf.__module__}:{errf.__qualname__}'
    clause_e = 'raises LexError on every path (no character is skipped)'
    if v.status not in (PROVED, FAILED) and 'Unsupported' in str(v.detail):
        # the body is outside the executor's subset (tool limit, not a refutation): the obligation is left open (soft) and the
        # decision rests on a bounded stand-in that drives the real lexer over illegal characters at every position of every layout
        bad = _error_bounded(L)
        if bad is None:
            rep.undecided(f'C05.lex.error.{dname}', 'pysym', f'{str(v.detail)[:200]}: decision rests on C05.bounded.{dname}.lex-error', function=fn_e, clause=clause_e, soft=True)
            rep.add_bounded(Bounded(f'C05.bounded.{dname}.lex-error', True, bound=f'{_ERROR_BOUND} (illegal character at every offset of every layout)'))
        else:
            rep.add_bounded(Bounded(f'C05.bounded.{dname}.lex-error', False, bad[0], bad[1], 'LexError', bound=_ERROR_BOUND))
            rep.undecided(f'C05.lex.error.{dname}', 'pysym', str(v.detail)[:200], function=fn_e, clause=clause_e, soft=True)
    else:
        _emit(rep, f'C05.lex.error.{dname}', v, fn_e, clause_e)


_ERROR_LAYOUTS = ['select 1', 'select a\nfrom b', 'select a\n\nfrom b\n', '\n', '', 'a\n\n\nb', "select 'x\ny' from t", 'select a -- c\nfrom b /* d\n e */ where 1']
_ERROR_BOUND = f'{len(_ERROR_LAYOUTS)} layouts x every offset x 3 illegal characters'


def _error_bounded(L):
    """the real lexer on texts with an illegal character inserted at every offset: tokenize() must raise LexError (-> None) or (text, observed)"""
    from sly.lex import LexError
    illegal = ['\x01', '\x02', '\x7f']
    for lay in _ERROR_LAYOUTS:
        for k in range(len(lay) + 1):
            for c in illegal:
                txt = lay[:k] + c + lay[k:]
                # skip texts where the inserted character lands inside a string/comment/quoted token (legal there)
                try:
                    toks = list(L().tokenize(txt))
                except LexError:
                    continue
                except Exception as e:
                    return txt, f'{type(e).__name__}: {e}'
                if not any(c in str(t.value) for t in toks) and not _in_skipped(L, txt, k):
                    return txt, f'tokenized without error: {[(t.type, t.value) for t in toks][:8]}'
    return None


def _in_skipped(L, txt, k):
    """is offset k inside a comment of txt (comments are skipped by the lexer, any character is legal there)"""
    import re as _re
    for m in _re.finditer(r'/\*[\s\S]*?\*/|--[^\n]*', txt):
        if m.start() <= k < m.end():
            return True
    return False


def _install_split(ex):
    """str.split('\\n') on a symbolic string -> list of unknown length of symbolic lines (assumed contract of str.split)"""
    from vlib.pysym import models
    orig = models.symval_method

    def sm(ex_, recv, name, args, kwargs, node):
        if name == 'split' and recv.sort == 'str':
            seq = SymSeq(ex_.fresh_name('lines'), lambda e, l: pysym.mk_str(l), prov='fresh')
            seq.nonempty = True
            ex_.assume(seq.len > 0)
            return seq
        return orig(ex_, recv, name, args, kwargs, node)
    models.symval_method = sm


# ------------------------------------------------------------------ bounded stand-in
def bounded(rep, tier):
    from mindsdb_sql import parse_sql
    rnd = random.Random(int(os.environ.get('VERIF_SEED', '0') or 0))
    n = 0
    n_acc = 0
    reported = set()
    for dname in lrtab.DIALECTS:
        d = lrtab.load(dname)
        E = lrtab.Earley(d)
        ctx = d.contexts()
        lx = d.lexemes()
        kinds_all = sorted(lx)
        sentences = []
        for p in d.prods[1:]:
            s = d.sentence_for_production(p, ctx)
            if s is not None and len(s) <= 40:
                sentences.append(s)
        uniq = []
        seen = set()
        for s in sentences:
            if tuple(s) not in seen:
                seen.add(tuple(s))
                uniq.append(s)
        if tier == 'quick':
            uniq = uniq[::3]
        cases = []
        for s in uniq:
            cases.append(s)
            # garbage prefix / suffix / statement concatenation
            cases.append(['ID', 'ID'] + s)
            cases.append(s + ['ID', 'ID'])
            cases.append(s + ['SELECT', 'INTEGER'])
            cases.append(['ID', 'ID', 'SELECT', 'INTEGER'])
            # single-token mutations
            k = 3 if tier == 'quick' else 12
            for _ in range(k):
                i = rnd.randrange(len(s)) if s else 0
                m = rnd.choice(['del', 'dup', 'rep', 'ins'])
                t = list(s)
                if m == 'del' and t:
                    del t[i]
                elif m == 'dup' and t:
                    t.insert(i, t[i])
                elif m == 'rep' and t:
                    t[i] = rnd.choice(kinds_all)
                else:
                    t.insert(i, rnd.choice(kinds_all))
                cases.append(t)
        for kinds in cases:
            text = None
            try:
                text = ' '.join(lx[k] for k in kinds)
            except KeyError:
                continue
            for sep in ((' ',) if tier == 'quick' else (' ', ' ; ')):
                if sep != ' ':
                    if len(kinds) < 4:
                        continue
                    j = len(kinds) // 2
                    txt = ' '.join(lx[k] for k in kinds[:j]) + ' ; ' + ' '.join(lx[k] for k in kinds[j:])
                else:
                    txt = text
                n += 1
                try:
                    parse_sql(txt, dialect=dname)
                    accepted = True
                except Exception:
                    accepted = False
                if accepted:
                    n_acc += 1
                    real_kinds = d.lex_kinds(re.sub(r'[\s;]+$', '', txt))
                    if (real_kinds is None or not E.accepts(real_kinds)) and dname not in reported:
                        reported.add(dname)
                        rep.add_bounded(Bounded(f'C05.bounded.{dname}.accepted-non-sentence', False, txt, 'accepted',
                                                'rejected: token sequence is not derivable from the grammar (Earley)', bound='grammar sentences + 1-token mutations'))
                        break
    rep.bounded_evals = n
    rep.census['bounded.accepted'] = n_acc
    rep.bounded_rule = ('one shortest sentence per production (every 3rd in quick), with garbage prefixes/suffixes, a second statement appended, '
                        'and random single-token deletions/duplications/replacements/insertions; whenever parse_sql accepts, an independent '
                        'Earley recogniser over the same productions must accept the complete real token sequence')



def ignore_obligations(rep):
    """the text the lexer drops is exactly SQL's comments and white space (otherwise tokens of the statement silently disappear)"""
    from vlib import lexmodel, lrtab as _lr
    for dname in _lr.DIALECTS:
        d = _lr.load(dname)
        probs = lexmodel.ignore_rule_problems(d.Lexer)
        fn_ = f'{d.lexer_module}:{d.lexer_class_name}'
        clause = 'forall texts matched by an ignore rule: a `--`/`#` comment contains no line break, a block comment is the shortest /* ... */, anything else is white space'
        if not probs:
            rep.proved(f'C05.lex.ignored-text.{dname}', 'fst', 'every ignore rule matches only comments / white space', function=fn_, clause=clause)
        for name, w, text in probs:
            sql = None
            if w is not None and name != 'ignore':
                sql = f'select a {w} , b from t' if '\n' in (w or '') else None
            rep.failed(f'C05.lex.ignored-text.{dname}.{name}', 'fst', text, function=fn_, clause=clause,
                       replay={'input': f'select a\n{w}, b\nfrom t' if w else None, 'dialect': dname, 'fires': bool(w), 'observed': text, 'expected': 'only the comment is dropped'})

def check(rep, tier):
    ignore_obligations(rep)
    from vlib import statecensus
    statecensus.obligations(rep, 'C05', 'parser')
    from vlib import preproc
    preproc.obligation(rep, 'C05', tier, dialects=('mindsdb', 'mysql', 'sqlite'))
    rep.dropped = ('tables regenerated by importing the real parser classes; function bodies read with ast.parse: decorators other than @_, '
                   'docstrings, comments and type hints dropped; Lexer.tokenize (a generator) is abstracted as an opaque iterator')
    rep.assume('T2 (LR soundness, textbook): a run of valid LR(0) shift/reduce moves from the initial configuration that ends in accept derives '
               'the complete input as one start-symbol sentence',
               'Lexer.tokenize yields every non-ignored lexeme of its argument in order (generator body not symbolically executed)',
               'grammar actions (p.func) do not modify parser.state/statestack/symstack/tokens')
    rep.trust('independent LR(0) construction and Earley recogniser in vlib/lrtab.py', 'z3 4.x/5.x', 'CPython')
    for dname in lrtab.DIALECTS:
        if table_obligations(rep, dname):
            pass
        error_contract(rep, dname)
        lexer_contract(rep, dname)
    api_contract(rep)
    from contracts import C05_driver
    C05_driver.obligations(rep)
    bounded(rep, tier)
    rep.notes.append('Acceptance soundness reduced to table facts (exhaustive over regenerated tables), callback/API contracts (symbolic '
                     'execution of the real bodies) and the driver invariant; see DESIGN §4 C05.')
    rep.extra_cov = {'exhaustive': True}
