#!/usr/bin/env python3
"""Maintainer tool (never run by checks): after a /repo fix, move the listed findings of a property that no longer fail
(evidence/<Cnn>.json: listed_findings_not_failing_now, written by the check that was just run) to the `fixed` list.
usage: tools_move_fixed.py Cnn <commit> "<what was wrong>" [id-substring ...]"""
import json, os, sys
HERE = os.path.dirname(os.path.abspath(__file__))
prop, commit, what = sys.argv[1:4]
only = sys.argv[4:]
kf = json.load(open(os.path.join(HERE, 'known_findings.json')))
stale = set(json.load(open(os.path.join(HERE, 'evidence', prop + '.json')))['coverage'].get('listed_findings_not_failing_now') or [])
if only:
    stale = {s for s in stale if any(o in s for o in only)}
moved = [f for f in kf['findings'] if f['property'] == prop and f['id'] in stale]
kf['findings'] = [f for f in kf['findings'] if not (f['property'] == prop and f['id'] in stale)]
if moved:
    kf['fixed'].append({'property': prop, 'commit': commit, 'what': f"fixed: property={prop} {commit} ({', '.join(sorted(f['id'] for f in moved))}) {what}"})
json.dump(kf, open(os.path.join(HERE, 'known_findings.json'), 'w'), indent=1, ensure_ascii=False)
print(prop, 'moved', len(moved))
