#!/usr/bin/env python3
"""Regenerates MANIFEST.json from contracts/*.py metadata (MANIFEST dict in each contract module) + manifest_static.json"""
import json, os, sys, importlib
HERE = os.path.dirname(os.path.abspath(__file__))
sys.path.insert(0, HERE)
static = json.load(open(os.path.join(HERE, 'manifest_static.json')))
props = [json.loads(l)['id'] for l in open(os.path.join(HERE, 'properties.jsonl'))]
checks = []
na = []
os.environ.setdefault('REPO_ROOT', '/repo')
for pid in props:
    path = os.path.join(HERE, 'contracts', pid + '.py')
    meta = None
    if os.path.exists(path):
        src = open(path).read()
        import ast
        for n in ast.parse(src).body:
            if isinstance(n, ast.Assign) and getattr(n.targets[0], 'id', '') == 'MANIFEST':
                meta = ast.literal_eval(n.value)
    if meta is None:
        na.append({'property_id': pid, 'reason': static['not_applicable_default'].get(pid, 'check not built yet in this round; see DESIGN.md section 4')})
        continue
    checks.append({
        'property_id': pid,
        'quick_cmd': f'bin/vcheck {pid} --tier quick',
        'thorough_cmd': f'bin/vcheck {pid} --tier thorough',
        'evidence_file': f'/verif/evidence/{pid}.json',
        'replay_cmd_template': 'bin/vcheck replay {path}',
        'engine': meta['engine'],
        'level_claimed': {'category': meta['level'], 'text': meta['text'], 'design_ref': meta.get('design_ref', 'DESIGN.md §4 ' + pid)},
        'level_note': meta['note'],
        'technique': meta['technique'],
    })
m = {'version': 1, 'setup_cmd': './setup.sh', 'hooks': static['hooks'], 'engines': static['engines'], 'checks': checks,
     'notes': static['notes'], 'not_applicable': na}
json.dump(m, open(os.path.join(HERE, 'MANIFEST.json'), 'w'), indent=1)
print('checks', [c['property_id'] for c in checks], 'n/a', len(na))
