"""What parse_sql does to the text before it reaches the lexer (bounded, exhaustive over short strings).

The real parse_sql is called; `sly.Lexer.tokenize` is replaced for the duration of the call by a recorder that keeps the text it is given and
stops the call, so whatever the code does before lexing (today: re.sub(r'[\\s;]+$', '', sql)) is observed, not modelled.
Specification: the lexer receives one contiguous piece of the input; what is cut off in front is white space (and, for properties that only speak about accepted statements, semicolons), what is cut off behind is white space and semicolons."""
import itertools

ALPHABET = ['a', ' ', ';', '\n', "'", '\r']


class _Stop(Exception):
    pass


def lexed_text(sql, dialect):
    import sly
    import mindsdb_sql
    seen = []
    orig = sly.Lexer.tokenize

    def rec(self, text, *a, **k):
        seen.append(text)
        raise _Stop()
    sly.Lexer.tokenize = rec
    try:
        try:
            mindsdb_sql.parse_sql(sql, dialect=dialect)
        except _Stop:
            pass
    finally:
        sly.Lexer.tokenize = orig
    return seen[0] if seen else None


def problems(dialect, maxlen, lead_semicolons=False):
    """-> (n evaluated, first problem or None) ; problem = (input, observed text, reason)"""
    n = 0
    extra = ["a;\nb", "'a;\nb'", "a  \nb", "a\n;\nb;", "a;\n\n b ;\n", "select 'a\r\nb'", "select `a\r\nb` from t\r\n", "select \"a\tb\" ,\t'\x0b\x0c' ;\r\n", "select 'a\u00a0b\u2028c'\u00a0"]
    for s in itertools.chain(extra, (''.join(t) for k in range(0, maxlen + 1) for t in itertools.product(ALPHABET, repeat=k))):
        n += 1
        try:
            t = lexed_text(s, dialect)
        except Exception as e:
            return n, (s, None, f'{type(e).__name__}: {e}'[:120])
        if t is None:
            return n, (s, None, 'parse_sql did not hand any text to the lexer')
        if not isinstance(t, str):
            return n, (s, t, 'the lexer is not given a string')
        # the lexer must receive one contiguous piece s[a:b] of the statement (nothing inside removed or changed)
        cuts = [(a, a + len(t)) for a in range(0, len(s) - len(t) + 1) if s[a:a + len(t)] == t]
        if not cuts:
            return n, (s, t, 'the text handed to the lexer is not a contiguous piece of the statement (characters inside the statement were removed or changed)')
        ok = False
        for a, b in cuts:
            head, tail = s[:a], s[b:]
            if all(c.isspace() or c == ';' for c in tail) and all((c.isspace() or (c == ';' and lead_semicolons)) for c in head):
                ok = True
        if not ok:
            return n, (s, t, 'characters other than white space / trailing semicolons were cut off' + ('' if lead_semicolons else ' (leading semicolons are tokens: cutting them off accepts text that has to be rejected)'))
    return n, None


def obligation(rep, prop, tier, dialects=('mindsdb', 'mysql', 'sqlite'), lead_semicolons=False):
    """lead_semicolons: properties about the tree / the embedded text of an ACCEPTED statement do not care whether leading semicolons are cut off as well (C01, C16); acceptance properties do (C05)"""
    from vlib.core import Bounded
    for d in dialects:
        ml = (6 if tier == 'thorough' else 5) if d == 'mindsdb' else 4
        n, bad = problems(d, ml, lead_semicolons)
        bid = f'{prop}.bounded.preprocess.{d}'
        bound = f'all strings of length <= {ml} over {ALPHABET!r} ({n} inputs)'
        if bad:
            rep.add_bounded(Bounded(bid, False, bad[0], f'lexer receives {bad[1]!r}: {bad[2]}', 'a contiguous piece of the input; only white space / trailing semicolons cut off', bound=bound))
        else:
            rep.add_bounded(Bounded(bid, True, bound=bound))
