"""What parse_sql does to the text before it reaches the lexer (bounded, exhaustive over short strings).

The real parse_sql is called; `sly.Lexer.tokenize` is replaced for the duration of the call by a recorder that keeps the text it is given and
stops the call, so whatever the code does before lexing (today: re.sub(r'[\\s;]+$', '', sql)) is observed, not modelled.
Specification: the lexer receives a prefix of the input and the part cut off consists of white space and semicolons only."""
import itertools

ALPHABET = ['a', ' ', ';', '\n', "'"]


class _Stop(Exception):
    pass


def lexed_text(sql, dialect):
    import sly
    import mindsdb_sql
    seen = []
    orig = sly.Lexer.tokenize

    def rec(self, text, *a, **k):
        seen.append(text)
        raise _Stop()
    sly.Lexer.tokenize = rec
    try:
        try:
            mindsdb_sql.parse_sql(sql, dialect=dialect)
        except _Stop:
            pass
    finally:
        sly.Lexer.tokenize = orig
    return seen[0] if seen else None


def problems(dialect, maxlen):
    """-> (n evaluated, first problem or None) ; problem = (input, observed text, reason)"""
    n = 0
    extra = ["a;\nb", "'a;\nb'", "a  \nb", "a\n;\nb;", "a;\n\n b ;\n"]
    for s in itertools.chain(extra, (''.join(t) for k in range(0, maxlen + 1) for t in itertools.product(ALPHABET, repeat=k))):
        n += 1
        try:
            t = lexed_text(s, dialect)
        except Exception as e:
            return n, (s, None, f'{type(e).__name__}: {e}'[:120])
        if t is None:
            return n, (s, None, 'parse_sql did not hand any text to the lexer')
        if not isinstance(t, str) or not s.startswith(t):
            return n, (s, t, 'the text handed to the lexer is not a prefix of the statement (characters inside the statement were removed or changed)')
        if any(not (c.isspace() or c == ';') for c in s[len(t):]):
            return n, (s, t, 'characters other than white space / semicolons were cut off the end')
    return n, None


def obligation(rep, prop, tier, dialects=('mindsdb', 'mysql', 'sqlite')):
    from vlib.core import Bounded
    for d in dialects:
        ml = (6 if tier == 'thorough' else 5) if d == 'mindsdb' else 4
        n, bad = problems(d, ml)
        bid = f'{prop}.bounded.preprocess.{d}'
        bound = f'all strings of length <= {ml} over {ALPHABET!r} ({n} inputs)'
        if bad:
            rep.add_bounded(Bounded(bid, False, bad[0], f'lexer receives {bad[1]!r}: {bad[2]}', 'a prefix of the input; only white space / semicolons cut off', bound=bound))
        else:
            rep.add_bounded(Bounded(bid, True, bound=bound))
