"""Dependency of planner properties on the contracts of two analyses built on the tree walker:

  info   QueryPlanner.get_query_info          (C11.info.*:  how table references are classified - CTE reference / integration table / mindsdb entity)
  strip  QueryPlanner.prepare_integration_select's visitor (C10.strip.*: the integration qualifier is removed from every identifier it is shown)

A property whose argument starts from "the planner knows which objects of the query are models / where each table lives" or "the pushed text has
no integration qualifier" re-evaluates these obligations; an unlisted failure is reported under the dependent property too (the listed findings stay
with their own property)."""
from vlib.core import PROVED, UNDECIDED, FAILED


def obligations(rep, tier, prop, which=('info', 'strip')):
    subs = []
    if 'info' in which:
        from contracts import C11
        sub = type(rep)('C11', tier, C11.LEVEL)
        C11.info_obligations(sub)
        subs.append(('info', sub))
    if 'strip' in which:
        from contracts import C10
        sub = type(rep)('C10', tier, C10.LEVEL)
        C10.strip_obligations(sub)
        subs.append(('strip', sub))
    for tag, sub in subs:
        n_ok = sum(1 for o in sub.obs if o.status == PROVED)
        bad = sub.unlisted_failures()
        und = [o for o in sub.obs if o.status == UNDECIDED and not getattr(o, 'soft', False)]
        for x in bad:
            if hasattr(x, 'status'):
                rep.failed(f'{prop}.users.' + x.id.split('.', 1)[1], x.engine, x.detail, function=x.function, clause=x.clause, replay=x.replay)
        for o in und:
            rep.undecided(f'{prop}.users.' + o.id.split('.', 1)[1], o.engine, o.detail, function=o.function)
        if not bad and not und:
            rep.proved(f'{prop}.users.{tag}', 'pysym', f'{n_ok} obligations hold', function={'info': 'mindsdb_sql.planner.query_planner:QueryPlanner.get_query_info',
                                                                                          'strip': 'mindsdb_sql.planner.query_planner:QueryPlanner.prepare_integration_select'}[tag],
                       clause={'info': 'get_query_info classifies every table reference (CTE reference / integration table / mindsdb entity) whatever its alias or spelling',
                               'strip': 'the visitor removes the first part of an identifier iff it has more than one part and lower(first part) == integration, wherever the identifier stands'}[tag])
