"""Corpus of statements derived from the *current* repository on every run:
  (a) one shortest sentence per grammar production (from the real grammar, via lrtab),
  (b) every string constant in /repo/tests that some dialect parses.
Used by bounded stand-ins and by witness finders; never counted as proof."""
import ast, os, re, sys
from . import repo, lrtab
from .core import REPO_ROOT

_cache = {}
KW = re.compile(r'^\s*\(?\s*(select|insert|update|delete|create|show|drop|set|use|describe|explain|with|alter|start|commit|rollback|begin|retrain|finetune|evaluate)\b', re.I)


def production_sentences(dname):
    key = ('prod', dname)
    if key in _cache:
        return _cache[key]
    d = lrtab.load(dname)
    ctx = d.contexts()
    out = []
    seen = set()
    # the shortest sentence of a production may be refused by an ACTION (the preferred expansion `SELECT x FROM y` of `select` followed by a second FROM):
    # such productions get a sentence built with the next preference that the real parser accepts, so that they are exercised at all
    alt_tables = None

    def accepted(text):
        from mindsdb_sql import parse_sql
        try:
            parse_sql(text, dialect=dname)
            return True
        except Exception:
            return False

    def alternatives(p):
        nonlocal alt_tables
        if alt_tables is None:
            alt_tables = []
            saved = (type(d).PREFERRED, d._minexp)
            for pref in ({'select': ['SELECT', 'ID']}, {'select': ['SELECT', 'STAR', 'FROM', 'ID']}, {}):
                try:
                    type(d).PREFERRED = pref
                    d._minexp = None
                    me_ = d.min_expansions()
                    alt_tables.append((dict(me_), d.contexts()))
                finally:
                    type(d).PREFERRED, d._minexp = saved
        for me_, ctx_ in alt_tables:
            if p.name in ctx_ and all(s_ in me_ for s_ in p.prod):
                pre, suf = ctx_[p.name]
                yield pre + [t for s_ in p.prod for t in me_[s_]] + suf, (pre, suf, me_)
    for p in d.prods[1:]:
        kinds = d.sentence_for_production(p, ctx)
        if kinds is None or len(kinds) > 60:
            continue
        text = d.text_for(kinds)
        frame = (ctx[p.name][0], ctx[p.name][1], d.min_expansions())
        if text is not None and not accepted(text):
            for kinds2, frame2 in alternatives(p):
                t2 = d.text_for(kinds2) if len(kinds2) <= 60 else None
                if t2 is not None and accepted(t2):
                    text, frame = t2, frame2
                    break
        _cache.setdefault(('prodframe', dname), {})[p.number] = frame
        if text is None or text in seen:
            continue
        seen.add(text)
        out.append((p.number, text))
    _cache[key] = out
    return out


def production_frame(dname, num):
    """(prefix kinds, suffix kinds, expansion table) the sentence of production `num` was built with"""
    production_sentences(dname)
    return _cache.get(('prodframe', dname), {}).get(num)


def test_strings():
    if 'tests' in _cache:
        return _cache['tests']
    out = []
    seen = set()
    base = os.path.join(REPO_ROOT, 'tests')
    for d, _, files in os.walk(base):
        for fn in sorted(files):
            if not fn.endswith('.py'):
                continue
            try:
                tree = ast.parse(open(os.path.join(d, fn), encoding='utf-8').read())
            except SyntaxError:
                continue
            for n in ast.walk(tree):
                if isinstance(n, ast.Constant) and isinstance(n.value, str) and KW.match(n.value) and len(n.value) < 3000:
                    s = n.value
                    if '{' in s and '}' in s and re.search(r'\{\w*\}', s):
                        continue        # format templates
                    if s not in seen:
                        seen.add(s)
                        out.append(s)
    _cache['tests'] = out
    return out


def parsed(dname, with_tests=True):
    """list of (source, sql, tree) that the dialect parses"""
    key = ('parsed', dname, with_tests)
    if key in _cache:
        return _cache[key]
    from mindsdb_sql import parse_sql
    out = []
    srcs = [(f'prod{n}', t) for n, t in production_sentences(dname)]
    if with_tests:
        srcs += [('tests', s) for s in test_strings()]
    for src, sql in srcs:
        try:
            tree = parse_sql(sql, dialect=dname)
        except Exception:
            continue
        if tree is None:
            continue
        out.append((src, sql, tree))
    _cache[key] = out
    return out


def walk_nodes(tree, _seen=None, path='root', depth=0):
    """reflective walk over __dict__ (independent of query_traversal): yields (path, node) for every ASTNode"""
    from mindsdb_sql.parser.ast.base import ASTNode
    if _seen is None:
        _seen = set()
    if depth > 60:
        return
    if isinstance(tree, ASTNode):
        if id(tree) in _seen:
            return
        _seen.add(id(tree))
        yield path, tree
        for k, v in vars(tree).items():
            yield from walk_nodes(v, _seen, f'{path}.{k}', depth + 1)
    elif isinstance(tree, (list, tuple)):
        for i, v in enumerate(tree):
            yield from walk_nodes(v, _seen, f'{path}[{i}]', depth + 1)
    elif isinstance(tree, dict):
        for k, v in tree.items():
            yield from walk_nodes(v, _seen, f'{path}[{k!r}]', depth + 1)


def all_node_classes():
    """every ASTNode subclass defined under mindsdb_sql (imports the parser modules first)"""
    from mindsdb_sql.parser.ast.base import ASTNode
    for dname in lrtab.DIALECTS:
        lrtab.load(dname)
    out = []
    work = [ASTNode]
    seen = set()
    while work:
        c = work.pop()
        for s in c.__subclasses__():
            if s not in seen and s.__module__.startswith('mindsdb_sql'):
                seen.add(s)
                out.append(s)
                work.append(s)
    return sorted(out, key=lambda c: (c.__module__, c.__name__))
