"""vcheck replay <file>: shows a recorded violation and re-runs its concrete input against the real code."""
import json, sys
from . import repo


def main(path):
    d = json.load(open(path))
    print(json.dumps({k: d[k] for k in d if k not in ('cex',)}, indent=1, default=str)[:4000])
    r = d.get('replay') or {}
    inp = r.get('input') or d.get('input')
    if not inp:
        print('no concrete input recorded (no-failing-input-found): the failed obligation and verifier output are above')
        return 1
    if isinstance(inp, str):
        from mindsdb_sql import parse_sql
        dialect = r.get('dialect') or 'mindsdb'
        try:
            q = parse_sql(inp, dialect=dialect)
            print(f'parse_sql({inp!r}, {dialect!r}) ->\n{q.to_tree()}\nprinted: {q}')
        except Exception as e:
            print(f'parse_sql({inp!r}, {dialect!r}) raises {type(e).__name__}: {e}')
    return 1
