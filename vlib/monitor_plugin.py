"""pytest plugin (lives in /verif, loaded with -p vlib.monitor_plugin): records every QueryPlanner construction +
from_query call made by the repository's tests, as picklable scenarios {source, query, kwargs}.  No repo edit."""
import copy, os, pickle

_records = []


def pytest_configure(config):
    out = os.environ.get('VERIF_HARVEST')
    if not out:
        return
    from mindsdb_sql.planner import query_planner as qp
    orig_init = qp.QueryPlanner.__init__
    orig_from = qp.QueryPlanner.from_query

    def init(self, query=None, *args, **kwargs):
        names = ['integrations', 'predictor_namespace', 'predictor_metadata', 'default_namespace']
        kw = dict(zip(names, args))
        kw.update(kwargs)
        try:
            self._verif_kwargs = copy.deepcopy(kw)
            self._verif_query = copy.deepcopy(query)
        except Exception:
            self._verif_kwargs = None
        return orig_init(self, query, *args, **kwargs)

    def from_query(self, query=None):
        if getattr(self, '_verif_kwargs', None) is not None:
            try:
                q = copy.deepcopy(query) if query is not None else self._verif_query
                if q is not None:
                    pickle.dumps((q, self._verif_kwargs))
                    _records.append({'source': f'tests:{os.environ.get("PYTEST_CURRENT_TEST", "?").split(" ")[0]}', 'query': q, 'kwargs': self._verif_kwargs})
            except Exception:
                pass
        return orig_from(self, query)
    qp.QueryPlanner.__init__ = init
    qp.QueryPlanner.from_query = from_query


def pytest_unconfigure(config):
    out = os.environ.get('VERIF_HARVEST')
    if out:
        with open(out, 'wb') as f:
            pickle.dump(_records, f)
