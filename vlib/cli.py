import argparse, importlib, json, os, sys
from . import core


def main(argv=None):
    ap = argparse.ArgumentParser(prog='vcheck')
    ap.add_argument('what')
    ap.add_argument('arg', nargs='?')
    ap.add_argument('--tier', default=os.environ.get('VERIF_TIER', 'quick'), choices=['quick', 'thorough'])
    a = ap.parse_args(argv)
    if a.what == 'replay':
        from . import replay
        return replay.main(a.arg)
    if a.what == 'selftest':
        from . import selftest
        return selftest.main(a.arg, a.tier)
    prop = a.what.upper()
    sys.path.insert(0, os.path.join(core.VERIF))
    try:
        mod = importlib.import_module(f'contracts.{prop}')
    except ModuleNotFoundError as e:
        if e.name == f'contracts.{prop}':
            print(f'no check for {prop}')
            return 3
        raise
    return core.run_check(prop, lambda rep: mod.check(rep, a.tier), a.tier, mod.LEVEL)


if __name__ == '__main__':
    sys.exit(main())
