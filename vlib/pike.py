"""Leftmost-first ("preferred") match of a backtracking regular expression, as an automaton.

`re.match` does not return the longest match nor the match a language-level argument would pick: it returns the first successful
path of a depth-first search that tries alternatives in order and greedy repetitions longest-first.  For regular expressions
without back-references and look-around this choice is computed exactly by the ordered-thread-list simulation (Pike): threads are
kept in priority order, a thread that reaches the end of the pattern records a match and cuts every thread of lower priority,
threads of higher priority keep running and may overwrite the record.  The set of ordered thread lists is finite, so "the match
`re` prefers on  text . follow  is exactly  text" is a reachability question over (image automaton x thread lists).

Used by C04 / C01 / C07 to decide that a printed literal is read back as one token whatever follows it, instead of the stronger
language-level condition "no proper prefix of the text is in the token language" (which the real lexer does not need:
`'\\''` has the prefix `'\\'` in the language of QUOTE_STRING, yet `re` prefers the escape pair and reads the whole text).

Validated against CPython on every use (`validate`): all strings up to a length over a sub-alphabet, `re.match(...).end()`.
"""
import re
import itertools
try:
    import re._parser as sre_parse
except ImportError:          # pragma: no cover
    import sre_parse
from .fst import char_pred, FstError

MAXREPEAT = sre_parse.MAXREPEAT


class N:
    __slots__ = ('kind', 'pred', 'nxt', 'alts', 'id')
    _c = itertools.count()

    def __init__(self, kind, pred=None, nxt=None, alts=None):
        self.kind, self.pred, self.nxt, self.alts = kind, pred, nxt, alts
        self.id = next(N._c)


def _compile(seq, k, flags):
    """entry node of: match `seq`, then continue at k"""
    for node in reversed(list(seq)):
        op, av = node
        op = str(op)
        if op in ('LITERAL', 'NOT_LITERAL', 'ANY', 'IN'):
            k = N('char', pred=char_pred(node, flags), nxt=k)
        elif op == 'SUBPATTERN':
            k = _compile(av[3], k, flags)
        elif op == 'BRANCH':
            k = N('split', alts=[_compile(alt, k, flags) for alt in av[1]])
        elif op in ('MAX_REPEAT', 'MIN_REPEAT'):
            lo, hi, sub = av
            greedy = op == 'MAX_REPEAT'
            if hi == MAXREPEAT:
                loop = N('split', alts=[])
                body = _compile(sub, loop, flags)
                loop.alts = [body, k] if greedy else [k, body]
                k2 = loop
            else:
                if hi - lo > 8:
                    raise FstError('bounded repetition too wide')
                k2 = k
                for _ in range(hi - lo):
                    body = _compile(sub, k2, flags)
                    k2 = N('split', alts=[body, k] if greedy else [k, body])
            for _ in range(lo):
                k2 = _compile(sub, k2, flags)
            k = k2
        else:
            raise FstError(f'regular expression construct {op} is outside the ordered-thread model')
    return k


class Pike:
    def __init__(self, pattern, flags=0):
        self.pattern, self.flags = pattern, flags
        self.match = N('match')
        self.entry = _compile(sre_parse.parse(pattern, flags), self.match, flags)

    def _add(self, node, lst, seen):
        """append the threads reachable from node without consuming input, in priority order; True when a match was recorded
        (every thread added afterwards would have lower priority and is cut)"""
        if node.id in seen:
            return False
        seen.add(node.id)
        if node.kind == 'match':
            lst.append(node)
            return True
        if node.kind == 'char':
            lst.append(node)
            return False
        for a in node.alts:
            if self._add(a, lst, seen):
                return True
        return False

    def start(self):
        lst = []
        self._add(self.entry, lst, set())
        return tuple(lst)

    def step(self, state, ch):
        new, seen = [], set()
        for t in state:
            if t.kind == 'match':
                break
            if t.pred(ch):
                if self._add(t.nxt, new, seen):
                    break
        return tuple(new)

    @staticmethod
    def matched(state):
        return any(t.kind == 'match' for t in state)

    @staticmethod
    def key(state):
        return tuple(t.id for t in state)

    def end_of_match(self, w):
        """position where re.match(pattern, w) ends, or None"""
        st = self.start()
        best = 0 if self.matched(st) else None
        for i, ch in enumerate(w):
            st = self.step(st, ch)
            if not st:
                break
            if self.matched(st):
                best = i + 1
        return best

    def validate(self, alphabet, maxlen=5):
        rx = re.compile(self.pattern, self.flags)
        for k in range(maxlen + 1):
            for tup in itertools.product(alphabet, repeat=k):
                w = ''.join(tup)
                m = rx.match(w)
                want = m.end() if m else None
                got = self.end_of_match(w)
                if want != got:
                    return (w, got, want)
        return None


def preferred_not_exact(pk, alphabet, image, follow):
    """image, follow: Dfa over `alphabet`.  Returns None when for every text in L(image) and every f in L(follow) (and f = '')
    the match `re` prefers on text + f is exactly text; otherwise a witness (text, f, end) where end is the position the preferred
    match ends at (None: no match)."""
    from collections import deque
    # phase 1: run the image automaton and the thread lists in lock step
    seen = {}
    q = deque()
    s0 = (image.start, pk.start())
    seen[(s0[0], pk.key(s0[1]))] = ''
    q.append((s0, ''))
    handoff = []
    while q:
        (qi, st), w = q.popleft()
        if qi in image.finals:
            if not pk.matched(st):
                return (w, '', pk.end_of_match(w))
            handoff.append((st, w))
        for ch in alphabet:
            qn = image.step(qi, ch)
            if qn is None:
                continue
            sn = pk.step(st, ch)
            kk = (qn, pk.key(sn))
            if kk in seen:
                continue
            seen[kk] = w + ch
            q.append(((qn, sn), w + ch))
    # phase 2: what follows must not let a thread of higher priority match later
    seen2 = set()
    for st, w in handoff:
        rest = tuple(t for t in st if t.kind != 'match')
        q = deque([((follow.start, rest), '')])
        while q:
            (qf, s2), f = q.popleft()
            kk = (qf, pk.key(s2))
            if kk in seen2:
                continue
            seen2.add(kk)
            if f and pk.matched(s2):
                return (w, f, len(w) + len(f))
            if not s2:
                continue
            for ch in alphabet:
                qn = follow.step(qf, ch)
                if qn is None:
                    continue
                q.append(((qn, pk.step(s2, ch)), f + ch))
    return None
