"""E4 lrtab: obligations over the LALR tables that SLY generates from the *current* grammar source.

The generator is not trusted: an independent LR(0) automaton is built from `_grammar.Productions`
and the generated `lr_action` / `lr_goto` are checked against it.  Also: grammar utilities
(shortest expansions, shortest sentence using a production, viable prefixes) and representative
lexemes taken from the real lexer regexes."""
import re, sys, time
from collections import deque, defaultdict
from . import repo
from .core import CheckerError

try:
    import re._parser as sre_parse      # py3.11+
    import re._constants as sre_c
except ImportError:                      # pragma: no cover
    import sre_parse, sre_constants as sre_c

DIALECTS = {
    'mindsdb': ('mindsdb_sql.parser.dialects.mindsdb.lexer', 'MindsDBLexer',
                'mindsdb_sql.parser.dialects.mindsdb.parser', 'MindsDBParser'),
    'mysql': ('mindsdb_sql.parser.dialects.mysql.lexer', 'MySQLLexer',
              'mindsdb_sql.parser.dialects.mysql.parser', 'MySQLParser'),
    'sqlite': ('mindsdb_sql.parser.lexer', 'SQLLexer', 'mindsdb_sql.parser.parser', 'SQLParser'),
}

_loaded = {}


class Dialect:
    def __init__(self, name):
        lm, lc, pm, pc = DIALECTS[name]
        self.name = name
        self.lexer_module, self.lexer_class_name, self.parser_module, self.parser_class_name = lm, lc, pm, pc
        self.Lexer = getattr(repo.import_module(lm), lc)
        self.Parser = getattr(repo.import_module(pm), pc)
        self.grammar = self.Parser._grammar
        self.table = self.Parser._lrtable
        self.prods = self.grammar.Productions
        self.action = self.table.lr_action
        self.goto = self.table.lr_goto
        self.defaulted = self.table.defaulted_states
        self.terminals = set(self.grammar.Terminals)      # includes 'error', '$end'?
        self.nonterminals = set(self.grammar.Nonterminals)
        self.prec = dict(self.grammar.Precedence)
        self._lr0 = None
        self._minexp = None
        self._lexemes = None

    # ---------------------------------------------------------------- independent LR(0)
    @property
    def lr0(self):
        if self._lr0 is None:
            self._lr0 = LR0(self)
        return self._lr0

    # ---------------------------------------------------------------- grammar utilities
    NICE = {'ID': 3, 'INTEGER': 2, 'QUOTE_STRING': 2, 'STAR': 1}
    # expansions that satisfy the actions' own semantic checks (a bare `SELECT *` cannot take WHERE/GROUP BY/ORDER BY)
    PREFERRED = {'select': ['SELECT', 'ID', 'FROM', 'ID']}

    def min_expansions(self):
        """shortest terminal string (list of token kinds) derivable from every symbol; ties are broken towards plain
        identifiers / literals; PREFERRED overrides are kept when the grammar has that nonterminal."""
        if self._minexp is not None:
            return self._minexp
        best = {t: [t] for t in self.terminals}
        fixed = set()
        for n, kinds in self.PREFERRED.items():
            if n in self.nonterminals and all(k in self.terminals for k in kinds):
                best[n] = list(kinds)
                fixed.add(n)

        def score(c):
            return (len(c), -sum(self.NICE.get(t, 0) for t in c))
        changed = True
        while changed:
            changed = False
            for p in self.prods[1:]:
                if p.name in fixed:
                    continue
                if all(s in best for s in p.prod):
                    cand = [t for s in p.prod for t in best[s]]
                    if p.name not in best or score(cand) < score(best[p.name]):
                        best[p.name] = cand
                        changed = True
        self._minexp = best
        return best

    def contexts(self):
        """for every nonterminal N: a shortest (prefix, suffix) of token kinds with start =>* prefix N suffix"""
        me = self.min_expansions()
        start = self.prods[0].prod[0]
        ctx = {start: ([], [])}
        changed = True
        while changed:
            changed = False
            for p in self.prods[1:]:
                if p.name not in ctx:
                    continue
                pre0, suf0 = ctx[p.name]
                for i, s in enumerate(p.prod):
                    if s in self.nonterminals:
                        if not all(x in me for x in p.prod[:i] + p.prod[i + 1:]):
                            continue
                        pre = pre0 + [t for x in p.prod[:i] for t in me[x]]
                        suf = [t for x in p.prod[i + 1:] for t in me[x]] + suf0
                        if s not in ctx or len(pre) + len(suf) < len(ctx[s][0]) + len(ctx[s][1]):
                            ctx[s] = (pre, suf)
                            changed = True
        return ctx

    def sentence_for_production(self, p, ctx=None):
        me = self.min_expansions()
        ctx = ctx or self.contexts()
        if p.name not in ctx or not all(s in me for s in p.prod):
            return None
        pre, suf = ctx[p.name]
        return pre + [t for s in p.prod for t in me[s]] + suf

    # ---------------------------------------------------------------- lexemes
    def lexemes(self):
        """token kind -> representative source text, derived from the real lexer regex and validated by
        running the real lexer on it (must yield exactly one token of that kind)."""
        if self._lexemes is not None:
            return self._lexemes
        out = {}
        prefer = {'ID': 'abc', 'INTEGER': '7', 'FLOAT': '1.5', 'QUOTE_STRING': "'s'", 'DQUOTE_STRING': '"d"',
                  'VARIABLE': '@v', 'SYSTEM_VARIABLE': '@@sv', 'PARAMETER': '?'}
        for tokname, value in self.Lexer._rules:
            if tokname.startswith('ignore_'):
                continue
            pattern = value if isinstance(value, str) else getattr(value, 'pattern', None)
            if pattern is None:
                continue
            cands = []
            if tokname in prefer:
                cands.append(prefer[tokname])
            try:
                cands.extend(sample_regex(pattern, self.Lexer.reflags))
            except Exception as e:                 # sampler limitation: try nothing else
                pass
            for c in cands:
                if self.lex_kinds(c) == [tokname]:
                    out[tokname] = c
                    break
        self._lexemes = out
        return out

    def lex_kinds(self, text):
        try:
            return [t.type for t in self.Lexer().tokenize(text)]
        except Exception:
            return None

    def text_for(self, kinds):
        """token kinds -> source text (space separated); None if a kind has no lexeme or the text does not
        re-lex to the same kinds."""
        lx = self.lexemes()
        try:
            text = ' '.join(lx[k] for k in kinds)
        except KeyError:
            return None
        if self.lex_kinds(text) != list(kinds):
            return None
        return text

    # ---------------------------------------------------------------- viable prefixes
    def viable_prefix(self, state):
        """shortest token-kind sequence that drives the real tables from state 0 to a configuration whose top
        state is `state` (found by BFS over the *generated* table using shift and goto edges, then expanding
        nonterminal edges to their shortest terminal strings)."""
        paths = self._state_paths()
        if state not in paths:
            return None
        me = self.min_expansions()
        out = []
        for sym in paths[state]:
            if sym not in me:
                return None
            out.extend(me[sym])
        return out

    def _state_paths(self):
        if getattr(self, '_paths', None) is not None:
            return self._paths
        me = self.min_expansions()
        paths = {0: []}
        # Dijkstra by token count
        import heapq
        heap = [(0, 0, [])]
        done = set()
        while heap:
            cost, st, path = heapq.heappop(heap)
            if st in done:
                continue
            done.add(st)
            paths[st] = path
            for a, t in self.action[st].items():
                if t is not None and t > 0 and t not in done:
                    heapq.heappush(heap, (cost + 1, t, path + [a]))
            for n, t in self.goto[st].items():
                if t not in done and n in me:
                    heapq.heappush(heap, (cost + len(me[n]), t, path + [n]))
        self._paths = paths
        return paths


def lr_first_error(d, kinds):
    """independent table-driven LR simulation (no error recovery, no semantic actions): index of the first token for which the
    generated table has no action (len(kinds) when only the end of input is missing / the input is accepted), and whether it is accepted"""
    states = [0]
    i = 0
    toks = list(kinds) + ['$end']
    steps = 0
    while True:
        steps += 1
        if steps > 100000:
            return i, False
        s = states[-1]
        if s in d.defaulted:
            t = d.defaulted[s]
        else:
            t = d.action[s].get(toks[i])
        if t is None:
            return i, False
        if t > 0:
            states.append(t)
            i += 1
        elif t < 0:
            p = d.prods[-t]
            if p.len:
                del states[-p.len:]
            states.append(d.goto[states[-1]][p.name])
        else:
            return len(kinds), True


def load(name):
    if name not in _loaded:
        _loaded[name] = Dialect(name)
    return _loaded[name]


# ======================================================================= independent LR(0)
class LR0:
    """Independent LR(0) automaton over Productions (item = (prod number, dot)).  ~80 lines."""

    def __init__(self, d):
        self.d = d
        P = d.prods
        self.rhs = [tuple(p.prod) for p in P]
        self.lhs = [p.name for p in P]
        self.by_lhs = defaultdict(list)
        for i, n in enumerate(self.lhs):
            self.by_lhs[n].append(i)
        self.nonterm = set(self.by_lhs)
        self.states = []          # list of frozenset(items) (closures)
        self.index = {}           # kernel frozenset -> state number
        self.trans = []           # list of dict symbol -> state
        self._build()
        self.to_sly, self.from_sly, self.mismatch = self._match()

    def closure(self, kernel):
        items = set(kernel)
        work = list(kernel)
        while work:
            p, dot = work.pop()
            if dot < len(self.rhs[p]):
                s = self.rhs[p][dot]
                if s in self.nonterm:
                    for q in self.by_lhs[s]:
                        it = (q, 0)
                        if it not in items:
                            items.add(it)
                            work.append(it)
        return frozenset(items)

    def _build(self):
        k0 = frozenset({(0, 0)})
        self.index[k0] = 0
        self.states.append(self.closure(k0))
        self.trans.append({})
        work = deque([0])
        while work:
            i = work.popleft()
            moves = defaultdict(set)
            for p, dot in self.states[i]:
                if dot < len(self.rhs[p]):
                    moves[self.rhs[p][dot]].add((p, dot + 1))
            for sym, kern in moves.items():
                kern = frozenset(kern)
                j = self.index.get(kern)
                if j is None:
                    j = len(self.states)
                    self.index[kern] = j
                    self.states.append(self.closure(kern))
                    self.trans.append({})
                    work.append(j)
                self.trans[i][sym] = j

    def _match(self):
        """homomorphism from SLY's states onto our item sets, built by following SLY's own shift/goto edges
        (SLY may hold several states with the same item set in a different order, so the map is many-to-one);
        every discrepancy is recorded (and becomes a FAILED C05.tab.consistent obligation)."""
        d = self.d
        from_sly = {0: 0}
        mismatch = []
        work = deque([0])
        while work:
            s = work.popleft()
            i = from_sly[s]
            edges = [(a, t) for a, t in d.action[s].items() if t is not None and t > 0]
            edges += list(d.goto[s].items())
            for sym, t in edges:
                j = self.trans[i].get(sym)
                if j is None:
                    mismatch.append(f'state {s}: generated table moves on {sym} to {t}, LR(0) automaton has no such move')
                    continue
                if t in from_sly:
                    if from_sly[t] != j:
                        mismatch.append(f'state {s} on {sym}: generated target {t} carries another item set')
                else:
                    from_sly[t] = j
                    work.append(t)
            # every nonterminal move of the automaton must be in the goto table
            for sym, j in self.trans[i].items():
                if sym in self.nonterm and sym not in d.goto[s]:
                    mismatch.append(f'state {s}: goto on {sym} missing in generated table')
        to_sly = defaultdict(list)
        for s, i in from_sly.items():
            to_sly[i].append(s)
        return to_sly, from_sly, mismatch

    def items(self, sly_state):
        i = self.from_sly.get(sly_state)
        return None if i is None else self.states[i]

    def completed(self, sly_state):
        its = self.items(sly_state) or ()
        return [p for p, dot in its if dot == len(self.rhs[p]) and p != 0]


# ======================================================================= regex sampler
def sample_regex(pattern, flags=0, limit=6):
    """a few short strings matched by `pattern` (keywords: the keyword itself), from re's own parse tree."""
    tree = sre_parse.parse(pattern, flags)
    outs = []
    for choice in range(limit):
        try:
            s = _gen(tree, choice)
        except _NoSample:
            continue
        if s is not None and s not in outs and re.fullmatch(pattern, s, flags):
            outs.append(s)
    return outs


class _NoSample(Exception):
    pass


def _gen(seq, choice):
    out = []
    for op, av in seq:
        op = str(op)
        if op == 'LITERAL':
            out.append(chr(av))
        elif op == 'NOT_LITERAL':
            out.append('x' if av != ord('x') else 'y')
        elif op == 'ANY':
            out.append('x')
        elif op == 'IN':
            out.append(_gen_in(av, choice))
        elif op == 'BRANCH':
            alts = av[1]
            out.append(_gen(alts[choice % len(alts)], choice // len(alts)))
        elif op == 'SUBPATTERN':
            out.append(_gen(av[3], choice))
        elif op in ('MAX_REPEAT', 'MIN_REPEAT'):
            lo, hi, sub = av
            n = lo if lo > 0 else (0 if choice % 2 == 0 else 1)
            out.append(''.join(_gen(sub, choice) for _ in range(max(n, lo))))
        elif op == 'AT':
            pass
        elif op in ('ASSERT', 'ASSERT_NOT'):
            pass
        else:
            raise _NoSample(op)
    return ''.join(out)


def _gen_in(av, choice):
    neg = False
    cands = []
    for op, a in av:
        op = str(op)
        if op == 'NEGATE':
            neg = True
        elif op == 'LITERAL':
            cands.append(chr(a))
        elif op == 'RANGE':
            cands.append(chr(a[0]))
        elif op == 'CATEGORY':
            c = str(a)
            cands.append({'CATEGORY_DIGIT': '1', 'CATEGORY_SPACE': ' ', 'CATEGORY_WORD': 'w',
                          'CATEGORY_NOT_SPACE': 'x', 'CATEGORY_NOT_DIGIT': 'x', 'CATEGORY_NOT_WORD': '-'}.get(c, 'x'))
    if neg:
        for c in 'xyz1 ':
            if c not in cands:
                return c
        raise _NoSample('neg')
    return cands[choice % len(cands)]


# ======================================================================= independent recogniser
class Earley:
    """Earley recogniser over the grammar's productions (independent of the LALR tables): decides whether a
    token-kind sequence is a sentence of the context-free grammar the tables were built from."""

    def __init__(self, d):
        self.rhs = [tuple(p.prod) for p in d.prods]
        self.lhs = [p.name for p in d.prods]
        self.by_lhs = defaultdict(list)
        for i, n in enumerate(self.lhs):
            if i:
                self.by_lhs[n].append(i)
        self.start = d.prods[0].prod[0]
        self.nullable = set()
        ch = True
        while ch:
            ch = False
            for i in range(1, len(self.rhs)):
                if self.lhs[i] not in self.nullable and all(s in self.nullable for s in self.rhs[i]):
                    self.nullable.add(self.lhs[i])
                    ch = True

    def accepts(self, kinds):
        n = len(kinds)
        S = [dict() for _ in range(n + 1)]     # item (prod, dot, origin) -> True
        order = [[] for _ in range(n + 1)]

        def add(k, it):
            if it not in S[k]:
                S[k][it] = True
                order[k].append(it)
        for p in self.by_lhs[self.start]:
            add(0, (p, 0, 0))
        for k in range(n + 1):
            i = 0
            while i < len(order[k]):
                p, dot, org = order[k][i]
                i += 1
                rhs = self.rhs[p]
                if dot < len(rhs):
                    sym = rhs[dot]
                    if sym in self.by_lhs:
                        for q in self.by_lhs[sym]:
                            add(k, (q, 0, k))
                        if sym in self.nullable:
                            add(k, (p, dot + 1, org))
                    elif k < n and kinds[k] == sym:
                        add(k + 1, (p, dot + 1, org))
                else:
                    lhs = self.lhs[p]
                    for (q, d2, o2) in list(order[org]):
                        r2 = self.rhs[q]
                        if d2 < len(r2) and r2[d2] == lhs:
                            add(k, (q, d2 + 1, o2))
        return any(self.lhs[p] == self.start and dot == len(self.rhs[p]) and org == 0 for (p, dot, org) in S[n])


def _earley_viable_len(self, kinds):
    """length of the longest prefix of `kinds` that is a viable prefix of the grammar (can be completed to a sentence)"""
    n = len(kinds)
    S = [dict() for _ in range(n + 1)]
    order = [[] for _ in range(n + 1)]

    def add(k, it):
        if it not in S[k]:
            S[k][it] = True
            order[k].append(it)
    for p in self.by_lhs[self.start]:
        add(0, (p, 0, 0))
    last = 0
    for k in range(n + 1):
        i = 0
        while i < len(order[k]):
            p, dot, org = order[k][i]
            i += 1
            rhs = self.rhs[p]
            if dot < len(rhs):
                sym = rhs[dot]
                if sym in self.by_lhs:
                    for q in self.by_lhs[sym]:
                        add(k, (q, 0, k))
                    if sym in self.nullable:
                        add(k, (p, dot + 1, org))
                elif k < n and kinds[k] == sym:
                    add(k + 1, (p, dot + 1, org))
            else:
                lhs = self.lhs[p]
                for (q, d2, o2) in list(order[org]):
                    r2 = self.rhs[q]
                    if d2 < len(r2) and r2[d2] == lhs:
                        add(k, (q, d2 + 1, o2))
        if not order[k]:
            return k - 1
        last = k
    return last


Earley.viable_len = _earley_viable_len
