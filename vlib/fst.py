"""E3 fst: decision procedure for straight-line string codecs (replace/strip/concat over regular domains).

Strings are abstracted to a minterm alphabet (one representative per class of characters that the involved regexes and
constants can distinguish — validated by `check_minterms`); all transducers only copy input characters or emit constants,
so one representative per minterm is sound.  Decided: equivalence of functional (nondeterministic) transducers on a regular
domain (product + delay), inclusion / emptiness of regular languages, image of a transducer.  Witnesses are shortest."""
import re, itertools
from collections import deque

try:
    import re._parser as sre_parse
except ImportError:                      # pragma: no cover
    import sre_parse


class FstError(Exception):
    pass


# ============================================================================================ automata
class Nfa:
    """NFA with epsilon moves over single characters. states 0..n-1"""

    def __init__(self):
        self.n = 0
        self.eps = {}
        self.trans = {}          # (state, ch) -> set(states)
        self.start = None
        self.finals = set()

    def new(self):
        self.n += 1
        return self.n - 1

    def add(self, p, ch, q):
        if ch is None:
            self.eps.setdefault(p, set()).add(q)
        else:
            self.trans.setdefault((p, ch), set()).add(q)

    def closure(self, S):
        S = set(S)
        work = list(S)
        while work:
            p = work.pop()
            for q in self.eps.get(p, ()):
                if q not in S:
                    S.add(q)
                    work.append(q)
        return frozenset(S)

    def to_dfa(self, alphabet):
        start = self.closure({self.start})
        index = {start: 0}
        trans = [{}]
        finals = set()
        work = deque([start])
        while work:
            S = work.popleft()
            i = index[S]
            if S & self.finals:
                finals.add(i)
            for ch in alphabet:
                T = set()
                for p in S:
                    T |= self.trans.get((p, ch), set())
                T = self.closure(T)
                if not T:
                    continue
                if T not in index:
                    index[T] = len(trans)
                    trans.append({})
                    work.append(T)
                trans[i][ch] = index[T]
        return Dfa(alphabet, trans, 0, finals)


class Dfa:
    """partial DFA (missing transition = dead)"""

    def __init__(self, alphabet, trans, start, finals):
        self.alphabet, self.trans, self.start, self.finals = list(alphabet), trans, start, set(finals)

    def step(self, q, ch):
        if q is None:
            return None
        return self.trans[q].get(ch)

    def accepts(self, w):
        q = self.start
        for ch in w:
            q = self.step(q, ch)
            if q is None:
                return False
        return q in self.finals

    def complete(self):
        trans = [dict(t) for t in self.trans]
        dead = len(trans)
        trans.append({})
        for t in trans:
            for ch in self.alphabet:
                t.setdefault(ch, dead)
        return Dfa(self.alphabet, trans, self.start, self.finals)

    def complement(self):
        c = self.complete()
        return Dfa(c.alphabet, c.trans, c.start, set(range(len(c.trans))) - c.finals)

    def product(self, other, mode='and'):
        a, b = (self.complete(), other.complete()) if mode != 'and' else (self, other)
        index = {(a.start, b.start): 0}
        trans = [{}]
        finals = set()
        work = deque([(a.start, b.start)])
        while work:
            p, q = work.popleft()
            i = index[(p, q)]
            fa, fb = p in a.finals, q in b.finals
            if (fa and fb) if mode == 'and' else (fa or fb):
                finals.add(i)
            for ch in self.alphabet:
                p2, q2 = a.step(p, ch), b.step(q, ch)
                if p2 is None or q2 is None:
                    continue
                if (p2, q2) not in index:
                    index[(p2, q2)] = len(trans)
                    trans.append({})
                    work.append((p2, q2))
                trans[i][ch] = index[(p2, q2)]
        return Dfa(self.alphabet, trans, 0, finals)

    def intersect(self, other):
        return self.product(other, 'and')

    def union(self, other):
        return self.product(other, 'or')

    def minus(self, other):
        return self.intersect(other.complement())

    def trim(self):
        """drops states from which no final state is reachable"""
        rev = {}
        for p, t in enumerate(self.trans):
            for ch, q in t.items():
                rev.setdefault(q, set()).add(p)
        live = set(self.finals)
        work = list(live)
        while work:
            q = work.pop()
            for p in rev.get(q, ()):
                if p not in live:
                    live.add(p)
                    work.append(p)
        if self.start not in live:
            return Dfa(self.alphabet, [{}], 0, set())
        trans = [{ch: q for ch, q in t.items() if q in live} if p in live else {} for p, t in enumerate(self.trans)]
        return Dfa(self.alphabet, trans, self.start, self.finals)

    def witness(self):
        """shortest accepted string or None"""
        seen = {self.start: ''}
        work = deque([self.start])
        while work:
            q = work.popleft()
            if q in self.finals:
                return seen[q]
            for ch in self.alphabet:
                r = self.trans[q].get(ch)
                if r is not None and r not in seen:
                    seen[r] = seen[q] + ch
                    work.append(r)
        return None

    def is_empty(self):
        return self.witness() is None

    def to_nfa(self):
        n = Nfa()
        for _ in self.trans:
            n.new()
        n.start = self.start
        n.finals = set(self.finals)
        for p, t in enumerate(self.trans):
            for ch, q in t.items():
                n.add(p, ch, q)
        return n

    def concat(self, other):
        a, b = self.to_nfa(), other.to_nfa()
        off = a.n
        n = Nfa()
        n.n = a.n + b.n
        n.start = a.start
        n.eps = {p: set(q) for p, q in a.eps.items()}
        n.trans = {k: set(v) for k, v in a.trans.items()}
        for (p, ch), qs in b.trans.items():
            n.trans[(p + off, ch)] = {q + off for q in qs}
        for p, qs in b.eps.items():
            n.eps[p + off] = {q + off for q in qs}
        for f in a.finals:
            n.add(f, None, b.start + off)
        n.finals = {f + off for f in b.finals}
        return n.to_dfa(self.alphabet)

    def star_any(alphabet):
        return Dfa(alphabet, [{ch: 0 for ch in alphabet}], 0, {0})

    def plus_any(alphabet):
        return Dfa(alphabet, [{ch: 1 for ch in alphabet}, {ch: 1 for ch in alphabet}], 0, {1})

    def literal(alphabet, s):
        trans = [{} for _ in range(len(s) + 1)]
        for i, ch in enumerate(s):
            trans[i][ch] = i + 1
        return Dfa(alphabet, trans, 0, {len(s)})

    def chars(alphabet, chars):
        return Dfa(alphabet, [{ch: 1 for ch in chars if ch in alphabet}, {}], 0, {1})


# ============================================================================================ regex -> NFA
def char_pred(node, flags):
    """predicate(ch) for a single-character regex node"""
    op, av = node
    op = str(op)
    ic = bool(flags & re.IGNORECASE)

    def norm(c):
        return c.lower() if ic else c
    if op == 'LITERAL':
        return lambda c: norm(c) == norm(chr(av))
    if op == 'NOT_LITERAL':
        return lambda c: norm(c) != norm(chr(av))
    if op == 'ANY':
        dotall = bool(flags & re.DOTALL)
        return lambda c: dotall or c != '\n'
    if op == 'IN':
        neg = False
        preds = []
        for o, a in av:
            o = str(o)
            if o == 'NEGATE':
                neg = True
            elif o == 'LITERAL':
                preds.append(lambda c, a=a: norm(c) == norm(chr(a)))
            elif o == 'RANGE':
                lo, hi = a
                preds.append(lambda c, lo=lo, hi=hi: any(lo <= ord(x) <= hi for x in ({c, c.lower(), c.upper()} if ic else {c}) if len(x) == 1))
            elif o == 'CATEGORY':
                cat = str(a)
                pat = {'CATEGORY_DIGIT': r'\d', 'CATEGORY_NOT_DIGIT': r'\D', 'CATEGORY_SPACE': r'\s', 'CATEGORY_NOT_SPACE': r'\S',
                       'CATEGORY_WORD': r'\w', 'CATEGORY_NOT_WORD': r'\W'}[cat]
                rx = re.compile(pat, flags & re.ASCII)          # \\w, \\d, \\s are ASCII-only under re.ASCII
                preds.append(lambda c, rx=rx: bool(rx.fullmatch(c)))
            else:
                raise FstError(f'regex class item {o}')
        return (lambda c: not any(p(c) for p in preds)) if neg else (lambda c: any(p(c) for p in preds))
    raise FstError(f'not a character node: {op}')


def regex_nfa(pattern, flags, alphabet):
    tree = sre_parse.parse(pattern, flags)
    n = Nfa()
    word = re.compile(r'\w')

    def build(seq, start):
        cur = start
        for node in seq:
            op, av = node
            op = str(op)
            if op in ('LITERAL', 'NOT_LITERAL', 'ANY', 'IN'):
                pr = char_pred(node, flags)
                nxt = n.new()
                for ch in alphabet:
                    if pr(ch):
                        n.add(cur, ch, nxt)
                cur = nxt
            elif op == 'SUBPATTERN':
                cur = build(av[3], cur)
            elif op == 'BRANCH':
                end = n.new()
                for alt in av[1]:
                    s = n.new()
                    n.add(cur, None, s)
                    e = build(alt, s)
                    n.add(e, None, end)
                cur = end
            elif op in ('MAX_REPEAT', 'MIN_REPEAT'):
                lo, hi, sub = av
                for _ in range(lo):
                    cur = build(sub, cur)
                if str(hi) == 'MAXREPEAT' or hi > 1000:
                    loop = n.new()
                    n.add(cur, None, loop)
                    e = build(sub, loop)
                    n.add(e, None, loop)
                    cur = loop
                else:
                    end = n.new()
                    n.add(cur, None, end)
                    for _ in range(hi - lo):
                        cur = build(sub, cur)
                        n.add(cur, None, end)
                    cur = end
            elif op == 'AT':
                # \b / \B: a marked edge, resolved into ordinary states by resolve_boundaries (last-char class + constraint on the next char)
                if str(av) == 'AT_NON_BOUNDARY':
                    raise FstError('\\B is not modelled (CPython treats the empty string specially)')
                if str(av) in ('AT_BOUNDARY',):
                    nxt = n.new()
                    n.add(cur, ('\\b', str(av) == 'AT_BOUNDARY'), nxt)
                    cur = nxt
                    continue
                if str(av) in ('AT_END', 'AT_END_STRING', 'AT_BEGINNING', 'AT_BEGINNING_STRING'):
                    raise FstError('anchors inside a token pattern')
                raise FstError(f'AT {av}')
            else:
                raise FstError(f'regex node {op}')
        return cur
    n.start = n.new()
    end = build(tree, n.start)
    n.finals = {end}
    return n


def resolve_boundaries(n, alphabet, prefix=False, flags=0):
    """NFA without \\b edges accepting the same strings (prefix=False: whole-string matches at position 0, i.e. fullmatch;
    prefix=True: strings w such that the pattern matches at position 0 of w, the rest of w arbitrary - what re.match decides).
    States are (q, last, need): last = the previous character was a word character (start of string counts as non-word),
    need = None | True (the next character must be a word character) | False (the next one must be a non-word character or the end)."""
    word = re.compile(r'\w', flags & re.ASCII)
    isw = {ch: bool(word.fullmatch(ch)) for ch in alphabet}
    marks = {}
    plain = {}
    for (p, ch), qs in n.trans.items():
        if isinstance(ch, tuple):
            marks.setdefault(p, []).extend((ch[1], q) for q in qs)
        else:
            plain.setdefault(p, []).extend((ch, q) for q in qs)
    out = Nfa()
    out.full_finals = set()      # finals reached by a match that ends exactly at the end of the string (the others are prefix-match sinks)
    index = {}
    SINK = 'sink'

    def st(k):
        if k not in index:
            index[k] = out.new()
        return index[k]
    start = (n.start, False, None)
    out.start = st(start)
    work = [start]
    seen = {start}

    def push(k):
        if k not in seen:
            seen.add(k)
            work.append(k)
    while work:
        k = work.pop()
        q, last, need = k
        i = st(k)
        if q == SINK:
            for ch in alphabet:
                if need is None or need == isw[ch]:
                    k2 = (SINK, False, None)
                    out.add(i, ch, st(k2))
                    push(k2)
            if need in (None, False):
                out.finals.add(i)
            continue
        if q in n.finals and need in (None, False):
            out.finals.add(i)
            out.full_finals.add(i)
        if q in n.finals and prefix:
            k2 = (SINK, last, need)
            out.add(i, None, st(k2))
            push(k2)
        for q2 in n.eps.get(q, ()):
            k2 = (q2, last, need)
            out.add(i, None, st(k2))
            push(k2)
        for is_b, q2 in marks.get(q, ()):
            want = (not last) if is_b else last
            if need is not None and need != want:
                continue
            k2 = (q2, last, want)
            out.add(i, None, st(k2))
            push(k2)
        for ch, q2 in plain.get(q, ()):
            if need is not None and need != isw[ch]:
                continue
            k2 = (q2, isw[ch], None)
            out.add(i, ch, st(k2))
            push(k2)
    return out


def regex_dfa(pattern, flags, alphabet, prefix=False):
    """DFA of re.fullmatch(pattern, w) (prefix=True: of re.match(pattern, w)) over the alphabet; \\b and \\B are exact"""
    n = regex_nfa(pattern, flags, alphabet)
    if prefix or any(isinstance(ch, tuple) for (_p, ch) in n.trans):
        n = resolve_boundaries(n, alphabet, prefix, flags)
    return n.to_dfa(alphabet)


def check_minterms(alphabet, patterns, constants, universe=None):
    """every character of the universe must have a representative in `alphabet` with the same signature w.r.t. all
    character classes of the patterns and all constant characters. returns list of uncovered characters"""
    preds = []
    for pat, flags in patterns:
        def walk(seq):
            for node in seq:
                op, av = node
                op = str(op)
                if op in ('LITERAL', 'NOT_LITERAL', 'ANY', 'IN'):
                    preds.append(char_pred(node, flags))
                elif op == 'SUBPATTERN':
                    walk(av[3])
                elif op == 'BRANCH':
                    for alt in av[1]:
                        walk(alt)
                elif op in ('MAX_REPEAT', 'MIN_REPEAT'):
                    walk(av[2])
        walk(sre_parse.parse(pat, flags))
    consts = sorted(set(''.join(constants)))
    for c in consts:
        preds.append(lambda ch, c=c: ch == c)
    if universe is None:
        universe = [chr(i) for i in range(0, 128)] + list('é中  ßΩ٣') + ['\U0001f600']

    def sig(ch):
        return tuple(bool(p(ch)) for p in preds)
    have = {sig(ch) for ch in alphabet}
    return [ch for ch in universe if sig(ch) not in have]


# ============================================================================================ transducers
class Fst:
    """functional nondeterministic transducer without epsilon-input moves.
    trans: dict (state, ch) -> list[(out, next)];  finals: dict state -> list[out];  init_out: str"""

    def __init__(self, alphabet):
        self.alphabet = list(alphabet)
        self.n = 0
        self.init = None
        self.init_out = ''
        self.trans = {}
        self.finals = {}

    def new(self):
        self.n += 1
        return self.n - 1

    def add(self, p, ch, out, q):
        self.trans.setdefault((p, ch), []).append((out, q))

    # ---- running (for validation against CPython)
    def apply(self, w):
        cur = {(self.init, self.init_out)}
        for ch in w:
            nxt = set()
            for p, o in cur:
                for out, q in self.trans.get((p, ch), ()):
                    nxt.add((q, o + out))
            cur = nxt
        res = set()
        for p, o in cur:
            for f in self.finals.get(p, ()):
                res.add(o + f)
        return res

    # ---- constructors
    @staticmethod
    def identity(alphabet):
        t = Fst(alphabet)
        s = t.new()
        t.init = s
        for ch in alphabet:
            t.add(s, ch, ch, s)
        t.finals[s] = ['']
        return t

    @staticmethod
    def replace(alphabet, a, b):
        """str.replace(a, b): leftmost non-overlapping occurrences; |a| in {1, 2}"""
        t = Fst(alphabet)
        if len(a) == 1:
            s = t.new()
            t.init = s
            for ch in alphabet:
                t.add(s, ch, b if ch == a else ch, s)
            t.finals[s] = ['']
            return t
        if len(a) != 2:
            raise FstError('replace pattern longer than 2')
        s0, s1 = t.new(), t.new()         # s1: first char of `a` is pending
        t.init = s0
        for ch in alphabet:
            if ch == a[0]:
                t.add(s0, ch, '', s1)
            else:
                t.add(s0, ch, ch, s0)
            if ch == a[1]:
                t.add(s1, ch, b, s0)
            elif ch == a[0]:
                t.add(s1, ch, a[0], s1)
            else:
                t.add(s1, ch, a[0] + ch, s0)
        t.finals[s0] = ['']
        t.finals[s1] = [a[0]]
        return t

    @staticmethod
    def resub(alphabet, pattern, template, flags=0):
        """re.sub(pattern, template, x) for a constant pattern whose matches are 1 or 2 characters long (alternations of
        single-character atoms, groups allowed) and a constant template.  What the pattern does on one or two characters is
        asked of CPython's `re` itself (leftmost match, first alternative wins, unmatched groups expand to '')."""
        import re as _re
        lo, hi = sre_parse.parse(pattern, flags).getwidth()
        if lo < 1 or hi > 2:
            raise FstError(f're.sub pattern with matches of width {lo}..{hi}')
        rx = _re.compile(pattern, flags)
        missing = check_minterms(alphabet, [(pattern, flags)], [])
        if missing:
            raise FstError(f're.sub pattern distinguishes characters the alphabet does not: {missing[:5]!r}')

        def decide(w):
            m = rx.match(w)
            if m is None or m.end() == 0:
                return 0, None
            return m.end(), m.expand(template)
        t = Fst(alphabet)
        s0 = t.new()
        t.init = s0
        t.finals[s0] = ['']
        pending = {}
        single = {}          # c -> output when c is decided on its own
        for c in alphabet:
            n1, o1 = decide(c)
            single[c] = o1 if n1 == 1 else c
            two = any(decide(c + d)[0] == 2 for d in alphabet)
            if two:
                pending[c] = t.new()
        for c in alphabet:
            if c in pending:
                t.add(s0, c, '', pending[c])
                t.finals[pending[c]] = [single[c]]
            else:
                t.add(s0, c, single[c], s0)
        for c, pc in pending.items():
            for d in alphabet:
                n, o = decide(c + d)
                if n == 2:
                    t.add(pc, d, o, s0)
                else:
                    head = o if n == 1 else c
                    if d in pending:
                        t.add(pc, d, head, pending[d])
                    else:
                        t.add(pc, d, head + single[d], s0)
        return t

    @staticmethod
    def lstrip(alphabet, chars):
        t = Fst(alphabet)
        s0, s1 = t.new(), t.new()
        t.init = s0
        for ch in alphabet:
            if ch in chars:
                t.add(s0, ch, '', s0)
            else:
                t.add(s0, ch, ch, s1)
            t.add(s1, ch, ch, s1)
        t.finals[s0] = ['']
        t.finals[s1] = ['']
        return t

    @staticmethod
    def rstrip(alphabet, chars):
        t = Fst(alphabet)
        A, B, D = t.new(), t.new(), t.new()
        t.init = A
        for ch in alphabet:
            if ch in chars:
                # a copied run of strip-characters must be followed by a kept character, so dropping can only start
                # right after a kept character (state A), never in the middle of a run (state B)
                t.add(A, ch, ch, B)
                t.add(B, ch, ch, B)
                t.add(A, ch, '', D)
                t.add(D, ch, '', D)
            else:
                t.add(A, ch, ch, A)
                t.add(B, ch, ch, A)
        t.finals[A] = ['']
        t.finals[D] = ['']
        return t

    @staticmethod
    def drop_first(alphabet):
        """s[1:]"""
        t = Fst(alphabet)
        s0, s1 = t.new(), t.new()
        t.init = s0
        for ch in alphabet:
            t.add(s0, ch, '', s1)
            t.add(s1, ch, ch, s1)
        t.finals[s0] = ['']
        t.finals[s1] = ['']
        return t

    @staticmethod
    def drop_last(alphabet):
        """s[:-1]"""
        t = Fst(alphabet)
        s0, s1 = t.new(), t.new()
        t.init = s0
        for ch in alphabet:
            t.add(s0, ch, ch, s0)
            t.add(s0, ch, '', s1)
        t.finals[s0] = ['']      # only reachable-as-final for the empty string: s0 after copying everything would keep the last char
        t.finals[s1] = ['']
        # s0 must be final only for the empty input: split it
        t2 = Fst(alphabet)
        e, c, d = t2.new(), t2.new(), t2.new()
        t2.init = e
        for ch in alphabet:
            t2.add(e, ch, ch, c)
            t2.add(e, ch, '', d)
            t2.add(c, ch, ch, c)
            t2.add(c, ch, '', d)
        t2.finals[e] = ['']
        t2.finals[d] = ['']
        return t2

    @staticmethod
    def wrap(alphabet, prefix, suffix):
        t = Fst.identity(alphabet)
        t.init_out = prefix
        t.finals = {s: [o + suffix for o in outs] for s, outs in t.finals.items()}
        return t

    @staticmethod
    def restrict(alphabet, dfa):
        """identity on L(dfa)"""
        dfa = dfa.trim()
        t = Fst(alphabet)
        for _ in dfa.trans:
            t.new()
        t.init = dfa.start
        for p, tr in enumerate(dfa.trans):
            for ch, q in tr.items():
                t.add(p, ch, ch, q)
        for f in dfa.finals:
            t.finals[f] = ['']
        return t

    # ---- operations
    def then(self, other):
        """composition: other(self(w))"""
        T = Fst(self.alphabet)
        index = {}

        def run(q, s):
            """all (out, q') of `other` reading string s from q"""
            cur = [('', q)]
            for ch in s:
                nxt = []
                for o, st in cur:
                    for out, st2 in other.trans.get((st, ch), ()):
                        nxt.append((o + out, st2))
                cur = nxt
            return cur
        starts = run(other.init, self.init_out)
        # the initial output of `self` may drive `other` into several states: add a fresh initial state
        def get(p, q):
            if (p, q) not in index:
                index[(p, q)] = T.new()
                work.append((p, q))
            return index[(p, q)]
        work = deque()
        if len(starts) == 1:
            o0, q0 = starts[0]
            T.init = get(self.init, q0)
            T.init_out = other.init_out + o0
        else:
            raise FstError('composition with nondeterministic initial segment')
        while work:
            p, q = work.popleft()
            i = index[(p, q)]
            for ch in self.alphabet:
                for out, p2 in self.trans.get((p, ch), ()):
                    for o2, q2 in run(q, out):
                        T.add(i, ch, o2, get(p2, q2))
            for fo in self.finals.get(p, ()):
                for o2, q2 in run(q, fo):
                    for f2 in other.finals.get(q2, ()):
                        T.finals.setdefault(i, []).append(o2 + f2)
        return T

    def on_domain(self, dfa):
        return Fst.restrict(self.alphabet, dfa).then(self)

    def union(self, other):
        """union of transducers with disjoint domains that share init_out"""
        if self.init_out != other.init_out:
            raise FstError('union with different initial outputs')
        T = Fst(self.alphabet)
        T.n = 1 + self.n + other.n
        T.init = 0
        T.init_out = self.init_out
        o1, o2 = 1, 1 + self.n
        for (p, ch), lst in self.trans.items():
            T.trans.setdefault((p + o1, ch), []).extend((o, q + o1) for o, q in lst)
        for (p, ch), lst in other.trans.items():
            T.trans.setdefault((p + o2, ch), []).extend((o, q + o2) for o, q in lst)
        for ch in self.alphabet:
            T.trans.setdefault((0, ch), []).extend((o, q + o1) for o, q in self.trans.get((self.init, ch), ()))
            T.trans.setdefault((0, ch), []).extend((o, q + o2) for o, q in other.trans.get((other.init, ch), ()))
        for p, outs in self.finals.items():
            T.finals[p + o1] = list(outs)
        for p, outs in other.finals.items():
            T.finals[p + o2] = list(outs)
        T.finals[0] = list(self.finals.get(self.init, [])) + list(other.finals.get(other.init, []))
        if not T.finals[0]:
            del T.finals[0]
        return T

    def domain_nfa(self):
        n = Nfa()
        n.n = self.n
        n.start = self.init
        for (p, ch), lst in self.trans.items():
            for o, q in lst:
                n.add(p, ch, q)
        n.finals = set(self.finals)
        return n

    def domain(self):
        return self.domain_nfa().to_dfa(self.alphabet)

    def image(self):
        """DFA of { out : out in T(w) for some w }"""
        n = Nfa()
        base = {}

        def st(p):
            if p not in base:
                base[p] = n.new()
            return base[p]

        def chain(src, s, dst):
            cur = src
            for i, ch in enumerate(s):
                nxt = dst if i == len(s) - 1 else n.new()
                n.add(cur, ch, nxt)
                cur = nxt
            if not s:
                n.add(src, None, dst)
        start = n.new()
        n.start = start
        chain(start, self.init_out, st(self.init))
        end = n.new()
        n.finals = {end}
        # only co-reachable states matter, but emptiness handles that
        for (p, ch), lst in self.trans.items():
            for o, q in lst:
                chain(st(p), o, st(q))
        for p, outs in self.finals.items():
            for o in outs:
                chain(st(p), o, end)
        return n.to_dfa(self.alphabet)


def equivalent(T1, T2, max_delay=12):
    """T1, T2 functional with the same domain expected.  returns (True, None) or (False, witness_input, why)
    or (None, reason) when the delay bound is exceeded without a definite witness."""
    alphabet = T1.alphabet
    d1, d2 = T1.domain(), T2.domain()
    w = d1.minus(d2).witness()
    if w is not None:
        return False, w, 'in the domain of the first function only'
    w = d2.minus(d1).witness()
    if w is not None:
        return False, w, 'in the domain of the second function only'

    def norm(u, v):
        # strip common prefix; returns None if they conflict
        k = 0
        while k < len(u) and k < len(v) and u[k] == v[k]:
            k += 1
        u, v = u[k:], v[k:]
        if u and v:
            return None
        return (u, v)
    # co-reachability: pairs from which an accepting pair is reachable
    start = (T1.init, T2.init, norm(T1.init_out, T2.init_out))
    if start[2] is None:
        return False, '', 'initial outputs conflict'
    seen = {start: ''}
    work = deque([start])
    conflicts = []
    overflow = None
    while work:
        p, q, (u, v) = work.popleft()
        wsofar = seen[(p, q, (u, v))]
        for f1 in T1.finals.get(p, ()):
            for f2 in T2.finals.get(q, ()):
                if u + f1 != v + f2:
                    return False, wsofar, f'outputs {u + f1!r}.. vs {v + f2!r}.. (suffixes after the common prefix)'
        for ch in alphabet:
            for o1, p2 in T1.trans.get((p, ch), ()):
                for o2, q2 in T2.trans.get((q, ch), ()):
                    d = norm(u + o1, v + o2)
                    key = (p2, q2, d)
                    if d is None:
                        conflicts.append((p2, q2, wsofar + ch))
                        continue
                    if len(d[0]) + len(d[1]) > max_delay:
                        if _completion(T1, T2, p2, q2) is not None:
                            overflow = wsofar + ch
                        continue
                    if key not in seen:
                        seen[key] = wsofar + ch
                        work.append(key)
    # a conflicting pair is a real difference only if it can still reach acceptance in both
    for p, q, w in conflicts:
        ext = _completion(T1, T2, p, q)
        if ext is not None:
            return False, w + ext, 'outputs diverge'
    if overflow is not None:
        return None, f'delay bound {max_delay} exceeded on input prefix {overflow!r}'
    return True, None


def _completion(T1, T2, p, q):
    seen = {(p, q): ''}
    work = deque([(p, q)])
    while work:
        a, b = work.popleft()
        if T1.finals.get(a) and T2.finals.get(b):
            return seen[(a, b)]
        for ch in T1.alphabet:
            for _, a2 in T1.trans.get((a, ch), ()):
                for _, b2 in T2.trans.get((b, ch), ()):
                    if (a2, b2) not in seen:
                        seen[(a2, b2)] = seen[(a, b)] + ch
                        work.append((a2, b2))
    return None


def functional_witness(T, max_delay=12):
    """None if T is functional (checked as T equivalent to itself), else an input with two outputs"""
    r = equivalent(T, T, max_delay)
    if r[0] is True:
        return None
    return r[1] if r[0] is False else '?'


def validate(T, fn, alphabet, maxlen=4, domain=None):
    """engine validation: transducer output == CPython output of the real function for all strings up to maxlen.
    returns a discrepancy or None"""
    n = 0
    for k in range(maxlen + 1):
        for tup in itertools.product(alphabet, repeat=k):
            w = ''.join(tup)
            if domain is not None and not domain.accepts(w):
                continue
            n += 1
            got = T.apply(w)
            try:
                want = fn(w)
            except Exception as e:
                want = e
            if isinstance(want, Exception):
                if got:
                    return (w, got, repr(want))
                continue
            if got != {want}:
                return (w, got, want)
    return None
